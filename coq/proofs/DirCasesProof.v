(* The boolean decisions used by the C16 check (model/DirCases.v: is_suffixb, ends_with_cib,
   contains_cib, name_class - written by enumeration of all splits of a name) decide the
   declarative predicates of spec/DirSpec.v.  This is what makes "the specification evaluated
   in Coq on the implementation's output" mean the specification. *)
From Coq Require Import List String Ascii NArith Bool Lia.
Import ListNotations.
From Solstat Require Import Res Dir DirSpec DirCases DirProof.
Local Open Scope string_scope.

Lemma in_suffixes : forall s suf, In suf (suffixes s) <-> exists pre, s = pre ++ suf.
Proof.
  induction s as [|c s IH]; intros suf; cbn [suffixes In].
  - split.
    + intros [<-|[]]. now exists "".
    + intros [pre H]. left. destruct pre; [now cbn in H | discriminate].
  - rewrite IH. split.
    + intros [<- | [pre ->]]; [now exists "" | now exists (String c pre)].
    + intros [pre H]. destruct pre as [|p0 pre].
      * left. now cbn in H.
      * right. cbn in H. injection H as _ H. now exists pre.
Qed.

Lemma ci_charb_iff : forall c d, ci_charb c d = true <-> ci_char c d.
Proof.
  intros c d. unfold ci_charb.
  pose proof (N_ascii_bounded c) as Bc. pose proof (N_ascii_bounded d) as Bd.
  rewrite !orb_true_iff, !andb_true_iff, Ascii.eqb_eq, !N.leb_le, !N.eqb_eq. split.
  - intros [[H | [[H1 H2] H3]] | [[H1 H2] H3]].
    + now left.
    + right. exists (N_of_ascii c - 65)%N. split; [lia|]. left. split.
      * rewrite <- (ascii_N_embedding c) at 1. f_equal. lia.
      * rewrite <- (ascii_N_embedding d) at 1. f_equal. lia.
    + right. exists (N_of_ascii d - 65)%N. split; [lia|]. right. split.
      * rewrite <- (ascii_N_embedding c) at 1. f_equal. lia.
      * rewrite <- (ascii_N_embedding d) at 1. f_equal. lia.
  - intros [-> | [k [Hk [[-> ->] | [-> ->]]]]].
    + left. now left.
    + left. right. rewrite !N_ascii_embedding by lia. lia.
    + right. rewrite !N_ascii_embedding by lia. lia.
Qed.

Lemma same_cib_iff : forall y x, same_cib y x = true <-> same_ci y x.
Proof.
  induction y as [|c y IH]; intros x; destruct x as [|d x]; cbn [same_cib].
  - split; [constructor | reflexivity].
  - split; [discriminate | intros H; inversion H].
  - split; [discriminate | intros H; inversion H].
  - rewrite andb_true_iff, ci_charb_iff, IH. split.
    + intros [H1 H2]. now constructor.
    + intros H. inversion H; subst. now split.
Qed.

Lemma same_ci_length : forall y x, same_ci y x -> String.length y = String.length x.
Proof. intros y x H. induction H as [|c d s t _ _ IH]; cbn; [reflexivity | now rewrite IH]. Qed.

Lemma take_app_exact : forall y b, take (String.length y) (y ++ b) = y.
Proof. induction y as [|c y IH]; intros b; cbn; [now destruct b | now rewrite IH]. Qed.

Lemma take_split : forall n s, exists b, s = take n s ++ b.
Proof.
  induction n as [|n IH]; intros s.
  - exists s. now destruct s.
  - destruct s as [|c s]; [now exists ""|]. destruct (IH s) as [b Hb]. exists b. cbn. now rewrite <- Hb.
Qed.

Lemma is_suffixb_iff : forall x s, is_suffixb x s = true <-> is_suffix x s.
Proof.
  intros x s. unfold is_suffixb, is_suffix. rewrite existsb_exists. split.
  - intros [suf [Hin He]]. apply String.eqb_eq in He. subst suf. now apply in_suffixes.
  - intros H. exists x. split; [now apply in_suffixes | apply String.eqb_refl].
Qed.

Lemma ends_with_cib_iff : forall x s, ends_with_cib x s = true <-> ends_with_ci x s.
Proof.
  intros x s. unfold ends_with_cib, ends_with_ci. rewrite existsb_exists. split.
  - intros [suf [Hin He]]. apply in_suffixes in Hin. destruct Hin as [pre ->].
    exists pre, suf. split; [reflexivity | now apply same_cib_iff].
  - intros [pre [y [-> Hy]]]. exists y. split; [apply in_suffixes; now exists pre | now apply same_cib_iff].
Qed.

Lemma contains_cib_iff : forall x s, contains_cib x s = true <-> contains_ci x s.
Proof.
  intros x s. unfold contains_cib, contains_ci. rewrite existsb_exists. split.
  - intros [suf [Hin He]]. apply in_suffixes in Hin. destruct Hin as [pre ->].
    destruct (take_split (String.length x) suf) as [b Hb].
    exists pre, (take (String.length x) suf), b. split; [now rewrite <- Hb | now apply same_cib_iff].
  - intros [a [y [b [-> Hy]]]]. exists (y ++ b). split; [apply in_suffixes; now exists a|].
    apply same_cib_iff. rewrite <- (same_ci_length y x Hy), take_app_exact. exact Hy.
Qed.

Lemma name_class_spec_lemma : forall n,
  (name_class n = 1%N <-> sol_source n) /\
  (name_class n = 0%N <-> (~ is_suffix ".sol" n \/ ends_with_ci ".t.sol" n)) /\
  (name_class n = 2%N <-> (is_suffix ".sol" n /\ contains_ci ".t.sol" n /\ ~ ends_with_ci ".t.sol" n)).
Proof.
  intros n. unfold name_class, sol_source.
  pose proof (is_suffixb_iff ".sol" n) as S. pose proof (ends_with_cib_iff ".t.sol" n) as E.
  pose proof (contains_cib_iff ".t.sol" n) as C. pose proof (ends_ci_contains_ci ".t.sol" n) as EC.
  destruct (is_suffixb ".sol" n); cbn [negb].
  - destruct (ends_with_cib ".t.sol" n).
    + assert (He : ends_with_ci ".t.sol" n) by now apply E.
      repeat split; try discriminate; try tauto.
    + assert (Hne : ~ ends_with_ci ".t.sol" n) by (intros H; apply E in H; discriminate).
      assert (Hs : is_suffix ".sol" n) by now apply S.
      destruct (contains_cib ".t.sol" n).
      * assert (Hc : contains_ci ".t.sol" n) by now apply C.
        repeat split; try discriminate; try tauto.
      * assert (Hnc : ~ contains_ci ".t.sol" n) by (intros H; apply C in H; discriminate).
        repeat split; try discriminate; try tauto.
  - assert (Hns : ~ is_suffix ".sol" n) by (intros H; apply S in H; discriminate).
    repeat split; try discriminate; try tauto.
Qed.

(* ---------------------------------------------------------------- C03: the boolean forms used by check_dir *)
From Coq Require Import ZArith Permutation.
Local Open Scope list_scope.

Lemma list_eqb_iff : forall {A} (eqb : A -> A -> bool), (forall x y, eqb x y = true <-> x = y) ->
  forall a b, list_eqb eqb a b = true <-> a = b.
Proof.
  intros A eqb H. induction a as [|x a IH]; intros b; destruct b as [|y b]; cbn [list_eqb].
  - tauto.
  - split; discriminate.
  - split; discriminate.
  - rewrite andb_true_iff, H, IH. split; [intros [-> ->]; reflexivity | intros E; injection E as -> ->; auto].
Qed.

Lemma lines_eqb_iff : forall a b, lines_eqb a b = true <-> a = b.
Proof. apply list_eqb_iff. intros x y. apply Z.eqb_eq. Qed.

Lemma triple_eqb_iff : forall a b, triple_eqb a b = true <-> a = b.
Proof.
  intros [[p n] l] [[p' n'] l']. unfold triple_eqb. cbn [fst snd].
  rewrite !andb_true_iff, N.eqb_eq, String.eqb_eq, lines_eqb_iff.
  split; [intros [[-> ->] ->]; reflexivity | intros E; injection E as -> -> ->; auto].
Qed.

Section Permb.
  Variable A : Type.
  Variable eqb : A -> A -> bool.
  Hypothesis eqb_iff : forall x y, eqb x y = true <-> x = y.

  Lemma remove1_some : forall x l l', remove1 eqb x l = Some l' -> Permutation l (x :: l').
  Proof.
    intros x. induction l as [|y l IH]; intros l' H; cbn [remove1] in H; [discriminate|].
    destruct (eqb x y) eqn:E.
    - apply eqb_iff in E. subst y. injection H as <-. apply Permutation_refl.
    - destruct (remove1 eqb x l) as [r|] eqn:R; [|discriminate]. injection H as <-.
      eapply Permutation_trans; [apply perm_skip, IH; reflexivity | apply perm_swap].
  Qed.

  Lemma remove1_none : forall x l, remove1 eqb x l = None -> ~ In x l.
  Proof.
    intros x. induction l as [|y l IH]; intros H; cbn [remove1] in H; [intros []|].
    destruct (eqb x y) eqn:E; [discriminate|].
    destruct (remove1 eqb x l) eqn:R; [discriminate|].
    intros [->|Hin]; [|now apply IH].
    assert (T : eqb x x = true) by now apply eqb_iff. congruence.
  Qed.

  Lemma permb_iff : forall a b, permb eqb a b = true <-> Permutation a b.
  Proof.
    induction a as [|x a IH]; intros b; cbn [permb].
    - destruct b as [|y b]; split; try discriminate; auto.
      intros H. apply Permutation_nil in H. discriminate.
    - destruct (remove1 eqb x b) as [b'|] eqn:R.
      + pose proof (remove1_some _ _ _ R) as P. rewrite IH. split.
        * intros H. eapply Permutation_trans; [apply perm_skip, H | apply Permutation_sym, P].
        * intros H. apply Permutation_cons_inv with (a := x). eapply Permutation_trans; [exact H | exact P].
      + split; [discriminate|]. intros H. exfalso. apply (remove1_none _ _ R).
        eapply Permutation_in; [exact H | now left].
  Qed.
End Permb.

Lemma nodupb_iff : forall l, nodupb l = true <-> NoDup l.
Proof.
  induction l as [|x l IH]; cbn [nodupb].
  - split; [constructor | reflexivity].
  - rewrite andb_true_iff, negb_true_iff, IH. split.
    + intros [H1 H2]. constructor; [|exact H2]. intros Hin.
      assert (E : existsb (N.eqb x) l = true) by (apply existsb_exists; exists x; split; [exact Hin | apply N.eqb_refl]).
      congruence.
    + intros H. inversion H as [|? ? Hnin Hnd]; subst. split; [|exact Hnd].
      destruct (existsb (N.eqb x) l) eqn:E; [|reflexivity]. exfalso.
      apply existsb_exists in E. destruct E as [y [Hy Hxy]]. apply N.eqb_eq in Hxy. now subst y.
Qed.

Lemma all_okb_iff : forall (an : N -> string -> res (list Z)) ps t, all_okb an ps t = true <-> all_ok an ps t.
Proof.
  intros an ps t. unfold all_okb, all_ok. rewrite forallb_forall, Forall_forall.
  split; intros H f Hf; specialize (H f Hf).
  - unfold file_okb in H. destruct f as [n [c|]]; cbn [snd] in H; [|discriminate].
    exists c. split; [reflexivity|]. intros p Hp. rewrite forallb_forall in H. specialize (H p Hp).
    destruct (an p c) as [ls|s]; [now exists ls | discriminate].
  - destruct H as [c [Hc Hall]]. unfold file_okb. rewrite Hc. apply forallb_forall. intros p Hp.
    destruct (Hall p Hp) as [ls ->]. reflexivity.
Qed.

(* what the absence of codes 11/12/13 in check_dir's answer means *)
Lemma check_dir_spec_lemma : forall (an : N -> string -> res (list Z)) t ps (im : fmapN),
  (nodupb (map fst im) = true <-> NoDup (keys im)) /\
  (permb triple_eqb (flatten im) (expected_triples an ps t) = true <->
   Permutation (flatten im) (expected_triples an ps t)) /\
  (all_okb an ps t && nodupb ps = true <-> all_ok an ps t /\ NoDup ps).
Proof.
  intros an t ps im. split; [apply nodupb_iff|]. split; [apply permb_iff, triple_eqb_iff|].
  now rewrite andb_true_iff, all_okb_iff, nodupb_iff.
Qed.
