(* C02, offset-to-line part: the model of get_line_number computes line_spec. *)
From Coq Require Import List String Ascii NArith ZArith Bool Lia.
Import ListNotations.
From Solstat Require Import Res Utils LineSpec.
Local Open Scope string_scope.
Local Open Scope N_scope.

(* ------------------------------------------------------------------ bytes *)
Lemma is_lf_eqb c : is_lf c = Ascii.eqb c LF.
Proof. destruct c as [[] [] [] [] [] [] [] []]; reflexivity. Qed.

Lemma eqb_LF_true c : Ascii.eqb c LF = true <-> c = LF.
Proof. apply Ascii.eqb_eq. Qed.

Lemma high_byte_not_lf c : 128 <= N_of_ascii c -> Ascii.eqb c LF = false.
Proof.
  intros H. destruct (Ascii.eqb c LF) eqn:E; [|reflexivity].
  apply Ascii.eqb_eq in E. subst c. vm_compute in H. exfalso. apply H. reflexivity.
Qed.

(* ------------------------------------------------------------------ take / drop / count_lf *)
Lemma take_0 s : take 0 s = "".
Proof. destruct s; reflexivity. Qed.

Lemma take_cons n c r : n <> 0 -> take n (String c r) = String c (take (n - 1) r).
Proof. intros H. cbn [take]. apply N.eqb_neq in H. rewrite H. reflexivity. Qed.

Lemma drop_cons n c r : n <> 0 -> drop n (String c r) = drop (n - 1) r.
Proof. intros H. cbn [drop]. apply N.eqb_neq in H. rewrite H. reflexivity. Qed.

Lemma byte_at_cons n c r : n <> 0 -> byte_at n (String c r) = byte_at (n - 1) r.
Proof. intros H. cbn [byte_at]. apply N.eqb_neq in H. rewrite H. reflexivity. Qed.

Lemma count_lf_cons c r : count_lf (String c r) = (if Ascii.eqb c LF then 1 else 0) + count_lf r.
Proof. reflexivity. Qed.

Lemma count_lf_app a b : count_lf (a ++ b) = count_lf a + count_lf b.
Proof.
  induction a as [|c a IH]; [reflexivity|].
  cbn [append]. rewrite !count_lf_cons, IH. lia.
Qed.

Lemma blen_app a b : blen (a ++ b) = blen a + blen b.
Proof.
  induction a as [|c a IH]; [reflexivity|].
  cbn [append blen]. rewrite IH. lia.
Qed.

Lemma take_drop n s : take n s ++ drop n s = s.
Proof.
  revert n. induction s as [|c r IH]; intros n; [reflexivity|].
  cbn [take drop]. destruct (n =? 0); [reflexivity|].
  cbn [append]. rewrite IH. reflexivity.
Qed.

Lemma take_app a b j : take (blen a + j) (a ++ b) = a ++ take j b.
Proof.
  induction a as [|c a IH].
  - cbn [blen append]. rewrite N.add_0_l. reflexivity.
  - cbn [blen append]. rewrite take_cons by lia.
    replace (1 + blen a + j - 1) with (blen a + j) by lia. rewrite IH. reflexivity.
Qed.

Lemma byte_at_app a b j : byte_at (blen a + j) (a ++ b) = byte_at j b.
Proof.
  induction a as [|c a IH].
  - cbn [blen append]. rewrite N.add_0_l. reflexivity.
  - cbn [blen append]. rewrite byte_at_cons by lia.
    replace (1 + blen a + j - 1) with (blen a + j) by lia. exact IH.
Qed.

Lemma take_all n s : blen s <= n -> take n s = s.
Proof.
  revert n. induction s as [|c r IH]; intros n H; [reflexivity|].
  cbn [blen] in H. rewrite take_cons by lia. rewrite IH by lia. reflexivity.
Qed.

Lemma byte_at_none n s : blen s <= n -> byte_at n s = None.
Proof.
  revert n. induction s as [|c r IH]; intros n H; [reflexivity|].
  cbn [blen] in H. rewrite byte_at_cons by lia. apply IH. lia.
Qed.

Lemma byte_at_some n s : n < blen s -> exists c, byte_at n s = Some c.
Proof.
  revert n. induction s as [|c r IH]; intros n H; cbn [blen] in H; [lia|].
  destruct (N.eq_dec n 0) as [->|Hn]; [exists c; reflexivity|].
  rewrite byte_at_cons by exact Hn. apply IH. lia.
Qed.

Definition lf_bit (o : option ascii) : N :=
  match o with Some c => if Ascii.eqb c LF then 1 else 0 | None => 0 end.

Lemma count_lf_take_succ n s : count_lf (take (n + 1) s) = count_lf (take n s) + lf_bit (byte_at n s).
Proof.
  revert n. induction s as [|c r IH]; intros n; [reflexivity|].
  rewrite take_cons by lia.
  destruct (N.eq_dec n 0) as [->|Hn].
  - rewrite take_0. cbn [byte_at N.eqb lf_bit]. replace (0 + 1 - 1) with 0 by lia.
    rewrite take_0. rewrite count_lf_cons. cbn [count_lf]. lia.
  - rewrite take_cons by exact Hn. rewrite byte_at_cons by exact Hn.
    rewrite !count_lf_cons. replace (n + 1 - 1) with (n - 1 + 1) by lia. rewrite IH. lia.
Qed.

Lemma count_lf_take_mono s : forall n m, n <= m -> count_lf (take n s) <= count_lf (take m s).
Proof.
  induction s as [|c r IH]; intros n m H; [cbn; lia|].
  destruct (N.eq_dec n 0) as [->|Hn]; [rewrite take_0; cbn [count_lf]; lia|].
  rewrite !take_cons by lia. rewrite !count_lf_cons.
  assert (Hr := IH (n - 1) (m - 1)). lia.
Qed.

Lemma count_lf_take_le n s : count_lf (take n s) <= count_lf s.
Proof.
  rewrite <- (take_drop n s) at 2. rewrite count_lf_app. lia.
Qed.

Lemma count_lf_split n s : count_lf s = count_lf (take n s) + count_lf (drop n s).
Proof. rewrite <- (take_drop n s) at 1. apply count_lf_app. Qed.

Lemma drop_head n s c : byte_at n s = Some c -> exists r, drop n s = String c r.
Proof.
  revert n. induction s as [|d r IH]; intros n H; [discriminate|].
  destruct (N.eq_dec n 0) as [->|Hn].
  - cbn in H. injection H as ->. exists r. reflexivity.
  - rewrite byte_at_cons in H by exact Hn. rewrite drop_cons by exact Hn. apply IH. exact H.
Qed.

(* ------------------------------------------------------------------ the loop *)
Definition line_panic : res Z := Panic "get_line_number: i = i + 1 overflows i32".

Lemma line_loop_past off : forall s pos i, off < pos ->
  line_loop off (lf_positions_from pos s) i = Ok i.
Proof.
  induction s as [|c r IH]; intros pos i H; [reflexivity|].
  cbn [lf_positions_from]. destruct (is_lf c).
  - cbn [line_loop]. apply N.ltb_lt in H. rewrite H. reflexivity.
  - apply IH. lia.
Qed.

(* exact behaviour of the loop started at absolute position pos with counter i *)
Lemma line_loop_exact off : forall s pos i, pos <= off + 1 -> (i <= i32_max)%Z ->
  line_loop off (lf_positions_from pos s) i =
  let r := (i + Z.of_N (count_lf (take (off + 1 - pos) s)))%Z in
  if (r <=? i32_max)%Z then Ok r else line_panic.
Proof.
  induction s as [|c r IH]; intros pos i Hpos Hi; cbv zeta.
  - cbn [lf_positions_from line_loop take count_lf]. rewrite Z.add_0_r.
    apply Z.leb_le in Hi. rewrite Hi. reflexivity.
  - destruct (N.eq_dec (off + 1 - pos) 0) as [E|E].
    + rewrite E, take_0. cbn [count_lf]. rewrite Z.add_0_r.
      rewrite line_loop_past by lia. apply Z.leb_le in Hi. rewrite Hi. reflexivity.
    + rewrite take_cons by exact E. rewrite count_lf_cons.
      cbn [lf_positions_from]. rewrite is_lf_eqb.
      replace (off + 1 - pos - 1) with (off + 1 - (pos + 1)) by lia.
      destruct (Ascii.eqb c LF).
      * cbn [line_loop]. assert (Hlt : (off <? pos) = false) by (apply N.ltb_ge; lia).
        rewrite Hlt. destruct (i <? i32_max)%Z eqn:Ei.
        -- apply Z.ltb_lt in Ei. rewrite IH by lia. cbv zeta.
           replace (i + 1 + Z.of_N (count_lf (take (off + 1 - (pos + 1)) r)))%Z
             with (i + Z.of_N (1 + count_lf (take (off + 1 - (pos + 1)) r)))%Z by lia.
           reflexivity.
        -- apply Z.ltb_ge in Ei.
           assert (Hgt : (i + Z.of_N (1 + count_lf (take (off + 1 - (pos + 1)) r)) <=? i32_max)%Z = false)
             by (apply Z.leb_gt; lia).
           rewrite Hgt. reflexivity.
      * rewrite IH by lia. cbv zeta. rewrite N.add_0_l. reflexivity.
Qed.

Lemma get_line_number_exact off src :
  get_line_number off src =
  let r := (1 + Z.of_N (count_lf (take (off + 1) src)))%Z in
  if (r <=? i32_max)%Z then Ok r else line_panic.
Proof.
  unfold get_line_number, lf_positions. rewrite line_loop_exact.
  - rewrite N.sub_0_r. reflexivity.
  - lia.
  - unfold i32_max. lia.
Qed.

(* in terms of the specification: the byte AT the offset is counted as well *)
Lemma get_line_number_spec off src : lines_lt_i32 src ->
  get_line_number off src = Ok (line_spec src off + Z.of_N (lf_bit (byte_at off src)))%Z.
Proof.
  unfold lines_lt_i32. intros H. rewrite get_line_number_exact. cbv zeta.
  assert (Hle := count_lf_take_le (off + 1) src).
  assert (Hb : (1 + Z.of_N (count_lf (take (off + 1) src)) <=? i32_max)%Z = true)
    by (apply Z.leb_le; unfold i32_max; lia).
  rewrite Hb. unfold line_spec. rewrite count_lf_take_succ. f_equal. lia.
Qed.

(* ------------------------------------------------------------------ the theorems of C02 *)
Theorem line_of_spec_lemma : forall src off,
  off < blen src -> byte_at off src <> Some LF -> lines_lt_i32 src ->
  get_line_number off src = Ok (line_spec src off).
Proof.
  intros src off _ Hb Hl. rewrite get_line_number_spec by exact Hl.
  destruct (byte_at off src) as [c|] eqn:E; cbn [lf_bit].
  - destruct (Ascii.eqb c LF) eqn:Ec.
    + apply Ascii.eqb_eq in Ec. subst c. exfalso. apply Hb. reflexivity.
    + rewrite Z.add_0_r. reflexivity.
  - rewrite Z.add_0_r. reflexivity.
Qed.

(* an offset that IS a line feed is attributed to the line that FOLLOWS it (the Rust test
   is `start > char_number`, which is false for start = char_number) *)
Theorem line_at_lf_lemma : forall src off,
  byte_at off src = Some LF -> lines_lt_i32 src ->
  get_line_number off src = Ok (line_spec src off + 1)%Z.
Proof.
  intros src off Hb Hl. rewrite get_line_number_spec by exact Hl. rewrite Hb. reflexivity.
Qed.

(* offsets at or past the end of the text: the number of the last line *)
Theorem line_past_end_lemma : forall src off,
  blen src <= off -> lines_lt_i32 src ->
  get_line_number off src = Ok (1 + Z.of_N (count_lf src))%Z.
Proof.
  intros src off H Hl. rewrite get_line_number_spec by exact Hl.
  rewrite byte_at_none by exact H. unfold line_spec. rewrite take_all by exact H.
  cbn [lf_bit]. f_equal. lia.
Qed.

(* without the i32 hypothesis the answer is never wrong: it is the specified line or a panic *)
Theorem line_never_wrong_lemma : forall src off l,
  byte_at off src <> Some LF -> get_line_number off src = Ok l -> l = line_spec src off.
Proof.
  intros src off l Hb. rewrite get_line_number_exact. cbv zeta.
  destruct (1 + Z.of_N (count_lf (take (off + 1) src)) <=? i32_max)%Z; [|discriminate].
  intros H. assert (Hl : l = (1 + Z.of_N (count_lf (take (off + 1) src)))%Z) by congruence.
  subst l. clear H. unfold line_spec. rewrite count_lf_take_succ.
  destruct (byte_at off src) as [c|]; cbn [lf_bit]; [|lia].
  destruct (Ascii.eqb c LF) eqn:Ec; [|lia].
  apply Ascii.eqb_eq in Ec. subst c. exfalso. apply Hb. reflexivity.
Qed.

Theorem line_panics_iff_lemma : forall src off,
  get_line_number off src = line_panic <-> (2 ^ 31 <= 1 + Z.of_N (count_lf (take (off + 1) src)))%Z.
Proof.
  intros src off. rewrite get_line_number_exact. cbv zeta.
  change (2 ^ 31)%Z with 2147483648%Z.
  destruct (1 + Z.of_N (count_lf (take (off + 1) src)) <=? i32_max)%Z eqn:E.
  - apply Z.leb_le in E. unfold i32_max in E. split; [discriminate | lia].
  - apply Z.leb_gt in E. unfold i32_max in E. split; [lia | reflexivity].
Qed.

Lemma line_spec_app a b j : line_spec (a ++ b) (blen a + j) = (Z.of_N (count_lf a) + line_spec b j)%Z.
Proof. unfold line_spec. rewrite take_app, count_lf_app. lia. Qed.

Definition lf_s : string := String LF "".
Definition crlf_s : string := String CR (String LF "").

(* CRLF line ends: the pair advances the line number by exactly one *)
Theorem line_of_crlf_lemma : forall a b j,
  j < blen b -> byte_at j b <> Some LF -> lines_lt_i32 (a ++ crlf_s ++ b) ->
  get_line_number (blen a + 2 + j) (a ++ crlf_s ++ b) = Ok (Z.of_N (count_lf a) + 1 + line_spec b j)%Z.
Proof.
  intros a b j Hj Hb Hl.
  replace (blen a + 2 + j) with (blen a + (blen crlf_s + j)) by (cbn [blen crlf_s]; lia).
  rewrite line_of_spec_lemma.
  - rewrite line_spec_app, line_spec_app. f_equal. change (count_lf crlf_s) with 1. lia.
  - rewrite !blen_app. lia.
  - rewrite !byte_at_app. exact Hb.
  - exact Hl.
Qed.

(* a lone CR is an ordinary byte *)
Theorem line_cr_is_no_line_end_lemma : forall a b j,
  j < blen b -> byte_at j b <> Some LF -> lines_lt_i32 (a ++ String CR b) ->
  get_line_number (blen a + 1 + j) (a ++ String CR b) = Ok (Z.of_N (count_lf a) + line_spec b j)%Z.
Proof.
  intros a b j Hj Hb Hl.
  change (String CR b) with (String CR "" ++ b) in *.
  replace (blen a + 1 + j) with (blen a + (blen (String CR "") + j)) by (cbn [blen]; lia).
  rewrite line_of_spec_lemma.
  - rewrite line_spec_app, line_spec_app. f_equal.
  - rewrite !blen_app. lia.
  - rewrite !byte_at_app. exact Hb.
  - exact Hl.
Qed.

(* offset on the last line when that line is not terminated (the case that failed on the
   pinned tree, D2): the answer is the number of lines of the file *)
Theorem line_of_last_line_unterminated_lemma : forall src off,
  off < blen src -> count_lf (drop off src) = 0 -> lines_lt_i32 src ->
  get_line_number off src = Ok (1 + Z.of_N (count_lf src))%Z.
Proof.
  intros src off Ho Hd Hl.
  destruct (byte_at_some off src Ho) as [c Hc].
  rewrite line_of_spec_lemma; [| exact Ho | | exact Hl].
  - unfold line_spec. rewrite (count_lf_split off src), Hd. f_equal. lia.
  - rewrite Hc. intros E. injection E as ->.
    destruct (drop_head off src LF Hc) as [r Hr]. rewrite Hr in Hd.
    rewrite count_lf_cons in Hd. rewrite Ascii.eqb_refl in Hd. lia.
Qed.

(* multi-byte characters: offsets are byte offsets; bytes >= 0x80 (all bytes of a multi-byte
   UTF-8 character) are never line feeds, and inserting line-feed-free bytes before the
   offset leaves the line number unchanged *)
Fixpoint all_high (s : string) : bool :=
  match s with EmptyString => true | String c r => (128 <=? N_of_ascii c) && all_high r end.

Lemma all_high_no_lf m : all_high m = true -> count_lf m = 0.
Proof.
  induction m as [|c r IH]; intros H; [reflexivity|].
  cbn [all_high] in H. apply andb_true_iff in H. destruct H as [Hc Hr].
  rewrite count_lf_cons, IH by exact Hr. apply N.leb_le in Hc.
  rewrite high_byte_not_lf by exact Hc. reflexivity.
Qed.

Theorem line_of_multibyte_lemma : forall p m b j,
  all_high m = true -> j < blen b -> byte_at j b <> Some LF -> lines_lt_i32 (p ++ m ++ b) ->
  get_line_number (blen p + blen m + j) (p ++ m ++ b) = Ok (line_spec (p ++ b) (blen p + j)).
Proof.
  intros p m b j Hm Hj Hb Hl.
  replace (blen p + blen m + j) with (blen p + (blen m + j)) by lia.
  rewrite line_of_spec_lemma.
  - rewrite !line_spec_app. rewrite (all_high_no_lf m Hm). f_equal.
  - rewrite !blen_app. lia.
  - rewrite !byte_at_app. exact Hb.
  - exact Hl.
Qed.

Theorem line_monotone_lemma : forall src off1 off2 l1 l2,
  off1 <= off2 -> get_line_number off1 src = Ok l1 -> get_line_number off2 src = Ok l2 ->
  (l1 <= l2)%Z.
Proof.
  intros src off1 off2 l1 l2 H. rewrite !get_line_number_exact. cbv zeta.
  destruct (1 + Z.of_N (count_lf (take (off1 + 1) src)) <=? i32_max)%Z; [|discriminate].
  destruct (1 + Z.of_N (count_lf (take (off2 + 1) src)) <=? i32_max)%Z; [|discriminate].
  intros E1 E2.
  assert (H1 : l1 = (1 + Z.of_N (count_lf (take (off1 + 1) src)))%Z) by congruence.
  assert (H2 : l2 = (1 + Z.of_N (count_lf (take (off2 + 1) src)))%Z) by congruence.
  subst l1 l2.
  assert (Hm := count_lf_take_mono src (off1 + 1) (off2 + 1)). lia.
Qed.

(* two offsets are on the same line iff no line feed lies in [off1, off2) *)
Theorem line_same_iff_lemma : forall src off1 off2,
  off1 <= off2 -> (line_spec src off1 = line_spec src off2 <->
                   count_lf (take off1 src) = count_lf (take off2 src)).
Proof. intros src off1 off2 _. unfold line_spec. lia. Qed.
