(* Renaming locations (the generated mapl functions of gen/Pt.v) commutes with the complete pre-order. *)
From Coq Require Import List String Ascii NArith ZArith Bool.
Import ListNotations.
From Solstat Require Import Lift Pt Walk WalkProof.

Section MapLoc.
  Variable r : Loc -> Loc.

  Definition mapl_node (n : node) : node :=
    match n with
    | N_Statement s => N_Statement (mapl_Statement r s)
    | N_Expression e => N_Expression (mapl_Expression r e)
    | N_SourceUnit su => N_SourceUnit (mapl_SourceUnit r su)
    | N_SourceUnitPart p => N_SourceUnitPart (mapl_SourceUnitPart r p)
    | N_ContractPart p => N_ContractPart (mapl_ContractPart r p)
    end.

  Lemma flat_map_map_Forall {A B C} (f : A -> list C) (f' : B -> list C) (g : B -> A) (h : C -> C) (l : list B) :
    Forall (fun x => f (g x) = map h (f' x)) l -> flat_map f (map g l) = map h (flat_map f' l).
  Proof.
    induction 1 as [|x l Hx Hl IH]; [reflexivity|]. cbn [map flat_map]. rewrite map_app, Hx, IH. reflexivity.
  Qed.

  Ltac unf_m :=
    cbn [mapl_Expression mapl_Ty mapl_Param mapl_NamedArgument mapl_FunctionAttribute mapl_Base
         mapl_VariableDeclaration mapl_Statement mapl_CatchClause
         pre_Expression pre_Ty pre_Param pre_NamedArgument pre_FunctionAttribute pre_Base
         pre_VariableDeclaration pre_Statement pre_CatchClause].

  Ltac m_leaf :=
    lazymatch goal with
    | |- _ :: _ = map _ (_ :: _) => cbn [map]; f_equal; m_leaf
    | |- _ ++ _ = map _ (_ ++ _) => rewrite map_app; apply app_eq2; m_leaf
    | |- [] = map _ [] => reflexivity
    | |- flat_map _ (map _ ?l) = map _ (flat_map _ ?l) =>
        match goal with
        | H : Forall _ l |- _ =>
            apply flat_map_map_Forall; eapply Forall_impl; [| exact H];
            let x := fresh "x" in let Hx := fresh "Hx" in
            intros x Hx; cbv beta in Hx |- *; prep; m_leaf
        end
    | |- _ => match goal with H : ?g |- ?g => exact H | |- ?a = ?a => reflexivity end
    end.

  Ltac m_arm := intros; unf_m; prep; m_leaf.

  Theorem pre_mapl_mut :
    (forall x, pre_Ty (mapl_Ty r x) = map mapl_node (pre_Ty x)) /\
    (forall x, pre_VariableDeclaration (mapl_VariableDeclaration r x) = map mapl_node (pre_VariableDeclaration x)) /\
    (forall x, pre_Base (mapl_Base r x) = map mapl_node (pre_Base x)) /\
    (forall x, pre_NamedArgument (mapl_NamedArgument r x) = map mapl_node (pre_NamedArgument x)) /\
    (forall x, pre_Expression (mapl_Expression r x) = map mapl_node (pre_Expression x)) /\
    (forall x, pre_Param (mapl_Param r x) = map mapl_node (pre_Param x)) /\
    (forall x, pre_FunctionAttribute (mapl_FunctionAttribute r x) = map mapl_node (pre_FunctionAttribute x)) /\
    (forall x, pre_Statement (mapl_Statement r x) = map mapl_node (pre_Statement x)) /\
    (forall x, pre_CatchClause (mapl_CatchClause r x) = map mapl_node (pre_CatchClause x)).
  Proof. apply Pt_mutind; m_arm. Qed.

  Definition pre_mapl_Ty := proj1 pre_mapl_mut.
  Definition pre_mapl_VariableDeclaration := proj1 (proj2 pre_mapl_mut).
  Definition pre_mapl_Base := proj1 (proj2 (proj2 pre_mapl_mut)).
  Definition pre_mapl_NamedArgument := proj1 (proj2 (proj2 (proj2 pre_mapl_mut))).
  Definition pre_mapl_Expression := proj1 (proj2 (proj2 (proj2 (proj2 pre_mapl_mut)))).
  Definition pre_mapl_Param := proj1 (proj2 (proj2 (proj2 (proj2 (proj2 pre_mapl_mut))))).
  Definition pre_mapl_FunctionAttribute := proj1 (proj2 (proj2 (proj2 (proj2 (proj2 (proj2 pre_mapl_mut)))))).
  Definition pre_mapl_Statement := proj1 (proj2 (proj2 (proj2 (proj2 (proj2 (proj2 (proj2 pre_mapl_mut))))))).
  Definition pre_mapl_CatchClause := proj2 (proj2 (proj2 (proj2 (proj2 (proj2 (proj2 (proj2 pre_mapl_mut))))))).

  Lemma flat_map_map_all {A B} (f : A -> list node) (f' : B -> list node) (g : B -> A) (l : list B) :
    (forall x, f (g x) = map mapl_node (f' x)) -> flat_map f (map g l) = map mapl_node (flat_map f' l).
  Proof. intros H. apply flat_map_map_Forall. apply Forall_forall. intros x _. apply H. Qed.

  Lemma pre_mapl_params ps :
    flat_map (fun p : Loc * option Param => match p with (_, op) => match op with Some q => pre_Param q | None => [] end end)
             (map (fun p : Loc * option Param => match p with (l, op) => (r l, match op with Some q => Some (mapl_Param r q) | None => None end) end) ps)
    = map mapl_node (flat_map (fun p : Loc * option Param => match p with (_, op) => match op with Some q => pre_Param q | None => [] end end) ps).
  Proof. apply flat_map_map_all. intros [l [q|]]; [apply pre_mapl_Param|reflexivity]. Qed.

  Lemma pre_mapl_FunctionDefinition f :
    pre_FunctionDefinition (mapl_FunctionDefinition r f) = map mapl_node (pre_FunctionDefinition f).
  Proof.
    destruct f as [l ty nm nl params attrs rnr rets body]. unfold mapl_FunctionDefinition, pre_FunctionDefinition.
    rewrite !map_app. repeat apply app_eq2.
    - apply pre_mapl_params.
    - apply flat_map_map_all. apply pre_mapl_FunctionAttribute.
    - apply pre_mapl_params.
    - destruct body; [apply pre_mapl_Statement|reflexivity].
  Qed.

  Lemma pre_mapl_VariableDefinition v :
    pre_VariableDefinition (mapl_VariableDefinition r v) = map mapl_node (pre_VariableDefinition v).
  Proof.
    destruct v as [l ty attrs nm oi]. unfold mapl_VariableDefinition, pre_VariableDefinition.
    rewrite map_app. apply app_eq2; [apply pre_mapl_Expression|]. destruct oi; [apply pre_mapl_Expression|reflexivity].
  Qed.

  Lemma pre_mapl_StructDefinition d :
    pre_StructDefinition (mapl_StructDefinition r d) = map mapl_node (pre_StructDefinition d).
  Proof. destruct d. unfold mapl_StructDefinition, pre_StructDefinition. apply flat_map_map_all. apply pre_mapl_VariableDeclaration. Qed.

  Lemma pre_mapl_EventDefinition d :
    pre_EventDefinition (mapl_EventDefinition r d) = map mapl_node (pre_EventDefinition d).
  Proof.
    destruct d. unfold mapl_EventDefinition, pre_EventDefinition. apply flat_map_map_all.
    intros [ty l i n]. unfold mapl_EventParameter, pre_EventParameter. apply pre_mapl_Expression.
  Qed.

  Lemma pre_mapl_ErrorDefinition d :
    pre_ErrorDefinition (mapl_ErrorDefinition r d) = map mapl_node (pre_ErrorDefinition d).
  Proof.
    destruct d. unfold mapl_ErrorDefinition, pre_ErrorDefinition. apply flat_map_map_all.
    intros [ty l n]. unfold mapl_ErrorParameter, pre_ErrorParameter. apply pre_mapl_Expression.
  Qed.

  Lemma pre_mapl_TypeDefinition d :
    pre_TypeDefinition (mapl_TypeDefinition r d) = map mapl_node (pre_TypeDefinition d).
  Proof. destruct d. apply pre_mapl_Expression. Qed.

  Lemma pre_mapl_Using d : pre_Using (mapl_Using r d) = map mapl_node (pre_Using d).
  Proof. destruct d as [l li oty g]. unfold mapl_Using, pre_Using. destruct oty; [apply pre_mapl_Expression|reflexivity]. Qed.

  Lemma pre_mapl_ContractPart p : pre_ContractPart (mapl_ContractPart r p) = map mapl_node (pre_ContractPart p).
  Proof.
    destruct p; unfold mapl_ContractPart, pre_ContractPart; cbn [map mapl_node mapl_ContractPart]; f_equal; first
      [ apply pre_mapl_StructDefinition | apply pre_mapl_EventDefinition | apply pre_mapl_ErrorDefinition
      | apply pre_mapl_VariableDefinition | apply pre_mapl_FunctionDefinition | apply pre_mapl_TypeDefinition
      | apply pre_mapl_Using | reflexivity ].
  Qed.

  Lemma pre_mapl_ContractDefinition c :
    pre_ContractDefinition (mapl_ContractDefinition r c) = map mapl_node (pre_ContractDefinition c).
  Proof.
    destruct c as [l ty nm bases parts]. unfold mapl_ContractDefinition, pre_ContractDefinition.
    rewrite map_app. apply app_eq2; apply flat_map_map_all; [apply pre_mapl_Base|apply pre_mapl_ContractPart].
  Qed.

  Lemma pre_mapl_SourceUnitPart p :
    pre_SourceUnitPart (mapl_SourceUnitPart r p) = map mapl_node (pre_SourceUnitPart p).
  Proof.
    destruct p; unfold mapl_SourceUnitPart, pre_SourceUnitPart; cbn [map mapl_node mapl_SourceUnitPart]; f_equal; first
      [ apply pre_mapl_ContractDefinition
      | apply pre_mapl_StructDefinition | apply pre_mapl_EventDefinition | apply pre_mapl_ErrorDefinition
      | apply pre_mapl_VariableDefinition | apply pre_mapl_FunctionDefinition | apply pre_mapl_TypeDefinition
      | apply pre_mapl_Using | reflexivity ].
  Qed.

  Lemma pre_mapl_SourceUnit su : pre_SourceUnit (mapl_SourceUnit r su) = map mapl_node (pre_SourceUnit su).
  Proof.
    destruct su as [parts]. unfold mapl_SourceUnit, pre_SourceUnit. cbn [map mapl_node mapl_SourceUnit]. f_equal.
    apply flat_map_map_all. apply pre_mapl_SourceUnitPart.
  Qed.

  (* the complete pre-order of the renamed tree is the renamed pre-order *)
  Theorem pre_mapl : forall n, pre (mapl_node n) = map mapl_node (pre n).
  Proof.
    destruct n; unfold pre, mapl_node;
      [ apply pre_mapl_Statement | apply pre_mapl_Expression | apply pre_mapl_SourceUnit
      | apply pre_mapl_SourceUnitPart | apply pre_mapl_ContractPart ].
  Qed.

  (* kinds do not depend on locations *)
  Lemma kind_of_mapl n : kind_of (mapl_node n) = kind_of n.
  Proof. destruct n as [s|e|su|p|p]; [destruct s|destruct e|idtac|destruct p|destruct p]; reflexivity. Qed.

  (* the walker is equivariant *)
  Theorem walk_mapl T n : walk T (mapl_node n) = map mapl_node (walk T n).
  Proof.
    rewrite !walk_exact_lemma, pre_mapl. induction (pre n) as [|m ms IH]; [reflexivity|].
    cbn [map filter]. rewrite IH. unfold sel. rewrite kind_of_mapl. destruct (T (kind_of m)); reflexivity.
  Qed.
End MapLoc.

