(* C19 (part 1): findings compose over the top-level items - the detectors whose documented
   pattern is local to one declaration and that use no file-wide name table.
   Generic part: characterisation of `isolate` / `item_indices` (spec/Compose.v) and a lemma that
   turns a "part-local" closed form of a detector into `composes d`.  Then one theorem per detector. *)
From Coq Require Import List String Ascii NArith ZArith Bool Lia Arith.
Import ListNotations.
From Solstat Require Import Lift Pt Walk Res Nodes Utils Detectors Opt_pack WalkProof Patterns Patterns2
  DetBase DetC05 DetC05b StructLemmas DetC07 DetC06 DetC08 DetC09 PackProof Compose.
Local Open Scope list_scope.

(* ================================================================== isolate / item_indices *)
Definition iso_parts (parts : list SourceUnitPart) (k : nat) : list SourceUnitPart :=
  map snd (filter (fun ip => sp_is_pragma (snd ip) || Nat.eqb (fst ip) k) (indexed parts)).

Lemma isolate_eq parts k : isolate parts k = Mk_SourceUnit (iso_parts parts k).
Proof. reflexivity. Qed.

Lemma in_combine_seq {A} (l : list A) : forall s i x,
  In (i, x) (combine (seq s (List.length l)) l) <-> s <= i /\ nth_error l (i - s) = Some x.
Proof.
  induction l as [|a l IH]; intros s i x.
  - cbn [List.length seq combine In]. split; [contradiction|]. intros [_ H]. destruct (i - s); discriminate H.
  - cbn [List.length seq combine In]. rewrite IH. split.
    + intros [H|[Hle Hn]].
      * injection H as <- <-. split; [lia|]. rewrite Nat.sub_diag. reflexivity.
      * split; [lia|]. replace (i - s) with (S (i - S s)) by lia. exact Hn.
    + intros [Hle Hn]. destruct (Nat.eq_dec i s) as [->|Hne].
      * left. rewrite Nat.sub_diag in Hn. cbn [nth_error] in Hn. injection Hn as ->. reflexivity.
      * right. split; [lia|]. replace (i - s) with (S (i - S s)) in Hn by lia. exact Hn.
Qed.

Lemma in_indexed {A} (l : list A) i x : In (i, x) (indexed l) <-> nth_error l i = Some x.
Proof.
  unfold indexed. rewrite in_combine_seq. rewrite Nat.sub_0_r. split; [intros [_ H]; exact H|]. intros H. split; [lia|exact H].
Qed.

Lemma map_snd_combine_seq {A} (l : list A) : forall s, map snd (combine (seq s (List.length l)) l) = l.
Proof. induction l as [|a l IH]; intros s; [reflexivity|]. cbn [List.length seq combine map snd]. rewrite IH. reflexivity. Qed.

Lemma map_snd_indexed {A} (l : list A) : map snd (indexed l) = l.
Proof. apply map_snd_combine_seq. Qed.

(* the parts of the isolated file: the pragma directives of the file and the part at position k *)
Lemma in_iso_parts parts k p :
  In p (iso_parts parts k) <-> (In p parts /\ sp_is_pragma p = true) \/ nth_error parts k = Some p.
Proof.
  unfold iso_parts. rewrite in_map_iff. split.
  - intros ([i q] & E & H). cbn [snd] in E. subst q. apply filter_In in H. destruct H as [Hin Hb].
    apply in_indexed in Hin. cbn [fst snd] in Hb. apply orb_prop in Hb. destruct Hb as [Hb|Hb].
    + left. split; [eapply nth_error_In; exact Hin | exact Hb].
    + right. apply Nat.eqb_eq in Hb. subst i. exact Hin.
  - intros [[Hin Hb]|Hn].
    + apply In_nth_error in Hin. destruct Hin as [i Hi]. exists (i, p). split; [reflexivity|].
      apply filter_In. split; [apply in_indexed; exact Hi|]. cbn [fst snd]. rewrite Hb. reflexivity.
    + exists (k, p). split; [reflexivity|]. apply filter_In. split; [apply in_indexed; exact Hn|].
      cbn [fst snd]. rewrite Nat.eqb_refl. apply orb_true_r.
Qed.

Lemma in_iso_parts_in parts k p : In p (iso_parts parts k) -> In p parts.
Proof. intros H. apply in_iso_parts in H. destruct H as [[H _]|H]; [exact H | eapply nth_error_In; exact H]. Qed.

Lemma in_item_indices parts k :
  In k (item_indices parts) <-> exists p, nth_error parts k = Some p /\ sp_is_pragma p = false.
Proof.
  unfold item_indices. rewrite in_map_iff. split.
  - intros ([i q] & E & H). cbn [fst] in E. subst i. apply filter_In in H. destruct H as [Hin Hb].
    apply in_indexed in Hin. cbn [snd] in Hb. exists q. split; [exact Hin|]. destruct (sp_is_pragma q); [discriminate Hb|reflexivity].
  - intros (p & Hn & Hb). exists (k, p). split; [reflexivity|]. apply filter_In. split; [apply in_indexed; exact Hn|].
    cbn [snd]. rewrite Hb. reflexivity.
Qed.

(* the pragma directives of the isolated file are those of the file, in the same order *)
Lemma filter_map_snd {A B} (p : B -> bool) (l : list (A * B)) :
  filter p (map snd l) = map snd (filter (fun x => p (snd x)) l).
Proof. induction l as [|x l IH]; [reflexivity|]. cbn [map filter]. destruct (p (snd x)); cbn [map]; rewrite IH; reflexivity. Qed.

Lemma filter_filter {A} (p q : A -> bool) l : filter p (filter q l) = filter (fun x => q x && p x) l.
Proof.
  induction l as [|x l IH]; [reflexivity|]. cbn [filter]. destruct (q x); cbn [filter andb]; [|exact IH].
  destruct (p x); rewrite IH; reflexivity.
Qed.

Lemma iso_parts_pragmas parts k : filter sp_is_pragma (iso_parts parts k) = filter sp_is_pragma parts.
Proof.
  unfold iso_parts. rewrite filter_map_snd, filter_filter.
  rewrite (filter_ext _ (fun x => sp_is_pragma (snd x))).
  - rewrite <- filter_map_snd, map_snd_indexed. reflexivity.
  - intros [i q]. cbn [fst snd]. destruct (sp_is_pragma q); [reflexivity | apply andb_false_r].
Qed.

Lemma iso_model_version parts k : model_version (isolate parts k) = model_version (Mk_SourceUnit parts).
Proof.
  rewrite isolate_eq. unfold model_version.
  rewrite <- (first_solidity_pragma_filter (iso_parts parts k)), <- (first_solidity_pragma_filter parts).
  change is_pragma_part with sp_is_pragma. rewrite iso_parts_pragmas. reflexivity.
Qed.

(* ================================================================== mapM *)
Lemma mapM_ok_each {A B} (f : A -> res B) : forall l ys, mapM f l = Ok ys -> forall n, In n l -> exists y, f n = Ok y.
Proof.
  induction l as [|a l IH]; intros ys H n Hn; [contradiction|].
  cbn [mapM] in H. destruct (f a) as [y|s] eqn:Ea; cbn [bind] in H; [|discriminate].
  destruct (mapM f l) as [ys'|s] eqn:El; cbn [bind] in H; [|discriminate].
  destruct Hn as [<-|Hn]; [exists y; exact Ea|]. eapply IH; [reflexivity|exact Hn].
Qed.

(* ================================================================== the generic composition lemma *)
(* A detector is PART-LOCAL when, whenever it does not panic, a location is reported iff it is
   reported "by" one part of the file, the verdict on a part depending on the rest of the file only
   through something (f's first argument) that `isolate` preserves - in practice the pragmas. *)
Theorem composes_base (d : SourceUnit -> res (list Loc)) (R : list SourceUnitPart -> SourceUnitPart -> Loc -> Prop) :
  (forall parts k p l, R (iso_parts parts k) p l <-> R parts p l) ->
  (forall parts ls, d (Mk_SourceUnit parts) = Ok ls ->
     forall l, In l ls <-> exists p, In p parts /\ R parts p l) ->
  (forall parts ls k, d (Mk_SourceUnit parts) = Ok ls -> exists ls', d (isolate parts k) = Ok ls') ->
  composes d.
Proof.
  intros Hctx Hchar Htot parts Hne _ locs Hd.
  destruct (mapM_total (fun k => d (isolate parts k)) (item_indices parts)) as [locss E].
  { intros k _. exact (Htot parts locs k Hd). }
  exists locss. split; [exact E|]. intros l.
  rewrite (mapM_concat_in _ _ _ E). rewrite (Hchar parts locs Hd l). split.
  - intros (p & Hp & Hl).
    assert (Hk : exists k, In k (item_indices parts) /\ In p (iso_parts parts k)).
    { destruct (sp_is_pragma p) eqn:Hb.
      - destruct (item_indices parts) as [|k0 ks] eqn:Ei; [contradiction Hne; reflexivity|].
        exists k0. split; [left; reflexivity|]. apply in_iso_parts. left. split; assumption.
      - destruct (In_nth_error _ _ Hp) as [k Hk]. exists k. split.
        + apply in_item_indices. exists p. split; assumption.
        + apply in_iso_parts. right. exact Hk. }
    destruct Hk as (k & Hk & Hpk). destruct (Htot parts locs k Hd) as [ls' E'].
    exists k, ls'. split; [exact Hk|]. split; [exact E'|].
    rewrite isolate_eq in E'. apply (Hchar _ _ E' l). exists p. split; [exact Hpk|]. apply Hctx. exact Hl.
  - intros (k & ls' & Hk & E' & Hl). rewrite isolate_eq in E'. apply (Hchar _ _ E' l) in Hl.
    destruct Hl as (p & Hp & Hl). exists p. split; [eapply in_iso_parts_in; exact Hp|]. apply Hctx in Hl. exact Hl.
Qed.

(* total detectors with a context-free part-local form *)
Theorem composes_local (d : SourceUnit -> res (list Loc)) (f : SourceUnitPart -> list Loc) :
  (forall parts, exists ls, d (Mk_SourceUnit parts) = Ok ls /\
                            forall l, In l ls <-> exists p, In p parts /\ In l (f p)) ->
  composes d.
Proof.
  intros H. apply (composes_base d (fun _ p l => In l (f p))).
  - intros parts k p l. reflexivity.
  - intros parts ls Hd l. destruct (H parts) as (ls0 & E & Hc). rewrite E in Hd. injection Hd as <-. apply Hc.
  - intros parts ls k _. rewrite isolate_eq. destruct (H (iso_parts parts k)) as (ls0 & E & _). exists ls0. exact E.
Qed.

(* ------------------------------------------------------------------ node level *)
Lemma all_nodes_parts parts :
  all_nodes (Mk_SourceUnit parts) = N_SourceUnit (Mk_SourceUnit parts) :: flat_map pre_SourceUnitPart parts.
Proof. reflexivity. Qed.

Theorem node_level_local (g : node -> list Loc) d :
  (forall su, g (N_SourceUnit su) = []) ->
  (forall su, exists ls, d su = Ok ls /\ forall l, In l ls <-> exists n, In n (all_nodes su) /\ In l (g n)) ->
  composes d.
Proof.
  intros Hg H. apply (composes_local d (fun p => flat_map g (pre_SourceUnitPart p))).
  intros parts. destruct (H (Mk_SourceUnit parts)) as (ls & E & Hc). exists ls. split; [exact E|].
  intros l. rewrite Hc. rewrite all_nodes_parts. split.
  - intros (n & [<-|Hn] & Hl); [rewrite Hg in Hl; contradiction|].
    apply in_flat_map in Hn. destruct Hn as (p & Hp & Hn). exists p. split; [exact Hp|].
    apply in_flat_map. exists n. split; assumption.
  - intros (p & Hp & Hl). apply in_flat_map in Hl. destruct Hl as (n & Hn & Hl). exists n. split; [|exact Hl].
    right. apply in_flat_map. exists p. split; assumption.
Qed.

Lemma in_flat_map_exprs_in (g : Expression -> list Loc) ns l :
  In l (flat_map g (exprs_in ns)) <->
  exists n, In n ns /\ In l (match n with N_Expression e => g e | _ => [] end).
Proof.
  unfold exprs_in. rewrite in_flat_map. split.
  - intros (e & He & Hl). apply in_flat_map in He. destruct He as (n & Hn & He).
    exists n. split; [exact Hn|]. destruct n; try contradiction He. destruct He as [<-|[]]. exact Hl.
  - intros (n & Hn & Hl). destruct n; try contradiction Hl. exists x. split; [|exact Hl].
    apply in_flat_map. exists (N_Expression x). split; [exact Hn|left; reflexivity].
Qed.

Lemma in_flat_map_stmts_in (g : Statement -> list Loc) ns l :
  In l (flat_map g (stmts_in ns)) <->
  exists n, In n ns /\ In l (match n with N_Statement s => g s | _ => [] end).
Proof.
  unfold stmts_in. rewrite in_flat_map. split.
  - intros (e & He & Hl). apply in_flat_map in He. destruct He as (n & Hn & He).
    exists n. split; [exact Hn|]. destruct n; try contradiction He. destruct He as [<-|[]]. exact Hl.
  - intros (n & Hn & Hl). destruct n; try contradiction Hl. exists x. split; [|exact Hl].
    apply in_flat_map. exists (N_Statement x). split; [exact Hn|left; reflexivity].
Qed.

(* expression level: the closed form is a flat_map over all expressions of the file *)
Theorem expr_level_local_ex (g : Expression -> list Loc) d :
  (forall su, exists ls, d su = Ok ls /\ forall l, In l ls <-> In l (flat_map g (all_exprs su))) -> composes d.
Proof.
  intros H. apply (node_level_local (fun n => match n with N_Expression e => g e | _ => [] end) d); [reflexivity|].
  intros su. destruct (H su) as (ls & E & Hc). exists ls. split; [exact E|]. intros l. rewrite Hc.
  apply in_flat_map_exprs_in.
Qed.

Theorem expr_level_local (g : Expression -> list Loc) d :
  (forall su, d su = Ok (flat_map g (all_exprs su))) -> composes d.
Proof. intros H. apply (expr_level_local_ex g). intros su. eexists. split; [apply H|]. intros l. reflexivity. Qed.

Theorem stmt_level_local (g : Statement -> list Loc) d :
  (forall su, d su = Ok (flat_map g (all_stmts su))) -> composes d.
Proof.
  intros H. apply (node_level_local (fun n => match n with N_Statement s => g s | _ => [] end) d); [reflexivity|].
  intros su. exists (flat_map g (all_stmts su)). split; [apply H|]. intros l. apply in_flat_map_stmts_in.
Qed.

(* ------------------------------------------------------------------ contract level *)
Lemma in_contracts parts c :
  In c (contracts (Mk_SourceUnit parts)) <-> In (SourceUnitPart_ContractDefinition c) parts.
Proof.
  cbn [contracts]. rewrite in_flat_map. split.
  - intros (p & Hp & Hc). destruct p; try contradiction Hc. destruct Hc as [<-|[]]. exact Hp.
  - intros H. exists (SourceUnitPart_ContractDefinition c). split; [exact H|left; reflexivity].
Qed.

Theorem contract_level_local (h : ContractDefinition -> list Loc) d :
  (forall su, exists ls, d su = Ok ls /\ forall l, In l ls <-> exists c, In c (contracts su) /\ In l (h c)) ->
  composes d.
Proof.
  intros H. apply (composes_local d (fun p => match p with SourceUnitPart_ContractDefinition c => h c | _ => [] end)).
  intros parts. destruct (H (Mk_SourceUnit parts)) as (ls & E & Hc). exists ls. split; [exact E|].
  intros l. rewrite Hc. split.
  - intros (c & Hin & Hl). exists (SourceUnitPart_ContractDefinition c). split; [apply in_contracts; exact Hin|exact Hl].
  - intros (p & Hp & Hl). destruct p; try contradiction Hl. exists a0. split; [apply in_contracts; exact Hp|exact Hl].
Qed.

Lemma in_flat_map_flat_map {A B C} (g : B -> list C) (k : A -> list B) cs l :
  In l (flat_map g (flat_map k cs)) <-> exists c, In c cs /\ In l (flat_map g (k c)).
Proof.
  rewrite in_flat_map. split.
  - intros (b & Hb & Hl). apply in_flat_map in Hb. destruct Hb as (c & Hc & Hb). exists c. split; [exact Hc|].
    apply in_flat_map. exists b. split; assumption.
  - intros (c & Hc & Hl). apply in_flat_map in Hl. destruct Hl as (b & Hb & Hl). exists b. split; [|exact Hl].
    apply in_flat_map. exists c. split; assumption.
Qed.

Lemma in_select_flat_map {A B} (P : B -> bool) (fl : B -> Loc) (k : A -> list B) cs l :
  In l (select P fl (flat_map k cs)) <-> exists c, In c cs /\ In l (select P fl (k c)).
Proof.
  unfold select. rewrite in_map_iff. split.
  - intros (b & E & Hb). apply filter_In in Hb. destruct Hb as [Hb HP]. apply in_flat_map in Hb.
    destruct Hb as (c & Hc & Hb). exists c. split; [exact Hc|]. apply in_map_iff. exists b. split; [exact E|].
    apply filter_In. split; assumption.
  - intros (c & Hc & Hl). apply in_map_iff in Hl. destruct Hl as (b & E & Hb). apply filter_In in Hb.
    destruct Hb as [Hb HP]. exists b. split; [exact E|]. apply filter_In. split; [|exact HP].
    apply in_flat_map. exists c. split; assumption.
Qed.

(* ================================================================== expression-level gas detectors *)
Theorem address_balance_composes : composes address_balance_optimization.
Proof. eapply expr_level_local. intros su. rewrite address_balance_closed. reflexivity. Qed.

Theorem address_zero_composes : composes address_zero_optimization.
Proof. eapply expr_level_local. intros su. rewrite address_zero_closed. reflexivity. Qed.

Theorem assign_update_array_composes : composes assign_update_array_optimization.
Proof. eapply expr_level_local. intros su. rewrite assign_update_closed. reflexivity. Qed.

Theorem bool_equals_bool_composes : composes bool_equals_bool_optimization.
Proof. eapply expr_level_local. intros su. rewrite bool_equals_bool_closed. reflexivity. Qed.

Theorem cache_array_length_composes : composes cache_array_length_optimization.
Proof. eapply stmt_level_local. intros su. rewrite cache_array_length_closed. reflexivity. Qed.

Theorem multiple_require_composes : composes multiple_require_optimization.
Proof. eapply expr_level_local_ex. intros su. apply multiple_require_closed. Qed.

Theorem optimal_comparison_composes : composes optimal_comparison_optimization.
Proof. eapply expr_level_local. intros su. rewrite optimal_comparison_closed. reflexivity. Qed.

Theorem shift_math_composes : composes shift_math_optimization.
Proof. eapply expr_level_local. intros su. rewrite shift_math_closed. reflexivity. Qed.

Theorem solidity_keccak256_composes : composes solidity_keccak256_optimization.
Proof. eapply expr_level_local. intros su. rewrite solidity_keccak256_closed. reflexivity. Qed.

Theorem solidity_math_composes : composes solidity_math_optimization.
Proof. eapply expr_level_local. intros su. rewrite solidity_math_closed. reflexivity. Qed.

(* ================================================================== vulnerabilities (expression level) *)
Theorem unsafe_erc20_operation_composes : composes unsafe_erc20_operation_vulnerability.
Proof. eapply expr_level_local. intros su. rewrite unsafe_erc20_closed. reflexivity. Qed.

Theorem divide_before_multiply_composes : composes divide_before_multiply_vulnerability.
Proof. eapply expr_level_local. intros su. rewrite divide_before_multiply_closed. reflexivity. Qed.

(* ================================================================== declaration level *)
Theorem payable_function_composes : composes payable_function_optimization.
Proof.
  eapply contract_level_local. intros su. eexists. split; [apply payable_function_closed|].
  intros l. unfold spec_payable_function, member_functions. apply in_select_flat_map.
Qed.

Theorem private_constant_composes : composes private_constant_optimization.
Proof.
  eapply contract_level_local. intros su. eexists. split; [apply private_constant_closed|].
  intros l. unfold spec_private_constant, state_variables. apply in_select_flat_map.
Qed.

Theorem private_vars_leading_underscore_composes : composes private_vars_leading_underscore.
Proof.
  eapply contract_level_local. intros su. destruct (private_vars_closed su) as (ls & E & Hc).
  exists ls. split; [exact E|]. intros l. rewrite Hc.
  unfold spec_private_vars, state_variables. apply in_select_flat_map.
Qed.

Theorem private_func_leading_underscore_composes : composes private_func_leading_underscore.
Proof.
  eapply contract_level_local. intros su. destruct (private_func_closed su) as (ls & E & Hc).
  exists ls. split; [exact E|]. intros l. rewrite Hc.
  unfold spec_private_func, member_functions. apply in_flat_map_flat_map.
Qed.

Theorem constructor_order_qa_composes : composes constructor_order_qa.
Proof.
  eapply contract_level_local. intros su. eexists. split; [apply constructor_order_closed|].
  intros l. unfold spec_constructor_order. apply in_flat_map.
Qed.

Theorem unprotected_selfdestruct_composes : composes unprotected_selfdestruct_vulnerability.
Proof.
  eapply contract_level_local. intros su. eexists. split; [apply unprotected_selfdestruct_closed|].
  intros l. unfold spec_unprotected_selfdestruct, member_functions. apply in_flat_map_flat_map.
Qed.

(* the pragma directives themselves: every isolated file repeats the findings on the pragmas *)
Theorem floating_pragma_composes : composes floating_pragma_vulnerability.
Proof.
  eapply composes_local. intros parts. eexists. split; [apply floating_pragma_closed|].
  intros l. unfold spec_floating_pragma, pragmas. apply in_flat_map_flat_map.
Qed.

(* per function (contract members and free functions) *)
Theorem memory_to_calldata_composes : composes memory_to_calldata_optimization.
Proof.
  eapply node_level_local.
  2:{ intros su. eexists. split; [apply memory_to_calldata_closed|].
      intros l. unfold all_functions. apply in_flat_map_flat_map. }
  intros su. reflexivity.
Qed.

(* ================================================================== version-gated detectors *)
Definition part_exprs (p : SourceUnitPart) : list Expression := exprs_in (pre_SourceUnitPart p).

Lemma all_exprs_parts parts : all_exprs (Mk_SourceUnit parts) = flat_map part_exprs parts.
Proof.
  unfold all_exprs. rewrite all_nodes_parts.
  change (exprs_in (N_SourceUnit (Mk_SourceUnit parts) :: flat_map pre_SourceUnitPart parts))
    with (exprs_in (flat_map pre_SourceUnitPart parts)).
  induction parts as [|p ps IH]; [reflexivity|]. cbn [flat_map]. rewrite exprs_in_app, IH. reflexivity.
Qed.

Lemma in_all_exprs parts e :
  In e (all_exprs (Mk_SourceUnit parts)) <-> exists p, In p parts /\ In e (part_exprs p).
Proof. rewrite all_exprs_parts. apply in_flat_map. Qed.

Lemma in_all_exprs_iso parts k e : In e (all_exprs (isolate parts k)) -> In e (all_exprs (Mk_SourceUnit parts)).
Proof.
  rewrite isolate_eq, !in_all_exprs. intros (p & Hp & He). exists p. split; [eapply in_iso_parts_in; exact Hp|exact He].
Qed.

Lemma flat_map_flat_map_eq {A B C} (g : B -> list C) (k : A -> list B) l :
  flat_map g (flat_map k l) = flat_map (fun x => flat_map g (k x)) l.
Proof. induction l as [|x l IH]; [reflexivity|]. cbn [flat_map]. rewrite flat_map_app, IH. reflexivity. Qed.

Definition part_require_strings (p : SourceUnitPart) : list StringLiteral :=
  flat_map (fun e => match sp_require_string e with Some s => [s] | None => [] end) (part_exprs p).

Lemma require_strings_parts parts :
  require_strings (Mk_SourceUnit parts) = flat_map part_require_strings parts.
Proof. unfold require_strings. rewrite all_exprs_parts. apply flat_map_flat_map_eq. Qed.

(* generic: a closed form gated by the version of the first `pragma solidity` *)
Theorem gated_composes d (gate : version -> bool) (h : SourceUnit -> list Loc) (hp : SourceUnitPart -> list Loc) :
  (forall parts l, In l (h (Mk_SourceUnit parts)) <-> exists p, In p parts /\ In l (hp p)) ->
  (forall su ls, d su = Ok ls ->
     ls = match model_version su with None => [] | Some v => gated (gate v) (h su) end) ->
  (forall parts ls k, d (Mk_SourceUnit parts) = Ok ls -> exists ls', d (isolate parts k) = Ok ls') ->
  composes d.
Proof.
  intros Hh Hclosed Htot.
  apply (composes_base d (fun parts p l =>
           In l (match model_version (Mk_SourceUnit parts) with
                 | None => [] | Some v => gated (gate v) (hp p) end))).
  - intros parts k p l. rewrite <- isolate_eq, iso_model_version. reflexivity.
  - intros parts ls Hd l. rewrite (Hclosed _ _ Hd).
    destruct (model_version (Mk_SourceUnit parts)) as [v|].
    + unfold gated. destruct (gate v).
      * apply Hh.
      * split; [contradiction|]. intros (p & _ & []).
    + split; [contradiction|]. intros (p & _ & []).
  - exact Htot.
Qed.

Theorem short_revert_string_composes : composes short_revert_string_optimization.
Proof.
  apply (gated_composes _ (fun v => version_lt v v084)
           (fun su => select (fun p => (32 <=? sp_len (StringLiteral_string p))%N) StringLiteral_loc (require_strings su))
           (fun p => select (fun p => (32 <=? sp_len (StringLiteral_string p))%N) StringLiteral_loc (part_require_strings p))).
  - intros parts l. rewrite require_strings_parts. apply in_select_flat_map.
  - intros su ls H. rewrite short_revert_closed in H. injection H as <-. reflexivity.
  - intros parts ls k _. eexists. apply short_revert_closed.
Qed.

(* string_errors may panic (a require whose last argument is a string literal with zero parts - never
   produced by the parser); when the whole file is analysed without a panic, so is every isolated item *)
Definition string_error_gate_wf (su : SourceUnit) : Prop :=
  match model_version su with
  | Some v => version_ge v v084 = true -> wf_require_strings su = true
  | None => True end.

Lemma in_exprs_in e ns : In e (exprs_in ns) <-> In (N_Expression e) ns.
Proof.
  unfold exprs_in. rewrite in_flat_map. split.
  - intros (n & Hn & He). destruct n; try contradiction He. destruct He as [<-|[]]. exact Hn.
  - intros H. exists (N_Expression e). split; [exact H|left; reflexivity].
Qed.

Lemma string_error_ok_inv su ls : string_error_optimization su = Ok ls -> string_error_gate_wf su.
Proof.
  intros H. unfold string_error_gate_wf. unfold string_error_optimization in H.
  rewrite version_closed in H. cbn [bind] in H.
  destruct (model_version su) as [v|]; [|exact I]. intros G. rewrite G in H.
  destruct (mapM _ (extract_target_from_node Target_FunctionCall (root su))) as [ys|s] eqn:E; [|discriminate H].
  unfold wf_require_strings. apply forallb_forall. intros e He.
  destruct (require_last_string e) as [[|lit lits]|] eqn:R; try reflexivity. exfalso.
  destruct (mapM_ok_each _ _ _ E (N_Expression e)) as [y Hy].
  - rewrite extract_single_lemma. apply filter_In. split.
    + apply in_exprs_in. exact He.
    + destruct e; cbn [require_last_string] in R; try discriminate R. reflexivity.
  - cbn [node_expression unwrap bind] in Hy. rewrite R in Hy. discriminate Hy.
Qed.

Lemma string_error_ok_of_wf su : string_error_gate_wf su -> exists ls, string_error_optimization su = Ok ls.
Proof.
  intros G. destruct (wf_require_strings su) eqn:W.
  - eexists. apply string_errors_closed. exact W.
  - unfold string_error_gate_wf in G. unfold string_error_optimization. rewrite version_closed. cbn [bind].
    destruct (model_version su) as [v|]; [|eexists; reflexivity].
    destruct (version_ge v v084); [|eexists; reflexivity].
    specialize (G eq_refl). rewrite W in G. discriminate G.
Qed.

Lemma string_error_closed_cond su ls :
  string_error_optimization su = Ok ls ->
  ls = match model_version su with
       | None => [] | Some v => gated (version_ge v v084) (map StringLiteral_loc (require_strings su)) end.
Proof.
  intros H. pose proof (string_error_ok_inv su ls H) as G. unfold string_error_gate_wf in G.
  destruct (wf_require_strings su) eqn:W.
  - rewrite (string_errors_closed su W) in H. injection H as <-. reflexivity.
  - unfold string_error_optimization in H. rewrite version_closed in H. cbn [bind] in H.
    destruct (model_version su) as [v|]; [|injection H as <-; reflexivity].
    unfold gated. destruct (version_ge v v084).
    + specialize (G eq_refl). discriminate G.
    + injection H as <-. reflexivity.
Qed.

Lemma wf_require_strings_iso parts k :
  wf_require_strings (Mk_SourceUnit parts) = true -> wf_require_strings (isolate parts k) = true.
Proof.
  unfold wf_require_strings. rewrite !forallb_forall. intros H e He. apply H. eapply in_all_exprs_iso. exact He.
Qed.

Lemma map_flat_map {A B C} (f : B -> C) (k : A -> list B) l :
  map f (flat_map k l) = flat_map (fun x => map f (k x)) l.
Proof. induction l as [|x l IH]; [reflexivity|]. cbn [flat_map]. rewrite map_app, IH. reflexivity. Qed.

Theorem string_error_composes : composes string_error_optimization.
Proof.
  apply (gated_composes _ (fun v => version_ge v v084)
           (fun su => map StringLiteral_loc (require_strings su))
           (fun p => map StringLiteral_loc (part_require_strings p))).
  - intros parts l. rewrite require_strings_parts, map_flat_map. apply in_flat_map.
  - exact string_error_closed_cond.
  - intros parts ls k H. apply string_error_ok_of_wf. apply string_error_ok_inv in H.
    unfold string_error_gate_wf in *. rewrite iso_model_version.
    destruct (model_version (Mk_SourceUnit parts)) as [v|]; [|exact I].
    intros G. apply wf_require_strings_iso. exact (H G).
Qed.

(* ================================================================== packing detectors *)
Lemma pack_storage_ok_inv parts ls :
  pack_storage_variables_optimization (Mk_SourceUnit parts) = Ok ls ->
  forall c, In (SourceUnitPart_ContractDefinition c) parts -> exists b, can_be_packed (contract_variable_sizes c) = Ok b.
Proof.
  intros H c Hc. unfold pack_storage_variables_optimization in H.
  destruct (mapM pack_storage_node _) as [ys|s] eqn:E; [|discriminate H].
  destruct (mapM_ok_each _ _ _ E (N_SourceUnitPart (SourceUnitPart_ContractDefinition c))) as [y Hy].
  - apply extract_contracts_in. exists c. split; [reflexivity|exact Hc].
  - cbn [pack_storage_node] in Hy. destruct (can_be_packed (contract_variable_sizes c)) as [b|s]; [|discriminate Hy].
    exists b. reflexivity.
Qed.

Theorem pack_storage_variables_composes : composes pack_storage_variables_optimization.
Proof.
  apply (composes_base _ (fun _ p l => exists c, p = SourceUnitPart_ContractDefinition c /\ l = ContractDefinition_loc c /\
                                                 can_be_packed (contract_variable_sizes c) = Ok true)).
  - intros parts k p l. reflexivity.
  - intros parts ls H l. rewrite (pack_storage_exact_lemma parts ls H l). split.
    + intros (c & Hc & Hl & Hb). exists (SourceUnitPart_ContractDefinition c). split; [exact Hc|].
      exists c. repeat split; assumption.
    + intros (p & Hp & c & -> & Hl & Hb). exists c. repeat split; assumption.
  - intros parts ls k H. rewrite isolate_eq. apply pack_storage_total_lemma. intros c Hc.
    apply (pack_storage_ok_inv parts ls H). eapply in_iso_parts_in. exact Hc.
Qed.

Lemma struct_of_file_parts parts s :
  struct_of_file parts s <-> exists p, In p parts /\ struct_of_file [p] s.
Proof.
  unfold struct_of_file. split.
  - intros [H|(c & Hc & Hs)].
    + exists (SourceUnitPart_StructDefinition s). split; [exact H|]. left. left. reflexivity.
    + exists (SourceUnitPart_ContractDefinition c). split; [exact Hc|]. right. exists c. split; [left; reflexivity|exact Hs].
  - intros (p & Hp & [H|(c & Hc & Hs)]).
    + destruct H as [<-|[]]. left. exact Hp.
    + destruct Hc as [E|[]]. subst p. right. exists c. split; assumption.
Qed.

Lemma pack_struct_ok_inv parts ls :
  pack_struct_variables_optimization (Mk_SourceUnit parts) = Ok ls ->
  forall s, struct_of_file parts s -> exists b, can_be_packed (struct_variable_sizes s) = Ok b.
Proof.
  intros H s Hs. unfold pack_struct_variables_optimization in H.
  destruct (mapM pack_struct_node _) as [ys|m] eqn:E; [|discriminate H].
  destruct Hs as [Hs|(c & Hc & Hs)].
  - destruct (mapM_ok_each _ _ _ E (N_SourceUnitPart (SourceUnitPart_StructDefinition s))) as [y Hy].
    + apply extract_structs_in. left. exists s. split; [reflexivity|exact Hs].
    + cbn [pack_struct_node] in Hy. unfold struct_can_be_packed in Hy.
      destruct (can_be_packed (struct_variable_sizes s)) as [b|m]; [|discriminate Hy]. exists b. reflexivity.
  - destruct (mapM_ok_each _ _ _ E (N_ContractPart (ContractPart_StructDefinition s))) as [y Hy].
    + apply extract_structs_in. right. exists c, s. repeat split; assumption.
    + cbn [pack_struct_node] in Hy. unfold struct_can_be_packed in Hy.
      destruct (can_be_packed (struct_variable_sizes s)) as [b|m]; [|discriminate Hy]. exists b. reflexivity.
Qed.

(* structs at file level and structs that are members of a contract *)
Theorem pack_struct_variables_composes : composes pack_struct_variables_optimization.
Proof.
  apply (composes_base _ (fun _ p l => exists s, struct_of_file [p] s /\ l = StructDefinition_loc s /\
                                                 can_be_packed (struct_variable_sizes s) = Ok true)).
  - intros parts k p l. reflexivity.
  - intros parts ls H l. rewrite (pack_struct_exact_lemma parts ls H l). split.
    + intros (s & Hs & Hl & Hb). apply struct_of_file_parts in Hs. destruct Hs as (p & Hp & Hs).
      exists p. split; [exact Hp|]. exists s. repeat split; assumption.
    + intros (p & Hp & s & Hs & Hl & Hb). exists s. split; [|split; assumption].
      apply struct_of_file_parts. exists p. split; assumption.
  - intros parts ls k H. rewrite isolate_eq. apply pack_struct_total_lemma. intros s Hs.
    apply (pack_struct_ok_inv parts ls H). apply struct_of_file_parts in Hs. destruct Hs as (p & Hp & Hs).
    apply struct_of_file_parts. exists p. split; [eapply in_iso_parts_in; exact Hp|exact Hs].
Qed.

(* ================================================================== increment_decrement *)
(* The detector exempts a prefix ++/-- when its LOCATION equals the location of a prefix ++/-- found
   inside an `unchecked` block anywhere in the file (the Rust code compares `Loc`s).  On a tree in
   which an inc/dec of one item carries the same location as an unchecked prefix inc/dec of ANOTHER
   item, the whole-file verdict differs from the item-by-item verdict: `composes` is FALSE for this
   detector over arbitrary trees (counterexample below).  No parser output has this shape (distinct
   items occupy disjoint byte ranges), so the theorem is proved under that one extra premise. *)
Definition part_stmts (p : SourceUnitPart) : list Statement := stmts_in (pre_SourceUnitPart p).

Lemma all_stmts_parts parts : all_stmts (Mk_SourceUnit parts) = flat_map part_stmts parts.
Proof.
  unfold all_stmts. rewrite all_nodes_parts.
  change (stmts_in (N_SourceUnit (Mk_SourceUnit parts) :: flat_map pre_SourceUnitPart parts))
    with (stmts_in (flat_map pre_SourceUnitPart parts)).
  induction parts as [|p ps IH]; [reflexivity|]. cbn [flat_map]. rewrite stmts_in_app, IH. reflexivity.
Qed.

(* locations of the ++/-- expressions of one item; locations of its prefix ++/-- inside `unchecked` *)
Definition part_incdec_locs (p : SourceUnitPart) : list Loc := flat_map sp_incdec_loc (part_exprs p).
Definition unchecked_prefix_locs (s : Statement) : list Loc :=
  match s with
  | Statement_Block _ true stmts => flat_map (fun st => flat_map sp_prefix_loc (exprs_in (pre_Statement st))) stmts
  | _ => [] end.
Definition part_exempt_locs (p : SourceUnitPart) : list Loc := flat_map unchecked_prefix_locs (part_stmts p).

Lemma exempt_prefix_locs_parts parts :
  exempt_prefix_locs (Mk_SourceUnit parts) = flat_map part_exempt_locs parts.
Proof.
  change (exempt_prefix_locs (Mk_SourceUnit parts)) with (flat_map unchecked_prefix_locs (all_stmts (Mk_SourceUnit parts))).
  rewrite all_stmts_parts. apply flat_map_flat_map_eq.
Qed.

Lemma sp_Loc_eqb_eq a b : sp_Loc_eqb a b = true <-> a = b.
Proof.
  destruct a as [f1 s1 e1], b as [f2 s2 e2]. cbn [sp_Loc_eqb]. rewrite !andb_true_iff, !N.eqb_eq. split.
  - intros [[-> ->] ->]. reflexivity.
  - intros H. injection H as -> -> ->. repeat split.
Qed.

Lemma existsb_sp_Loc_eqb l ls : existsb (sp_Loc_eqb l) ls = true <-> In l ls.
Proof.
  rewrite existsb_exists. split.
  - intros (x & Hx & E). apply sp_Loc_eqb_eq in E. subst x. exact Hx.
  - intros H. exists l. split; [exact H|]. apply sp_Loc_eqb_eq. reflexivity.
Qed.

Lemma in_spec_incdec parts l :
  In l (spec_increment_decrement (Mk_SourceUnit parts)) <->
  (exists p, In p parts /\ In l (part_incdec_locs p)) /\ (forall q, In q parts -> ~ In l (part_exempt_locs q)).
Proof.
  unfold spec_increment_decrement. rewrite filter_In. rewrite all_exprs_parts, flat_map_flat_map_eq, in_flat_map.
  rewrite exempt_prefix_locs_parts. rewrite negb_true_iff, <- not_true_iff_false, existsb_sp_Loc_eqb, in_flat_map.
  split; intros [H1 H2]; (split; [exact H1|]).
  - intros q Hq Hl. apply H2. exists q. split; assumption.
  - intros (q & Hq & Hl). exact (H2 q Hq Hl).
Qed.

(* an inc/dec of one item never shares its location with an unchecked prefix inc/dec of another item *)
Definition incdec_locs_separate (parts : list SourceUnitPart) : Prop :=
  forall i j p q, i <> j -> nth_error parts i = Some p -> nth_error parts j = Some q ->
  forall l, In l (part_incdec_locs p) -> ~ In l (part_exempt_locs q).

(* `composes` with one more premise on the file *)
Definition composes_if (H : list SourceUnitPart -> Prop) (d : SourceUnit -> res (list Loc)) : Prop :=
  forall parts, item_indices parts <> [] -> no_cross_mentions parts -> H parts ->
  forall locs, d (Mk_SourceUnit parts) = Ok locs ->
  exists locss, mapM (fun k => d (isolate parts k)) (item_indices parts) = Ok locss /\
                forall l, In l locs <-> In l (List.concat locss).

Lemma composes_if_of_composes H d : composes d -> composes_if H d.
Proof. intros Hc parts Hne Hn _. exact (Hc parts Hne Hn). Qed.

Definition increment_decrement_composes_statement : Prop := composes increment_decrement_optimization.

Theorem increment_decrement_composes_partial : composes_if incdec_locs_separate increment_decrement_optimization.
Proof.
  intros parts Hne _ Hsep locs Hd. rewrite increment_decrement_closed in Hd. injection Hd as <-.
  exists (map (fun k => spec_increment_decrement (isolate parts k)) (item_indices parts)). split.
  - apply mapM_ok_ext. intros k. apply increment_decrement_closed.
  - intros l. rewrite flat_map_concat_map, in_flat_map, in_spec_incdec. split.
    + intros [(p & Hp & Hl) Hex]. destruct (In_nth_error _ _ Hp) as [k Hk]. exists k. split.
      * apply in_item_indices. exists p. split; [exact Hk|]. destruct p; try reflexivity. exfalso. exact Hl.
      * rewrite isolate_eq. apply in_spec_incdec. split.
        -- exists p. split; [apply in_iso_parts; right; exact Hk | exact Hl].
        -- intros q Hq. apply Hex. eapply in_iso_parts_in. exact Hq.
    + intros (k & Hk & Hl). rewrite isolate_eq in Hl. apply in_spec_incdec in Hl. destruct Hl as [(p & Hp & Hl) Hex].
      apply in_iso_parts in Hp. destruct Hp as [[Hp Hb]|Hp].
      { destruct p; try discriminate Hb. exfalso. exact Hl. }
      split.
      * exists p. split; [eapply nth_error_In; exact Hp | exact Hl].
      * intros q Hq. destruct (In_nth_error _ _ Hq) as [j Hj]. destruct (Nat.eq_dec k j) as [<-|Hkj].
        -- rewrite Hp in Hj. injection Hj as <-. apply Hex. apply in_iso_parts. right. exact Hp.
        -- exact (Hsep k j p q Hkj Hp Hj l Hl).
Qed.

(* the counterexample: `uint a = ++x;` and `function f() { unchecked { ++y; } }` as two items whose two
   prefix increments carry the SAME location.  Whole file: the location is exempt (it is the location of
   an unchecked prefix increment), nothing reported.  Item a alone: reported. *)
Definition cx_loc : Loc := Loc_File 0 10 13.
Definition cx_var (name : string) : Expression := Expression_Variable (Mk_Identifier (Loc_File 0 12 13) name).
Definition cx_item_a : SourceUnitPart :=
  SourceUnitPart_VariableDefinition
    (Mk_VariableDefinition (Loc_File 0 0 14) (Expression_Type (Loc_File 0 0 4) (Ty_Uint 256)) []
       (Mk_Identifier (Loc_File 0 5 6) "a"%string) (Some (Expression_PreIncrement cx_loc (cx_var "x"%string)))).
Definition cx_item_b : SourceUnitPart :=
  SourceUnitPart_FunctionDefinition
    (Mk_FunctionDefinition (Loc_File 0 20 60) FunctionTy_Function (Some (Mk_Identifier (Loc_File 0 29 30) "f"%string))
       (Loc_File 0 29 30) [] [] None []
       (Some (Statement_Block (Loc_File 0 33 60) false
                [Statement_Block (Loc_File 0 35 58) true
                   [Statement_Expression (Loc_File 0 45 49) (Expression_PreIncrement cx_loc (cx_var "y"%string))]]))).
Definition cx_parts : list SourceUnitPart := [cx_item_a; cx_item_b].

Lemma cx_no_cross_mentions : no_cross_mentions cx_parts.
Proof.
  intros i j p q _ Hp _ x Hx. destruct i as [|[|i]]; cbn [nth_error cx_parts] in Hp.
  - injection Hp as <-. contradiction Hx.
  - injection Hp as <-. contradiction Hx.
  - destruct i; discriminate Hp.
Qed.

Theorem increment_decrement_not_composes : ~ composes increment_decrement_optimization.
Proof.
  intros H.
  assert (Hne : item_indices cx_parts <> []) by (vm_compute; discriminate).
  assert (Hd : increment_decrement_optimization (Mk_SourceUnit cx_parts) = Ok []) by (vm_compute; reflexivity).
  destruct (H cx_parts Hne cx_no_cross_mentions [] Hd) as (locss & E & Hl).
  vm_compute in E. injection E as <-. apply (Hl cx_loc). left. reflexivity.
Qed.

(* the counterexample violates exactly the extra premise *)
Lemma cx_not_separate : ~ incdec_locs_separate cx_parts.
Proof.
  intros H. apply (H 0 1 cx_item_a cx_item_b ltac:(discriminate) eq_refl eq_refl cx_loc); vm_compute; left; reflexivity.
Qed.

(* boolean version of the extra premise, for evaluation on concrete trees *)
Definition incdec_locs_separate_b (parts : list SourceUnitPart) : bool :=
  forallb (fun ip =>
    forallb (fun jq =>
      Nat.eqb (fst ip) (fst jq) ||
      forallb (fun l => negb (existsb (sp_Loc_eqb l) (part_exempt_locs (snd jq)))) (part_incdec_locs (snd ip)))
      (indexed parts))
    (indexed parts).

Lemma incdec_locs_separate_b_sound parts : incdec_locs_separate_b parts = true -> incdec_locs_separate parts.
Proof.
  intros H i j p q Hij Hp Hq l Hl Hex. unfold incdec_locs_separate_b in H.
  rewrite forallb_forall in H. specialize (H (i, p) (proj2 (in_indexed parts i p) Hp)).
  rewrite forallb_forall in H. specialize (H (j, q) (proj2 (in_indexed parts j q) Hq)).
  cbn [fst snd] in H. apply orb_prop in H. destruct H as [H|H].
  - apply Nat.eqb_eq in H. contradiction.
  - rewrite forallb_forall in H. specialize (H l Hl). apply negb_true_iff in H.
    apply existsb_sp_Loc_eqb in Hex. rewrite Hex in H. discriminate H.
Qed.
