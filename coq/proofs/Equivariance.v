(* C17 (model part): the detectors are equivariant under renaming of locations, i.e. they
   inspect a location only to return it (or to compare it for equality). *)
From Coq Require Import List String Ascii NArith ZArith Bool.
Import ListNotations.
From Solstat Require Import Lift Pt Walk Res Nodes Utils Detectors WalkProof Patterns Patterns2 DetBase
     DetC05 DetC05b DetC06 DetC07 MapLoc.
Local Open Scope string_scope.
Local Open Scope list_scope.

Section Eqv.
  Variable r : Loc -> Loc.

  Lemma exprs_in_mapl ns : exprs_in (map (mapl_node r) ns) = map (mapl_Expression r) (exprs_in ns).
  Proof.
    induction ns as [|n ns IH]; [reflexivity|]. destruct n; cbn [map mapl_node exprs_in flat_map app];
      fold (exprs_in (map (mapl_node r) ns)); fold (exprs_in ns); rewrite IH; reflexivity.
  Qed.
  Lemma stmts_in_mapl ns : stmts_in (map (mapl_node r) ns) = map (mapl_Statement r) (stmts_in ns).
  Proof.
    induction ns as [|n ns IH]; [reflexivity|]. destruct n; cbn [map mapl_node stmts_in flat_map app];
      fold (stmts_in (map (mapl_node r) ns)); fold (stmts_in ns); rewrite IH; reflexivity.
  Qed.

  Lemma all_exprs_mapl su : all_exprs (mapl_SourceUnit r su) = map (mapl_Expression r) (all_exprs su).
  Proof.
    unfold all_exprs, all_nodes. change (N_SourceUnit (mapl_SourceUnit r su)) with (mapl_node r (N_SourceUnit su)).
    rewrite pre_mapl. apply exprs_in_mapl.
  Qed.
  Lemma all_stmts_mapl su : all_stmts (mapl_SourceUnit r su) = map (mapl_Statement r) (all_stmts su).
  Proof.
    unfold all_stmts, all_nodes. change (N_SourceUnit (mapl_SourceUnit r su)) with (mapl_node r (N_SourceUnit su)).
    rewrite pre_mapl. apply stmts_in_mapl.
  Qed.

  Lemma flat_map_equivariant {A} (g : A -> list Loc) (m : A -> A) l :
    (forall x, g (m x) = map r (g x)) -> flat_map g (map m l) = map r (flat_map g l).
  Proof.
    intros H. induction l as [|x l IH]; [reflexivity|]. cbn [map flat_map]. rewrite map_app, H, IH. reflexivity.
  Qed.

  Lemma idname_mapl i : idname (mapl_Identifier r i) = idname i.
  Proof. destruct i. reflexivity. Qed.
  Lemma idloc_mapl i : Identifier_loc (mapl_Identifier r i) = r (Identifier_loc i).
  Proof. destruct i. reflexivity. Qed.

  Ltac mcbn :=
    autorewrite with mapl_eqs; cbn [mapl_Loc map flat_map app];
    rewrite ?idname_mapl, ?idloc_mapl.

  Ltac deep :=
    repeat (mcbn;
            match goal with
            | |- context [match mapl_Expression r ?c with _ => _ end] => destruct c
            | |- context [match mapl_Ty r ?t with _ => _ end] => destruct t
            | |- context [match map _ ?l with _ => _ end] => destruct l
            | |- context [match (match ?o with Some _ => _ | None => _ end) with _ => _ end] => destruct o
            end);
    mcbn; try reflexivity.

  Ltac ifs := try (repeat match goal with |- context [if ?b then _ else _] => destruct b end; reflexivity).
  Ltac by_exprs :=
    rewrite all_exprs_mapl; apply flat_map_equivariant; let e := fresh "e" in intros e; destruct e; try reflexivity; deep; ifs.

  Ltac pred := let e := fresh "e" in intros e; destruct e; try reflexivity; deep.

  Lemma is_address_call_mapl : forall e, sp_is_address_call (mapl_Expression r e) = sp_is_address_call e.
  Proof. unfold sp_is_address_call. pred. Qed.

  Theorem address_balance_eqv su : spec_address_balance (mapl_SourceUnit r su) = map r (spec_address_balance su).
  Proof.
    unfold spec_address_balance. by_exprs. rewrite is_address_call_mapl.
    match goal with |- context [if ?b then _ else _] => destruct b; reflexivity end.
  Qed.

  Theorem optimal_comparison_eqv su : spec_optimal_comparison (mapl_SourceUnit r su) = map r (spec_optimal_comparison su).
  Proof. unfold spec_optimal_comparison. by_exprs. Qed.

  Theorem solidity_math_eqv su : spec_solidity_math (mapl_SourceUnit r su) = map r (spec_solidity_math su).
  Proof. unfold spec_solidity_math. by_exprs. Qed.

  Theorem solidity_keccak256_eqv su : spec_solidity_keccak256 (mapl_SourceUnit r su) = map r (spec_solidity_keccak256 su).
  Proof. unfold spec_solidity_keccak256. by_exprs. Qed.

  Theorem unsafe_erc20_eqv su : spec_unsafe_erc20 (mapl_SourceUnit r su) = map r (spec_unsafe_erc20 su).
  Proof. unfold spec_unsafe_erc20. by_exprs. Qed.
End Eqv.
