(* C19 for the three detectors that go through the file-wide, NAME-keyed state-variable table
   (utils.rs get_32_byte_storage_variables): constant_variables, sstore, immutable_variables.
   Under `no_cross_mentions` the table entry of a name declared in item k, the writes to that name
   and the constructor assignments to it are all determined by item k alone. *)
From Coq Require Import List String Ascii NArith ZArith Bool Arith Lia.
Import ListNotations.
From Solstat Require Import Lift Pt Walk Res Nodes Utils Detectors WalkProof Patterns Patterns2
     DetBase StructLemmas SMapLemmas DetC08 Compose.
Local Open Scope string_scope.
Local Open Scope list_scope.

(* ================================================================ generic facts on isolate *)
Definition idx {A} (s : nat) (l : list A) : list (nat * A) := combine (seq s (List.length l)) l.

Lemma indexed_idx {A} (l : list A) : indexed l = idx 0 l.
Proof. reflexivity. Qed.

Lemma idx_cons {A} s (a : A) l : idx s (a :: l) = (s, a) :: idx (S s) l.
Proof. reflexivity. Qed.

Lemma idx_app {A} s (a b : list A) : idx s (a ++ b) = idx s a ++ idx (s + List.length a) b.
Proof.
  revert s. induction a as [|x a IH]; intros s.
  - cbn [app List.length]. rewrite Nat.add_0_r. reflexivity.
  - cbn [app]. rewrite !idx_cons, IH. cbn [app List.length]. rewrite Nat.add_succ_r. reflexivity.
Qed.

Lemma filter_idx_other {A} (g : A -> bool) k s (l : list A) :
  (forall i, s <= i < s + List.length l -> i <> k) ->
  map snd (filter (fun ip => g (snd ip) || Nat.eqb (fst ip) k) (idx s l)) = filter g l.
Proof.
  revert s. induction l as [|x l IH]; intros s H; [reflexivity|].
  rewrite idx_cons. cbn [filter fst snd].
  assert (E : Nat.eqb s k = false).
  { apply Nat.eqb_neq. apply H. cbn [List.length]. lia. }
  rewrite E, orb_false_r.
  assert (IH' : map snd (filter (fun ip => g (snd ip) || Nat.eqb (fst ip) k) (idx (S s) l)) = filter g l).
  { apply IH. intros i Hi. apply H. cbn [List.length]. lia. }
  destruct (g x); cbn [map snd]; rewrite IH'; reflexivity.
Qed.

Theorem isolate_split P1 p P2 :
  isolate (P1 ++ p :: P2) (List.length P1) =
  Mk_SourceUnit (filter sp_is_pragma P1 ++ p :: filter sp_is_pragma P2).
Proof.
  unfold isolate. f_equal. rewrite indexed_idx, idx_app, idx_cons, filter_app, map_app.
  cbn [filter fst snd plus]. rewrite Nat.eqb_refl, orb_true_r. cbn [map snd]. f_equal.
  - apply filter_idx_other. intros i Hi. lia.
  - f_equal. apply filter_idx_other. intros i Hi. lia.
Qed.

Lemma item_indices_idx s (l : list SourceUnitPart) k :
  In k (map fst (filter (fun ip => negb (sp_is_pragma (snd ip))) (idx s l))) <->
  exists p, nth_error l (k - s) = Some p /\ s <= k /\ sp_is_pragma p = false.
Proof.
  revert s. induction l as [|x l IH]; intros s.
  - cbn. split; [intros []|]. intros [p [H _]]. destruct (k - s); discriminate H.
  - rewrite idx_cons. cbn [filter snd].
    assert (R : In k (map fst (filter (fun ip => negb (sp_is_pragma (snd ip))) (idx (S s) l))) <->
                exists p, nth_error (x :: l) (k - s) = Some p /\ S s <= k /\ sp_is_pragma p = false).
    { rewrite IH. split; intros [p [Hn [Hle Hp]]]; exists p; (split; [|split; [exact Hle|exact Hp]]).
      - replace (k - s) with (S (k - S s)) by lia. exact Hn.
      - replace (k - s) with (S (k - S s)) in Hn by lia. exact Hn. }
    destruct (sp_is_pragma x) eqn:Ex; cbn [negb map fst In]; rewrite R.
    + split; intros [p [Hn [Hle Hp]]].
      * exists p. split; [exact Hn|]. split; [lia|exact Hp].
      * exists p. split; [exact Hn|]. split; [|exact Hp].
        destruct (Nat.eq_dec s k) as [->|Hne]; [|lia].
        rewrite Nat.sub_diag in Hn. cbn in Hn. inversion Hn; subst. rewrite Ex in Hp. discriminate Hp.
    + split.
      * intros [->|[p [Hn [Hle Hp]]]].
        -- exists x. rewrite Nat.sub_diag. split; [reflexivity|]. split; [lia|exact Ex].
        -- exists p. split; [exact Hn|]. split; [lia|exact Hp].
      * intros [p [Hn [Hle Hp]]]. destruct (Nat.eq_dec s k) as [->|Hne]; [left; reflexivity|].
        right. exists p. split; [exact Hn|]. split; [lia|exact Hp].
Qed.

Theorem item_indices_iff parts k :
  In k (item_indices parts) <-> exists p, nth_error parts k = Some p /\ sp_is_pragma p = false.
Proof.
  unfold item_indices. rewrite indexed_idx, item_indices_idx. rewrite Nat.sub_0_r.
  split; intros [p H]; exists p; [tauto|]. split; [tauto|]. split; [lia|tauto].
Qed.

Lemma nth_error_app_mid {A} (P1 : list A) p P2 : nth_error (P1 ++ p :: P2) (List.length P1) = Some p.
Proof. rewrite nth_error_app2 by lia. rewrite Nat.sub_diag. reflexivity. Qed.

(* a per-part projection that is empty on pragmas sees only the item in the isolated file *)
Lemma flat_map_pragmas_nil {B} (g : SourceUnitPart -> list B) P :
  (forall q, sp_is_pragma q = true -> g q = []) -> flat_map g (filter sp_is_pragma P) = [].
Proof.
  intros H. induction P as [|q P IH]; [reflexivity|]. cbn [filter].
  destruct (sp_is_pragma q) eqn:E; [|exact IH]. cbn [flat_map]. rewrite (H q E), IH. reflexivity.
Qed.

Lemma flat_map_isolated {B} (g : SourceUnitPart -> list B) P1 p P2 :
  (forall q, sp_is_pragma q = true -> g q = []) ->
  flat_map g (filter sp_is_pragma P1 ++ p :: filter sp_is_pragma P2) = g p.
Proof.
  intros H. rewrite flat_map_app. cbn [flat_map]. rewrite !flat_map_pragmas_nil by exact H.
  cbn [app]. apply app_nil_r.
Qed.

(* ================================================================ per-part projections *)
Definition part_exprs (p : SourceUnitPart) : list Expression := exprs_in (pre_SourceUnitPart p).
Definition part_vars (p : SourceUnitPart) : list VariableDefinition :=
  match p with SourceUnitPart_ContractDefinition c => variables_of c | _ => [] end.
Definition part_fns (p : SourceUnitPart) : list FunctionDefinition :=
  match p with SourceUnitPart_ContractDefinition c => functions_of c | _ => [] end.

Lemma flat_map_flat_map {A B C} (f : A -> list B) (g : B -> list C) l :
  flat_map g (flat_map f l) = flat_map (fun x => flat_map g (f x)) l.
Proof. induction l as [|x l IH]; [reflexivity|]. cbn [flat_map]. rewrite flat_map_app, IH. reflexivity. Qed.

Lemma all_exprs_parts parts : all_exprs (Mk_SourceUnit parts) = flat_map part_exprs parts.
Proof.
  unfold all_exprs, all_nodes, pre, pre_SourceUnit, exprs_in. cbn [flat_map app].
  apply flat_map_flat_map.
Qed.

Lemma state_variables_parts parts : state_variables (Mk_SourceUnit parts) = flat_map part_vars parts.
Proof.
  unfold state_variables, contracts. rewrite flat_map_flat_map. apply flat_map_ext.
  intros p. destruct p; cbn [flat_map part_vars]; rewrite ?app_nil_r; reflexivity.
Qed.

Lemma member_functions_parts parts : member_functions (Mk_SourceUnit parts) = flat_map part_fns parts.
Proof.
  unfold member_functions, contracts. rewrite flat_map_flat_map. apply flat_map_ext.
  intros p. destruct p; cbn [flat_map part_fns]; rewrite ?app_nil_r; reflexivity.
Qed.

Lemma part_exprs_pragma q : sp_is_pragma q = true -> part_exprs q = [].
Proof. destruct q; try discriminate. reflexivity. Qed.
Lemma part_vars_pragma q : sp_is_pragma q = true -> part_vars q = [].
Proof. destruct q; try discriminate. reflexivity. Qed.
Lemma part_fns_pragma q : sp_is_pragma q = true -> part_fns q = [].
Proof. destruct q; try discriminate. reflexivity. Qed.

Lemma item_state_vars_names p : item_state_vars p = map var_name (part_vars p).
Proof. destruct p; reflexivity. Qed.

(* ================================================================ the target of a write form lies in the same pre-order *)
Definition WC (L : list node) : Prop :=
  forall e t, In (N_Expression e) L -> sp_write_target e = Some t -> In (N_Expression t) L.

Lemma WC_nil : WC [].
Proof. intros e t []. Qed.
Lemma WC_app a b : WC a -> WC b -> WC (a ++ b).
Proof.
  intros Ha Hb e t Hin Ht. apply in_app_or in Hin. apply in_or_app.
  destruct Hin as [Hin|Hin]; [left; exact (Ha e t Hin Ht)|right; exact (Hb e t Hin Ht)].
Qed.
Lemma WC_flat_map {A} (f : A -> list node) l : Forall (fun x => WC (f x)) l -> WC (flat_map f l).
Proof. induction 1 as [|x l Hx Hl IH]; cbn [flat_map]; [apply WC_nil|apply WC_app; assumption]. Qed.
Lemma WC_flat_map_all {A} (f : A -> list node) l : (forall x, WC (f x)) -> WC (flat_map f l).
Proof. intros H. apply WC_flat_map. apply Forall_forall. intros x _. apply H. Qed.
Lemma WC_cons_other n L : (forall e, n <> N_Expression e) -> WC L -> WC (n :: L).
Proof.
  intros Hn HL e t [Hin|Hin] Ht; [exfalso; exact (Hn e Hin)|]. right. exact (HL e t Hin Ht).
Qed.
Lemma WC_cons_expr x L :
  (forall t, sp_write_target x = Some t -> In (N_Expression t) L) -> WC L -> WC (N_Expression x :: L).
Proof.
  intros Hx HL e t [Hin|Hin] Ht; right.
  - inversion Hin; subst. exact (Hx t Ht).
  - exact (HL e t Hin Ht).
Qed.
Lemma pre_Expression_head e : In (N_Expression e) (pre_Expression e).
Proof. destruct e; left; reflexivity. Qed.

Ltac wc_leaf :=
  lazymatch goal with
  | |- WC (_ ++ _) => apply WC_app; wc_leaf
  | |- WC [] => apply WC_nil
  | |- WC (flat_map _ ?l) =>
      match goal with
      | H : Forall _ l |- _ =>
          apply WC_flat_map; eapply Forall_impl; [| exact H];
          let x := fresh "x" in let Hx := fresh "Hx" in
          intros x Hx; cbv beta in Hx |- *; prep; wc_leaf
      end
  | |- _ => match goal with H : ?g |- ?g => exact H end
  end.

Ltac wc_target :=
  let t := fresh "t" in let Ht := fresh "Ht" in
  intros t Ht; cbn [sp_write_target] in Ht; first [discriminate Ht | idtac];
  inversion Ht; subst;
  first [ apply pre_Expression_head | apply in_or_app; left; apply pre_Expression_head ].

Ltac wc_arm :=
  intros; unf_pre; prep;
  lazymatch goal with
  | |- WC (N_Expression _ :: _) => apply WC_cons_expr; [wc_target | wc_leaf]
  | |- WC (N_Statement _ :: _) => apply WC_cons_other; [intros ? ?; discriminate | wc_leaf]
  | |- _ => wc_leaf
  end.

Theorem wc_mut :
  (forall x, WC (pre_Ty x)) /\
  (forall x, WC (pre_VariableDeclaration x)) /\
  (forall x, WC (pre_Base x)) /\
  (forall x, WC (pre_NamedArgument x)) /\
  (forall x, WC (pre_Expression x)) /\
  (forall x, WC (pre_Param x)) /\
  (forall x, WC (pre_FunctionAttribute x)) /\
  (forall x, WC (pre_Statement x)) /\
  (forall x, WC (pre_CatchClause x)).
Proof. apply Pt_mutind; wc_arm. Qed.

Definition wc_Expression := proj1 (proj2 (proj2 (proj2 (proj2 wc_mut)))).
Definition wc_Statement := proj1 (proj2 (proj2 (proj2 (proj2 (proj2 (proj2 (proj2 wc_mut))))))).
Definition wc_Base := proj1 (proj2 (proj2 wc_mut)).
Definition wc_Param := proj1 (proj2 (proj2 (proj2 (proj2 (proj2 wc_mut))))).
Definition wc_FunctionAttribute := proj1 (proj2 (proj2 (proj2 (proj2 (proj2 (proj2 wc_mut)))))).
Definition wc_VariableDeclaration := proj1 (proj2 wc_mut).

Lemma wc_params ps :
  WC (flat_map (fun p : Loc * option Param => match p with (_, op) => match op with Some q => pre_Param q | None => [] end end) ps).
Proof. apply WC_flat_map_all. intros [l [q|]]; [apply wc_Param | apply WC_nil]. Qed.

Lemma wc_FunctionDefinition f : WC (pre_FunctionDefinition f).
Proof.
  destruct f. unfold pre_FunctionDefinition. repeat apply WC_app.
  - apply wc_params.
  - apply WC_flat_map_all. apply wc_FunctionAttribute.
  - apply wc_params.
  - match goal with |- WC (match ?b with _ => _ end) => destruct b end; [apply wc_Statement | apply WC_nil].
Qed.
Lemma wc_VariableDefinition v : WC (pre_VariableDefinition v).
Proof.
  destruct v. unfold pre_VariableDefinition. apply WC_app; [apply wc_Expression|].
  match goal with |- WC (match ?b with _ => _ end) => destruct b end; [apply wc_Expression | apply WC_nil].
Qed.
Lemma wc_StructDefinition d : WC (pre_StructDefinition d).
Proof. destruct d. unfold pre_StructDefinition. apply WC_flat_map_all. apply wc_VariableDeclaration. Qed.
Lemma wc_EventDefinition d : WC (pre_EventDefinition d).
Proof. destruct d. unfold pre_EventDefinition. apply WC_flat_map_all. intros []. apply wc_Expression. Qed.
Lemma wc_ErrorDefinition d : WC (pre_ErrorDefinition d).
Proof. destruct d. unfold pre_ErrorDefinition. apply WC_flat_map_all. intros []. apply wc_Expression. Qed.
Lemma wc_TypeDefinition d : WC (pre_TypeDefinition d).
Proof. destruct d. apply wc_Expression. Qed.
Lemma wc_Using d : WC (pre_Using d).
Proof.
  destruct d. unfold pre_Using.
  match goal with |- WC (match ?b with _ => _ end) => destruct b end; [apply wc_Expression | apply WC_nil].
Qed.

Lemma wc_ContractPart p : WC (pre_ContractPart p).
Proof.
  unfold pre_ContractPart. apply WC_cons_other; [intros e; discriminate|].
  destruct p; first
    [ apply wc_StructDefinition | apply wc_EventDefinition | apply wc_ErrorDefinition
    | apply wc_VariableDefinition | apply wc_FunctionDefinition | apply wc_TypeDefinition
    | apply wc_Using | apply WC_nil ].
Qed.

Lemma wc_ContractDefinition c : WC (pre_ContractDefinition c).
Proof.
  destruct c. unfold pre_ContractDefinition. apply WC_app; apply WC_flat_map_all; [apply wc_Base|apply wc_ContractPart].
Qed.

Lemma wc_SourceUnitPart p : WC (pre_SourceUnitPart p).
Proof.
  unfold pre_SourceUnitPart. apply WC_cons_other; [intros e; discriminate|].
  destruct p; first
    [ apply wc_ContractDefinition | apply wc_StructDefinition | apply wc_EventDefinition | apply wc_ErrorDefinition
    | apply wc_VariableDefinition | apply wc_FunctionDefinition | apply wc_TypeDefinition
    | apply wc_Using | apply WC_nil ].
Qed.

Lemma in_exprs_in e ns : In e (exprs_in ns) <-> In (N_Expression e) ns.
Proof.
  unfold exprs_in. rewrite in_flat_map. split.
  - intros [n [Hn He]]. destruct n; try contradiction. destruct He as [<-|[]]. exact Hn.
  - intros H. exists (N_Expression e). split; [exact H|left; reflexivity].
Qed.

(* a write to the identifier id in a part makes that part mention id *)
Lemma write_mentions p e id :
  In e (part_exprs p) -> sp_write_target e = Some (Expression_Variable id) ->
  In (idname id) (item_var_mentions p).
Proof.
  intros He Ht. unfold item_var_mentions. apply in_flat_map. exists (Expression_Variable id).
  split; [|left; reflexivity]. apply in_exprs_in. unfold part_exprs in He. apply in_exprs_in in He.
  exact (wc_SourceUnitPart p e _ He Ht).
Qed.

Lemma sp_written_target e x :
  In x (sp_written e) <-> exists id, sp_write_target e = Some (Expression_Variable id) /\ idname id = x.
Proof.
  unfold sp_written. destruct (sp_write_target e) as [t|].
  - destruct t; try (split; [intros []|intros [id [H _]]; discriminate H]).
    split.
    + intros [<-|[]]. eexists. split; reflexivity.
    + intros [id [H <-]]. inversion H. left. reflexivity.
  - split; [intros []|intros [id [H _]]; discriminate H].
Qed.

(* the expressions of a member function are expressions of its contract *)
Lemma fn_exprs_in_part p f e :
  In f (part_fns p) -> In e (exprs_in (pre_ContractPart (ContractPart_FunctionDefinition f))) -> In e (part_exprs p).
Proof.
  intros Hf He. destruct p; try contradiction. cbn [part_fns] in Hf.
  unfold functions_of in Hf. apply in_flat_map in Hf. destruct Hf as [cp [Hcp Hf]].
  destruct cp; try contradiction. destruct Hf as [<-|[]].
  unfold part_exprs. apply in_exprs_in. apply in_exprs_in in He.
  unfold pre_SourceUnitPart. right.
  match goal with |- In _ (pre_ContractDefinition ?c) => destruct c end.
  unfold pre_ContractDefinition. cbn [ContractDefinition_parts] in Hcp. apply in_or_app. right.
  apply in_flat_map. eexists. split; [exact Hcp|exact He].
Qed.

(* ================================================================ the table entry of a name depends only on the declarations of that name *)
Section TableLocal.
  Variables ic ii : bool.
  Variable x : string.

  Lemma add_var_in m v e :
    In (x, e) (add_var ic ii m v) <->
    if cand ic ii v then (x = var_name v /\ e = entry v) \/ (In (x, e) m /\ x <> var_name v) else In (x, e) m.
  Proof. rewrite add_var_cases. destruct (cand ic ii v); [apply sm_insert_in|tauto]. Qed.

  Lemma fold_agree vs m m' :
    (forall e, In (x, e) m <-> In (x, e) m') ->
    forall e, In (x, e) (fold_left (add_var ic ii) vs m) <-> In (x, e) (fold_left (add_var ic ii) vs m').
  Proof.
    revert m m'. induction vs as [|v vs IH]; intros m m' H; [exact H|].
    cbn [fold_left]. apply IH. intros e. rewrite !add_var_in. destruct (cand ic ii v); [|apply H].
    rewrite (H e). tauto.
  Qed.

  Definition named (v : VariableDefinition) : bool := String.eqb x (var_name v).

  Lemma fold_named vs m e :
    In (x, e) (fold_left (add_var ic ii) vs m) <-> In (x, e) (fold_left (add_var ic ii) (filter named vs) m).
  Proof.
    revert m. induction vs as [|v vs IH]; intros m; [tauto|].
    cbn [fold_left filter]. unfold named at 1. destruct (String.eqb x (var_name v)) eqn:E.
    - cbn [fold_left]. apply IH.
    - apply String.eqb_neq in E. rewrite <- IH. apply fold_agree. intros e'. rewrite add_var_in.
      destruct (cand ic ii v); tauto.
  Qed.

  Lemma filter_named_nil vs : ~ In x (map var_name vs) -> filter named vs = [].
  Proof.
    induction vs as [|v vs IH]; intros H; [reflexivity|]. cbn [filter]. unfold named at 1.
    destruct (String.eqb x (var_name v)) eqn:E.
    - apply String.eqb_eq in E. exfalso. apply H. left. symmetry. exact E.
    - apply IH. intros Hin. apply H. right. exact Hin.
  Qed.
End TableLocal.

(* ================================================================ membership in the three closed forms *)
Lemma contains_ex {V} k (m : smap V) : sm_contains k m = true <-> exists e, In (k, e) m.
Proof.
  rewrite sm_contains_iff. unfold keys. rewrite in_map_iff. split.
  - intros [[k' e] [Hk Hin]]. cbn in Hk. subst k'. exists e. exact Hin.
  - intros [e Hin]. exists (k, e). split; [reflexivity|exact Hin].
Qed.

Definition sstore_F (su : SourceUnit) : list Loc :=
  flat_map (fun e => match e with
                     | Expression_Assign loc (Expression_Variable id) _ =>
                         if sm_contains (name_of id) (sv_table true true su) then [loc] else []
                     | _ => [] end) (all_exprs su).

Lemma sstore_F_in su l :
  In l (sstore_F su) <->
  exists id r, In (Expression_Assign l (Expression_Variable id) r) (all_exprs su) /\
               exists e, In (name_of id, e) (sv_table true true su).
Proof.
  unfold sstore_F. rewrite in_flat_map. split.
  - intros [e [He Hl]]. destruct e; try contradiction.
    match type of Hl with context [match ?t with Expression_Variable _ => _ | _ => _ end] => destruct t; try contradiction end.
    match type of Hl with context [sm_contains ?k ?m] => destruct (sm_contains k m) eqn:Ec; [|contradiction] end.
    destruct Hl as [<-|[]]. apply contains_ex in Ec. do 2 eexists. split; [exact He|exact Ec].
  - intros [id [r [He Hc]]]. apply contains_ex in Hc. eexists. split; [exact He|]. cbv beta iota. rewrite Hc.
    left. reflexivity.
Qed.

Definition constant_F (su : SourceUnit) : list Loc :=
  map (fun kv => snd (snd kv))
      (fold_left rm_written (exprs_in (extract_targets_from_node write_targets (root su))) (sv_table true false su)).

Lemma constant_F_in su l :
  In l (constant_F su) <->
  exists x e, In (x, e) (sv_table true false su) /\ ~ In x (flat_map sp_written (all_exprs su)) /\ l = snd e.
Proof.
  unfold constant_F. rewrite in_map_iff. split.
  - intros [[x e] [Hl Hin]]. cbn [snd] in Hl. apply rm_written_in in Hin. rewrite written_of_extract in Hin.
    exists x, e. split; [exact (proj1 Hin)|]. split; [exact (proj2 Hin)|symmetry; exact Hl].
  - intros [x [e [Ht [Hw ->]]]]. exists (x, e). split; [reflexivity|]. apply rm_written_in.
    rewrite written_of_extract. split; assumption.
Qed.

Definition WO (su : SourceUnit) : list string :=
  flat_map (fun f => if is_constructor f then [] else flat_map sp_written (write_exprs f)) (member_functions su).
Definition immutable_F (su : SourceUnit) : list Loc :=
  map snd (fold_left rm_step (member_functions su)
                     (fold_left (pot_step (sv_table true true su)) (member_functions su) [])).
Definition ctor_assigns (su : SourceUnit) (x : string) : Prop :=
  exists f a id rhs, In f (member_functions su) /\ is_constructor f = true /\
                     In (Expression_Assign a (Expression_Variable id) rhs) (ctor_assign_exprs f) /\
                     is_a_non_value_type rhs = false /\ x = name_of id.

Lemma immutable_F_in su l :
  In l (immutable_F su) <->
  exists x ent, In (x, ent) (sv_table true true su) /\ l = snd ent /\ ctor_assigns su x /\ ~ In x (WO su).
Proof.
  unfold immutable_F. rewrite in_map_iff. split.
  - intros [[x l'] [Hl Hin]]. cbn [snd] in Hl. subst l'. apply rm_fold_in in Hin. destruct Hin as [Hin Hw].
    apply pot_fold_in in Hin. destruct Hin as [[]|[[ent [Hg ->]] Hc]].
    exists x, ent. split; [apply sm_get_some_in; exact Hg|]. split; [reflexivity|]. split; [exact Hc|exact Hw].
  - intros [x [ent [Ht [-> [[f [a [id [rhs [Hf [Hc [He [Hn ->]]]]]]]] Hw]]]]].
    exists (name_of id, snd ent). split; [reflexivity|]. apply rm_fold_in. split; [|exact Hw].
    eapply pot_fold_hit; try eassumption. apply sm_get_in; [apply sv_table_nodup|exact Ht].
Qed.

(* ================================================================ one item among the others *)
Section Item.
  Variables (P1 P2 : list SourceUnitPart) (p : SourceUnitPart).
  Local Notation parts := (P1 ++ p :: P2).
  Local Notation iso := (Mk_SourceUnit (filter sp_is_pragma P1 ++ p :: filter sp_is_pragma P2)).
  Hypothesis Hncm : forall q x, In q (P1 ++ P2) -> In x (item_state_vars p) ->
                                ~ In x (item_var_mentions q) /\ ~ In x (item_state_vars q).

  Lemma iso_exprs : all_exprs iso = part_exprs p.
  Proof. rewrite all_exprs_parts. apply flat_map_isolated. apply part_exprs_pragma. Qed.
  Lemma iso_vars : state_variables iso = part_vars p.
  Proof. rewrite state_variables_parts. apply flat_map_isolated. apply part_vars_pragma. Qed.
  Lemma iso_fns : member_functions iso = part_fns p.
  Proof. rewrite member_functions_parts. apply flat_map_isolated. apply part_fns_pragma. Qed.

  Lemma in_parts q : In q parts -> q = p \/ In q (P1 ++ P2).
  Proof.
    intros H. apply in_app_or in H. destruct H as [H|[H|H]].
    - right. apply in_or_app. left. exact H.
    - left. symmetry. exact H.
    - right. apply in_or_app. right. exact H.
  Qed.

  Lemma iso_exprs_incl : incl (all_exprs iso) (all_exprs (Mk_SourceUnit parts)).
  Proof.
    rewrite iso_exprs, all_exprs_parts. intros e He. apply in_flat_map. exists p. split; [|exact He].
    apply in_or_app. right. left. reflexivity.
  Qed.
  Lemma iso_vars_incl : incl (state_variables iso) (state_variables (Mk_SourceUnit parts)).
  Proof.
    rewrite iso_vars, state_variables_parts. intros e He. apply in_flat_map. exists p. split; [|exact He].
    apply in_or_app. right. left. reflexivity.
  Qed.
  Lemma iso_fns_incl : incl (member_functions iso) (member_functions (Mk_SourceUnit parts)).
  Proof.
    rewrite iso_fns, member_functions_parts. intros e He. apply in_flat_map. exists p. split; [|exact He].
    apply in_or_app. right. left. reflexivity.
  Qed.

  (* a part in which a state variable of p is written is p *)
  Lemma writer_is_p q e id :
    In q parts -> In e (part_exprs q) -> sp_write_target e = Some (Expression_Variable id) ->
    In (idname id) (item_state_vars p) -> q = p.
  Proof.
    intros Hq He Ht Hx. destruct (in_parts q Hq) as [E|Ho]; [exact E|].
    exfalso. apply (proj1 (Hncm q _ Ho Hx)). eapply write_mentions; eassumption.
  Qed.

  Lemma write_local e id :
    In e (all_exprs (Mk_SourceUnit parts)) -> sp_write_target e = Some (Expression_Variable id) ->
    In (idname id) (item_state_vars p) -> In e (all_exprs iso).
  Proof.
    intros He Ht Hx. rewrite all_exprs_parts in He. apply in_flat_map in He. destruct He as [q [Hq He]].
    rewrite iso_exprs. rewrite <- (writer_is_p q e id Hq He Ht Hx). exact He.
  Qed.

  Lemma fn_write_local f e id :
    In f (member_functions (Mk_SourceUnit parts)) ->
    In e (exprs_in (pre_ContractPart (ContractPart_FunctionDefinition f))) ->
    sp_write_target e = Some (Expression_Variable id) ->
    In (idname id) (item_state_vars p) -> In f (member_functions iso).
  Proof.
    intros Hf He Ht Hx. rewrite member_functions_parts in Hf. apply in_flat_map in Hf. destruct Hf as [q [Hq Hf]].
    rewrite iso_fns. rewrite <- (writer_is_p q e id Hq (fn_exprs_in_part q f e Hf He) Ht Hx). exact Hf.
  Qed.

  (* no other part declares a state variable of p *)
  Lemma others_dont_declare P x :
    incl P (P1 ++ P2) -> In x (item_state_vars p) -> ~ In x (map var_name (flat_map part_vars P)).
  Proof.
    intros HP Hx Hin. apply in_map_iff in Hin. destruct Hin as [v [Hv Hin]].
    apply in_flat_map in Hin. destruct Hin as [q [Hq Hin]].
    apply (proj2 (Hncm q x (HP q Hq) Hx)). rewrite item_state_vars_names, <- Hv. apply in_map. exact Hin.
  Qed.

  Theorem table_local ic ii x e :
    In x (item_state_vars p) ->
    (In (x, e) (sv_table ic ii (Mk_SourceUnit parts)) <-> In (x, e) (sv_table ic ii iso)).
  Proof.
    intros Hx. unfold sv_table. rewrite iso_vars, state_variables_parts.
    rewrite (fold_named ic ii x (flat_map part_vars (P1 ++ p :: P2))).
    rewrite flat_map_app. cbn [flat_map]. rewrite !filter_app.
    rewrite (filter_named_nil x (flat_map part_vars P1)), (filter_named_nil x (flat_map part_vars P2)).
    - cbn [app]. rewrite app_nil_r. symmetry. apply fold_named.
    - apply others_dont_declare; [|exact Hx]. apply incl_appr, incl_refl.
    - apply others_dont_declare; [|exact Hx]. apply incl_appl, incl_refl.
  Qed.

  Lemma declared_here ic ii x e : In (x, e) (sv_table ic ii iso) -> In x (item_state_vars p).
  Proof.
    intros H. apply sv_table_sound in H. destruct H as [v [Hv [_ [-> _]]]]. rewrite iso_vars in Hv.
    rewrite item_state_vars_names. apply in_map. exact Hv.
  Qed.

  (* ---------------------------------------------------------------- sstore *)
  Lemma sstore_fwd l id r e :
    In (name_of id) (item_state_vars p) ->
    In (Expression_Assign l (Expression_Variable id) r) (all_exprs (Mk_SourceUnit parts)) ->
    In (name_of id, e) (sv_table true true (Mk_SourceUnit parts)) ->
    In l (sstore_F iso).
  Proof.
    intros Hx He Ht. apply sstore_F_in. exists id, r. split.
    - eapply write_local; [exact He|reflexivity|exact Hx].
    - exists e. apply table_local; assumption.
  Qed.

  Lemma sstore_bwd l : In l (sstore_F iso) -> In l (sstore_F (Mk_SourceUnit parts)).
  Proof.
    intros H. apply sstore_F_in in H. destruct H as [id [r [He [e Ht]]]].
    apply sstore_F_in. exists id, r. split; [apply iso_exprs_incl; exact He|].
    exists e. apply table_local; [|exact Ht]. eapply declared_here. exact Ht.
  Qed.

  (* ---------------------------------------------------------------- constant_variables *)
  Lemma constant_fwd x e :
    In x (item_state_vars p) ->
    In (x, e) (sv_table true false (Mk_SourceUnit parts)) ->
    ~ In x (flat_map sp_written (all_exprs (Mk_SourceUnit parts))) ->
    In (snd e) (constant_F iso).
  Proof.
    intros Hx Ht Hw. apply constant_F_in. exists x, e. split; [apply table_local; assumption|]. split; [|reflexivity].
    intros Hin. apply Hw. apply in_flat_map in Hin. destruct Hin as [e' [He' Hin]].
    apply in_flat_map. exists e'. split; [apply iso_exprs_incl; exact He'|exact Hin].
  Qed.

  Lemma constant_bwd l : In l (constant_F iso) -> In l (constant_F (Mk_SourceUnit parts)).
  Proof.
    intros H. apply constant_F_in in H. destruct H as [x [e [Ht [Hw ->]]]].
    assert (Hx : In x (item_state_vars p)) by (eapply declared_here; exact Ht).
    apply constant_F_in. exists x, e. split; [apply table_local; assumption|]. split; [|reflexivity].
    intros Hin. apply Hw. apply in_flat_map in Hin. destruct Hin as [e' [He' Hin]].
    apply in_flat_map. exists e'. split; [|exact Hin].
    apply sp_written_target in Hin. destruct Hin as [id [Htg Hid]].
    eapply write_local; [exact He'|exact Htg|]. rewrite Hid. exact Hx.
  Qed.

  (* ---------------------------------------------------------------- immutable_variables *)
  Lemma ctor_assigns_fwd x :
    In x (item_state_vars p) -> ctor_assigns (Mk_SourceUnit parts) x -> ctor_assigns iso x.
  Proof.
    intros Hx [f [a [id [rhs [Hf [Hc [He [Hn Hk]]]]]]]]. exists f, a, id, rhs.
    split; [|repeat split; assumption].
    eapply (fn_write_local f (Expression_Assign a (Expression_Variable id) rhs) id); [exact Hf| |reflexivity|].
    - unfold ctor_assign_exprs in He. apply assign_in_extract in He; [exact He|do 3 eexists; reflexivity].
    - change (idname id) with (name_of id). rewrite <- Hk. exact Hx.
  Qed.

  Lemma ctor_assigns_bwd x : ctor_assigns iso x -> ctor_assigns (Mk_SourceUnit parts) x.
  Proof.
    intros [f [a [id [rhs [Hf H]]]]]. exists f, a, id, rhs. split; [apply iso_fns_incl; exact Hf|exact H].
  Qed.

  Lemma WO_fwd x : In x (WO iso) -> In x (WO (Mk_SourceUnit parts)).
  Proof.
    unfold WO. intros H. apply in_flat_map in H. destruct H as [f [Hf H]]. apply in_flat_map.
    exists f. split; [apply iso_fns_incl; exact Hf|exact H].
  Qed.

  Lemma WO_bwd x : In x (item_state_vars p) -> In x (WO (Mk_SourceUnit parts)) -> In x (WO iso).
  Proof.
    unfold WO. intros Hx H. apply in_flat_map in H. destruct H as [f [Hf H]]. apply in_flat_map.
    exists f. split; [|exact H]. destruct (is_constructor f); [destruct H|].
    unfold write_exprs in H. rewrite written_of_extract in H. unfold written_in in H.
    apply in_flat_map in H. destruct H as [e' [He' Hin]].
    apply sp_written_target in Hin. destruct Hin as [id [Htg Hid]].
    eapply (fn_write_local f e' id); [exact Hf|exact He'|exact Htg|]. rewrite Hid. exact Hx.
  Qed.

  Lemma immutable_fwd x ent :
    In x (item_state_vars p) ->
    In (x, ent) (sv_table true true (Mk_SourceUnit parts)) ->
    ctor_assigns (Mk_SourceUnit parts) x -> ~ In x (WO (Mk_SourceUnit parts)) ->
    In (snd ent) (immutable_F iso).
  Proof.
    intros Hx Ht Hc Hw. apply immutable_F_in. exists x, ent. split; [apply table_local; assumption|].
    split; [reflexivity|]. split; [apply ctor_assigns_fwd; assumption|].
    intros H. apply Hw. apply WO_fwd. exact H.
  Qed.

  Lemma immutable_bwd l : In l (immutable_F iso) -> In l (immutable_F (Mk_SourceUnit parts)).
  Proof.
    intros H. apply immutable_F_in in H. destruct H as [x [ent [Ht [-> [Hc Hw]]]]].
    assert (Hx : In x (item_state_vars p)) by (eapply declared_here; exact Ht).
    apply immutable_F_in. exists x, ent. split; [apply table_local; assumption|].
    split; [reflexivity|]. split; [apply ctor_assigns_bwd; exact Hc|].
    intros H. apply Hw. apply WO_bwd; assumption.
  Qed.
End Item.

(* ================================================================ from the hypothesis on indices to the split form *)
Lemma ncm_split P1 p P2 :
  no_cross_mentions (P1 ++ p :: P2) ->
  forall q x, In q (P1 ++ P2) -> In x (item_state_vars p) ->
              ~ In x (item_var_mentions q) /\ ~ In x (item_state_vars q).
Proof.
  intros H q x Hq Hx. apply in_app_or in Hq. destruct Hq as [Hq|Hq].
  - apply In_nth_error in Hq. destruct Hq as [i Hi].
    assert (Hlt : i < List.length P1) by (apply nth_error_Some; rewrite Hi; discriminate).
    apply (H (List.length P1) i p q); [lia|apply nth_error_app_mid| |exact Hx].
    rewrite nth_error_app1 by exact Hlt. exact Hi.
  - apply In_nth_error in Hq. destruct Hq as [i Hi].
    apply (H (List.length P1) (List.length P1 + S i) p q); [lia|apply nth_error_app_mid| |exact Hx].
    rewrite nth_error_app2 by lia. replace (List.length P1 + S i - List.length P1) with (S i) by lia. exact Hi.
Qed.

(* the part that owns a table entry *)
Lemma owner ic ii parts x e :
  In (x, e) (sv_table ic ii (Mk_SourceUnit parts)) ->
  exists P1 p P2, parts = P1 ++ p :: P2 /\ In x (item_state_vars p) /\ sp_is_pragma p = false.
Proof.
  intros H. apply sv_table_sound in H. destruct H as [v [Hv [_ [-> _]]]].
  rewrite state_variables_parts in Hv. apply in_flat_map in Hv. destruct Hv as [q [Hq Hv]].
  apply in_split in Hq. destruct Hq as [P1 [P2 ->]]. exists P1, q, P2. split; [reflexivity|]. split.
  - rewrite item_state_vars_names. apply in_map. exact Hv.
  - destruct q; try reflexivity. destruct Hv.
Qed.

Lemma mid_is_item P1 p P2 : sp_is_pragma p = false -> In (List.length P1) (item_indices (P1 ++ p :: P2)).
Proof. intros Hp. apply item_indices_iff. exists p. split; [apply nth_error_app_mid|exact Hp]. Qed.

Lemma composes_of_closed (d : SourceUnit -> res (list Loc)) (F : SourceUnit -> list Loc) :
  (forall su, d su = Ok (F su)) ->
  (forall parts, no_cross_mentions parts ->
     forall l, In l (F (Mk_SourceUnit parts)) <->
               exists k, In k (item_indices parts) /\ In l (F (isolate parts k))) ->
  composes d.
Proof.
  intros Hd HF parts _ Hn locs Hl. rewrite Hd in Hl. inversion Hl; subst locs.
  exists (map (fun k => F (isolate parts k)) (item_indices parts)). split.
  - apply mapM_ok_ext. intros k. apply Hd.
  - intros l. rewrite (HF parts Hn l). split.
    + intros [k [Hk H]]. apply in_concat. exists (F (isolate parts k)). split; [|exact H].
      apply in_map_iff. exists k. split; [reflexivity|exact Hk].
    + intros H. apply in_concat in H. destruct H as [ls [Hls H]]. apply in_map_iff in Hls.
      destruct Hls as [k [<- Hk]]. exists k. split; assumption.
Qed.

(* backward direction, shared: an item index splits the file around the item *)
Lemma item_split parts k :
  In k (item_indices parts) -> exists P1 p P2, parts = P1 ++ p :: P2 /\ List.length P1 = k.
Proof.
  intros Hk. apply item_indices_iff in Hk. destruct Hk as [p [Hnth _]].
  apply nth_error_split in Hnth. destruct Hnth as [P1 [P2 [-> <-]]]. exists P1, p, P2. split; reflexivity.
Qed.

(* ================================================================ the three theorems *)
Theorem sstore_composes : composes sstore_optimization.
Proof.
  apply (composes_of_closed _ sstore_F); [exact sstore_closed|]. intros parts Hn l. split.
  - intros H. apply sstore_F_in in H. destruct H as [id [r [He [e Ht]]]].
    destruct (owner _ _ _ _ _ Ht) as [P1 [p [P2 [-> [Hx Hp]]]]].
    exists (List.length P1). split; [apply mid_is_item; exact Hp|]. rewrite isolate_split.
    exact (sstore_fwd P1 P2 p (ncm_split _ _ _ Hn) l id r e Hx He Ht).
  - intros [k [Hk H]]. destruct (item_split _ _ Hk) as [P1 [p [P2 [-> <-]]]]. rewrite isolate_split in H.
    exact (sstore_bwd P1 P2 p (ncm_split _ _ _ Hn) l H).
Qed.

Theorem constant_variable_composes : composes constant_variable_optimization.
Proof.
  apply (composes_of_closed _ constant_F); [exact constant_closed|]. intros parts Hn l. split.
  - intros H. apply constant_F_in in H. destruct H as [x [e [Ht [Hw ->]]]].
    destruct (owner _ _ _ _ _ Ht) as [P1 [p [P2 [-> [Hx Hp]]]]].
    exists (List.length P1). split; [apply mid_is_item; exact Hp|]. rewrite isolate_split.
    exact (constant_fwd P1 P2 p (ncm_split _ _ _ Hn) x e Hx Ht Hw).
  - intros [k [Hk H]]. destruct (item_split _ _ Hk) as [P1 [p [P2 [-> <-]]]]. rewrite isolate_split in H.
    exact (constant_bwd P1 P2 p (ncm_split _ _ _ Hn) l H).
Qed.

Theorem immutable_variables_composes : composes immutable_variables_optimization.
Proof.
  apply (composes_of_closed _ immutable_F); [exact immutable_closed|]. intros parts Hn l. split.
  - intros H. apply immutable_F_in in H. destruct H as [x [ent [Ht [-> [Hc Hw]]]]].
    destruct (owner _ _ _ _ _ Ht) as [P1 [p [P2 [-> [Hx Hp]]]]].
    exists (List.length P1). split; [apply mid_is_item; exact Hp|]. rewrite isolate_split.
    exact (immutable_fwd P1 P2 p (ncm_split _ _ _ Hn) x ent Hx Ht Hc Hw).
  - intros [k [Hk H]]. destruct (item_split _ _ Hk) as [P1 [p [P2 [-> <-]]]]. rewrite isolate_split in H.
    exact (immutable_bwd P1 P2 p (ncm_split _ _ _ Hn) l H).
Qed.

Print Assumptions sstore_composes.
Print Assumptions constant_variable_composes.
Print Assumptions immutable_variables_composes.
