(* C17 (model part), continued: equivariance under renaming of locations of the closed forms of
   15 further detectors, and the lift of all 20 closed-form results to the DETECTOR level
   (`equivariant r detector`).  Only increment_decrement compares locations (sp_Loc_eqb) and
   therefore needs the renaming to be injective. *)
From Coq Require Import List String Ascii NArith ZArith Bool.
Import ListNotations.
From Solstat Require Import Lift Pt Walk Res Nodes Utils Detectors WalkProof Patterns Patterns2 DetBase
     DetC05 DetC05b DetC06 DetC07 MapLoc Equivariance.
Local Open Scope string_scope.
Local Open Scope list_scope.

(* the uniform detector-level statement *)
Definition equivariant (r : Loc -> Loc) (d : SourceUnit -> res (list Loc)) : Prop :=
  forall su locs, d su = Ok locs ->
  exists locs', d (mapl_SourceUnit r su) = Ok locs' /\ forall l, In l locs' <-> In l (map r locs).

(* ---------------------------------------------------------------- list lemmas *)
Lemma flat_map_map_gen {A B C D} (f : A -> list C) (f' : B -> list D) (g : B -> A) (h : D -> C) l :
  (forall x, f (g x) = map h (f' x)) -> flat_map f (map g l) = map h (flat_map f' l).
Proof.
  intros H. induction l as [|x l IH]; [reflexivity|]. cbn [map flat_map]. rewrite map_app, H, IH. reflexivity.
Qed.

Lemma existsb_map_pred {A} (p : A -> bool) (g : A -> A) l :
  (forall x, p (g x) = p x) -> existsb p (map g l) = existsb p l.
Proof. intros H. induction l as [|x l IH]; [reflexivity|]. cbn [map existsb]. rewrite H, IH. reflexivity. Qed.

Lemma existsb_map_gen {A B} (p : A -> bool) (q : B -> bool) (g : B -> A) l :
  (forall x, p (g x) = q x) -> existsb p (map g l) = existsb q l.
Proof. intros H. induction l as [|x l IH]; [reflexivity|]. cbn [map existsb]. rewrite H, IH. reflexivity. Qed.

Lemma filter_map_gen {A B} (p : A -> bool) (q : B -> bool) (g : B -> A) l :
  (forall x, p (g x) = q x) -> filter p (map g l) = map g (filter q l).
Proof.
  intros H. induction l as [|x l IH]; [reflexivity|]. cbn [map filter]. rewrite H, IH.
  destruct (q x); reflexivity.
Qed.

Lemma select_equivariant {A} (r : Loc -> Loc) (p : A -> bool) (f : A -> Loc) (m : A -> A) l :
  (forall x, p (m x) = p x) -> (forall x, f (m x) = r (f x)) ->
  select p f (map m l) = map r (select p f l).
Proof.
  intros Hp Hf. unfold select. rewrite (filter_map_gen p p m l Hp), !map_map.
  apply map_ext. exact Hf.
Qed.

Lemma sp_Loc_eqb_eq a b : sp_Loc_eqb a b = true <-> a = b.
Proof.
  destruct a as [f1 s1 e1], b as [f2 s2 e2]. unfold sp_Loc_eqb. rewrite !andb_true_iff, !N.eqb_eq.
  split; [intros [[-> ->] ->]; reflexivity|intros H; inversion H; auto].
Qed.

(* the tactics of Equivariance.v (section-local there), independent of the name of the renaming *)
Ltac mcbn :=
  autorewrite with mapl_eqs; cbn [mapl_Loc map flat_map app];
  rewrite ?idname_mapl, ?idloc_mapl.

Ltac deep :=
  repeat (mcbn;
          match goal with
          | |- context [match mapl_Expression _ ?c with _ => _ end] => destruct c
          | |- context [match mapl_Ty _ ?t with _ => _ end] => destruct t
          | |- context [match map _ ?l with _ => _ end] => destruct l
          | |- context [match (match ?o with Some _ => _ | None => _ end) with _ => _ end] => destruct o
          end);
  mcbn; try reflexivity.

Ltac ifs := try (repeat match goal with |- context [if ?b then _ else _] => destruct b end; reflexivity).
Ltac pred := let e := fresh "e" in intros e; destruct e; try reflexivity; deep.

Section Eqv2.
  Variable r : Loc -> Loc.

  (* ---------------------------------------------------------------- the pre-order of sub-trees *)
  Lemma exprs_pre_Statement_mapl s :
    exprs_in (pre_Statement (mapl_Statement r s)) = map (mapl_Expression r) (exprs_in (pre_Statement s)).
  Proof. rewrite pre_mapl_Statement. apply exprs_in_mapl. Qed.
  Lemma exprs_pre_Expression_mapl e :
    exprs_in (pre_Expression (mapl_Expression r e)) = map (mapl_Expression r) (exprs_in (pre_Expression e)).
  Proof. rewrite pre_mapl_Expression. apply exprs_in_mapl. Qed.

  (* ---------------------------------------------------------------- the declared structure *)
  Lemma contracts_mapl su : contracts (mapl_SourceUnit r su) = map (mapl_ContractDefinition r) (contracts su).
  Proof.
    destruct su as [parts]. unfold mapl_SourceUnit, contracts. apply flat_map_map_gen.
    intros p. destruct p; reflexivity.
  Qed.
  Lemma parts_mapl c :
    ContractDefinition_parts (mapl_ContractDefinition r c) = map (mapl_ContractPart r) (ContractDefinition_parts c).
  Proof. destruct c. reflexivity. Qed.
  Lemma functions_of_mapl c :
    functions_of (mapl_ContractDefinition r c) = map (mapl_FunctionDefinition r) (functions_of c).
  Proof. unfold functions_of. rewrite parts_mapl. apply flat_map_map_gen. intros p. destruct p; reflexivity. Qed.
  Lemma variables_of_mapl c :
    variables_of (mapl_ContractDefinition r c) = map (mapl_VariableDefinition r) (variables_of c).
  Proof. unfold variables_of. rewrite parts_mapl. apply flat_map_map_gen. intros p. destruct p; reflexivity. Qed.
  Lemma member_functions_mapl su :
    member_functions (mapl_SourceUnit r su) = map (mapl_FunctionDefinition r) (member_functions su).
  Proof. unfold member_functions. rewrite contracts_mapl. apply flat_map_map_gen. apply functions_of_mapl. Qed.
  Lemma state_variables_mapl su :
    state_variables (mapl_SourceUnit r su) = map (mapl_VariableDefinition r) (state_variables su).
  Proof. unfold state_variables. rewrite contracts_mapl. apply flat_map_map_gen. apply variables_of_mapl. Qed.

  (* ---------------------------------------------------------------- C05 *)
  Lemma eqne_where_eqv (p : Expression -> bool) su :
    (forall e, p (mapl_Expression r e) = p e) ->
    eqne_where p (mapl_SourceUnit r su) = map r (eqne_where p su).
  Proof.
    intros H. unfold eqne_where. rewrite all_exprs_mapl. apply flat_map_equivariant.
    intros e. destruct e; try reflexivity; mcbn; cbn [eq_ne]; rewrite !H; ifs.
  Qed.

  Lemma check_for_address_zero_mapl : forall e, check_for_address_zero (mapl_Expression r e) = check_for_address_zero e.
  Proof. unfold check_for_address_zero. pred. Qed.

  Theorem address_zero_eqv su :
    eqne_where check_for_address_zero (mapl_SourceUnit r su) = map r (eqne_where check_for_address_zero su).
  Proof. apply eqne_where_eqv. apply check_for_address_zero_mapl. Qed.

  Lemma sp_is_bool_lit_mapl : forall e, sp_is_bool_lit (mapl_Expression r e) = sp_is_bool_lit e.
  Proof. unfold sp_is_bool_lit. pred. Qed.

  Theorem bool_equals_bool_eqv su : spec_bool_equals_bool (mapl_SourceUnit r su) = map r (spec_bool_equals_bool su).
  Proof. apply eqne_where_eqv. apply sp_is_bool_lit_mapl. Qed.
  (* assign_update_array_value *)
  Lemma assign_locs_eqv (p : Expression -> bool) su :
    (forall e, p (mapl_Expression r e) = p e) ->
    assign_locs p (mapl_SourceUnit r su) = map r (assign_locs p su).
  Proof.
    intros H. unfold assign_locs. rewrite all_exprs_mapl. apply flat_map_equivariant.
    intros e. destruct e; try reflexivity.
    match goal with |- context [p (mapl_Expression r ?x)] => rewrite (H x) end. mcbn. ifs.
  Qed.

  Lemma subscript_of_mapl x k : forall e, subscript_of x k (mapl_Expression r e) = subscript_of x k e.
  Proof. unfold subscript_of, name_of. pred. Qed.

  Definition mapl_pair (ab : Expression * Expression) : Expression * Expression :=
    (mapl_Expression r (fst ab), mapl_Expression r (snd ab)).
  Lemma arith10_mapl e : arith10 (mapl_Expression r e) = option_map mapl_pair (arith10 e).
  Proof. destruct e; reflexivity. Qed.

  Lemma name_of_mapl i : name_of (mapl_Identifier r i) = name_of i.
  Proof. destruct i. reflexivity. Qed.

  Lemma assign_update_match_mapl : forall e, assign_update_match (mapl_Expression r e) = assign_update_match e.
  Proof.
    intros e. destruct e; try reflexivity.
    match goal with |- context [Expression_Assign _ ?l _] => destruct l; try reflexivity end.
    match goal with |- context [Expression_Assign _ (Expression_ArraySubscript _ ?b _) _] => destruct b; try reflexivity end.
    match goal with |- context [Expression_Assign _ (Expression_ArraySubscript _ _ ?o) _] =>
      destruct o as [idx|]; [|reflexivity] end.
    destruct idx; try reflexivity.
    mcbn. unfold assign_update_match. rewrite arith10_mapl, ?name_of_mapl.
    match goal with |- context [arith10 ?rhs] => destruct (arith10 rhs) as [[l0 r0]|]; [|reflexivity] end.
    cbn [option_map mapl_pair fst snd]. rewrite !subscript_of_mapl.
    destruct l0; try reflexivity.
    match goal with |- context [mapl_Expression r (Expression_ArraySubscript _ ?b _)] => destruct b; reflexivity end.
  Qed.
  Theorem assign_update_eqv su :
    assign_locs assign_update_match (mapl_SourceUnit r su) = map r (assign_locs assign_update_match su).
  Proof. apply assign_locs_eqv. apply assign_update_match_mapl. Qed.


  (* cache_array_length *)
  Lemma sp_length_access_mapl e : sp_length_access (mapl_Expression r e) = map r (sp_length_access e).
  Proof. destruct e; try reflexivity. mcbn. unfold sp_length_access. rewrite idname_mapl. ifs. Qed.

  Theorem cache_array_length_eqv su :
    spec_cache_array_length (mapl_SourceUnit r su) = map r (spec_cache_array_length su).
  Proof.
    unfold spec_cache_array_length. rewrite all_stmts_mapl. apply flat_map_equivariant.
    intros s. destruct s; try reflexivity.
    match goal with |- context [Statement_For _ _ ?o _ _] => destruct o as [cond|]; [|reflexivity] end. mcbn.
    rewrite exprs_pre_Expression_mapl. apply flat_map_equivariant. apply sp_length_access_mapl.
  Qed.

  (* multiple_require *)
  Lemma sp_is_and_mapl : forall e, sp_is_and (mapl_Expression r e) = sp_is_and e.
  Proof. unfold sp_is_and. pred. Qed.

  Theorem multiple_require_eqv su : spec_multiple_require (mapl_SourceUnit r su) = map r (spec_multiple_require su).
  Proof.
    unfold spec_multiple_require. rewrite all_exprs_mapl. apply flat_map_equivariant.
    intros e. destruct e; try reflexivity.
    match goal with |- context [Expression_FunctionCall _ ?c _] => destruct c; try reflexivity end.
    mcbn. rewrite (existsb_map_pred sp_is_and _ _ sp_is_and_mapl). ifs.
  Qed.

  (* shift_math *)
  Lemma muldiv_where_eqv (p : Expression -> bool) su :
    (forall e, p (mapl_Expression r e) = p e) ->
    muldiv_where p (mapl_SourceUnit r su) = map r (muldiv_where p su).
  Proof.
    intros H. unfold muldiv_where. rewrite all_exprs_mapl. apply flat_map_equivariant.
    intros e. destruct e; try reflexivity; mcbn; rewrite !H; ifs.
  Qed.

  Lemma pow2_literal_mapl : forall e, pow2_literal (mapl_Expression r e) = pow2_literal e.
  Proof. intros e. destruct e; reflexivity. Qed.

  Theorem shift_math_eqv su :
    muldiv_where pow2_literal (mapl_SourceUnit r su) = map r (muldiv_where pow2_literal su).
  Proof. apply muldiv_where_eqv. apply pow2_literal_mapl. Qed.

  (* increment_decrement: the only detector that compares locations *)
  Lemma sp_prefix_loc_mapl e : sp_prefix_loc (mapl_Expression r e) = map r (sp_prefix_loc e).
  Proof. destruct e; reflexivity. Qed.
  Lemma sp_incdec_loc_mapl e : sp_incdec_loc (mapl_Expression r e) = map r (sp_incdec_loc e).
  Proof. destruct e; reflexivity. Qed.

  Lemma exempt_prefix_locs_mapl su : exempt_prefix_locs (mapl_SourceUnit r su) = map r (exempt_prefix_locs su).
  Proof.
    unfold exempt_prefix_locs. rewrite all_stmts_mapl. apply flat_map_equivariant.
    intros s. destruct s; try reflexivity.
    match goal with |- context [Statement_Block _ ?u _] => destruct u; [|reflexivity] end. mcbn.
    apply flat_map_equivariant. intros st. rewrite exprs_pre_Statement_mapl.
    apply flat_map_equivariant. apply sp_prefix_loc_mapl.
  Qed.

  Section Inj.
    Hypothesis r_inj : forall a b, r a = r b -> a = b.

    Lemma sp_Loc_eqb_mapl a b : sp_Loc_eqb (r a) (r b) = sp_Loc_eqb a b.
    Proof.
      destruct (sp_Loc_eqb a b) eqn:E.
      - apply sp_Loc_eqb_eq in E. subst b. apply sp_Loc_eqb_eq. reflexivity.
      - destruct (sp_Loc_eqb (r a) (r b)) eqn:E'; [|reflexivity].
        apply sp_Loc_eqb_eq in E'. apply r_inj in E'. subst b.
        assert (H : sp_Loc_eqb a a = true) by (apply sp_Loc_eqb_eq; reflexivity). rewrite H in E. discriminate E.
    Qed.

    (* list-level equality, under injectivity of the renaming *)
    Theorem increment_decrement_eqv su :
      spec_increment_decrement (mapl_SourceUnit r su) = map r (spec_increment_decrement su).
    Proof.
      unfold spec_increment_decrement. rewrite exempt_prefix_locs_mapl, all_exprs_mapl.
      rewrite (flat_map_equivariant r sp_incdec_loc (mapl_Expression r) _ sp_incdec_loc_mapl).
      apply filter_map_gen. intros l. f_equal. apply existsb_map_gen. intros x. apply sp_Loc_eqb_mapl.
    Qed.
  End Inj.

  (* ---------------------------------------------------------------- C07 *)
  (* divide_before_multiply *)
  Lemma sp_mul_chain_div_mapl : forall e, sp_mul_chain_div (mapl_Expression r e) = sp_mul_chain_div e.
  Proof. fix IH 1. intros e. destruct e; try reflexivity; mcbn; cbn [sp_mul_chain_div]; apply IH. Qed.
  Lemma sp_arith_chain_mul_mapl : forall e, sp_arith_chain_mul (mapl_Expression r e) = sp_arith_chain_mul e.
  Proof. fix IH 1. intros e. destruct e; try reflexivity; mcbn; cbn [sp_arith_chain_mul]; apply IH. Qed.

  Theorem divide_before_multiply_eqv su :
    spec_divide_before_multiply (mapl_SourceUnit r su) = map r (spec_divide_before_multiply su).
  Proof.
    unfold spec_divide_before_multiply. rewrite all_exprs_mapl. apply flat_map_equivariant.
    intros e. destruct e; try reflexivity; mcbn; rewrite ?sp_mul_chain_div_mapl, ?sp_arith_chain_mul_mapl; ifs.
  Qed.

  (* floating_pragma *)
  Definition mapl_pragma (p : Loc * string * string) : Loc * string * string :=
    match p with (l, n, v) => (r l, n, v) end.
  Lemma pragmas_mapl su : pragmas (mapl_SourceUnit r su) = map mapl_pragma (pragmas su).
  Proof.
    destruct su as [parts]. unfold mapl_SourceUnit, pragmas. apply flat_map_map_gen.
    intros p. destruct p; try reflexivity.
    cbn [mapl_SourceUnitPart map mapl_pragma mapl_Loc]. rewrite idname_mapl.
    match goal with |- context [mapl_StringLiteral r ?s] => destruct s end. reflexivity.
  Qed.

  Theorem floating_pragma_eqv su : spec_floating_pragma (mapl_SourceUnit r su) = map r (spec_floating_pragma su).
  Proof.
    unfold spec_floating_pragma. rewrite pragmas_mapl. apply flat_map_equivariant.
    intros [[l n] v]. cbn [mapl_pragma]. ifs.
  Qed.

  (* unprotected_selfdestruct *)
  Lemma body_mapl f :
    FunctionDefinition_body (mapl_FunctionDefinition r f) =
    match FunctionDefinition_body f with Some b => Some (mapl_Statement r b) | None => None end.
  Proof. destruct f. reflexivity. Qed.
  Lemma attributes_mapl f :
    FunctionDefinition_attributes (mapl_FunctionDefinition r f) =
    map (mapl_FunctionAttribute r) (FunctionDefinition_attributes f).
  Proof. destruct f. reflexivity. Qed.
  Lemma fty_mapl f : FunctionDefinition_ty (mapl_FunctionDefinition r f) = FunctionDefinition_ty f.
  Proof. destruct f. reflexivity. Qed.
  Lemma floc_mapl f : FunctionDefinition_loc (mapl_FunctionDefinition r f) = r (FunctionDefinition_loc f).
  Proof. destruct f. reflexivity. Qed.
  Lemma fname_mapl f :
    FunctionDefinition_name (mapl_FunctionDefinition r f) =
    match FunctionDefinition_name f with Some i => Some (mapl_Identifier r i) | None => None end.
  Proof. destruct f. reflexivity. Qed.

  Lemma sp_is_ctor_mapl f : sp_is_ctor (mapl_FunctionDefinition r f) = sp_is_ctor f.
  Proof. unfold sp_is_ctor. rewrite fty_mapl. reflexivity. Qed.
  Lemma sp_has_body_mapl f : sp_has_body (mapl_FunctionDefinition r f) = sp_has_body f.
  Proof. unfold sp_has_body. rewrite body_mapl. destruct (FunctionDefinition_body f); reflexivity. Qed.

  Lemma sp_fattr_pub_ext_mapl a : sp_fattr_pub_ext (mapl_FunctionAttribute r a) = sp_fattr_pub_ext a.
  Proof. destruct a as [m|v| | | | |]; try reflexivity. destruct v; reflexivity. Qed.
  Lemma sp_fattr_payable_mapl a : sp_fattr_payable (mapl_FunctionAttribute r a) = sp_fattr_payable a.
  Proof. destruct a as [m|v| | | | |]; try reflexivity. destruct m; reflexivity. Qed.
  Lemma sp_pub_ext_mapl f : sp_pub_ext (mapl_FunctionDefinition r f) = sp_pub_ext f.
  Proof. unfold sp_pub_ext. rewrite attributes_mapl. apply existsb_map_pred. apply sp_fattr_pub_ext_mapl. Qed.

  Lemma sp_only_modifier_mapl f : sp_only_modifier (mapl_FunctionDefinition r f) = sp_only_modifier f.
  Proof.
    unfold sp_only_modifier. rewrite attributes_mapl. apply existsb_map_pred.
    intros a. destruct a as [| | | | |l b|]; try reflexivity. mcbn.
    destruct b as [bl [pl ids] args]. mcbn. cbn [Base_name mapl_IdentifierPath IdentifierPath_identifiers].
    apply existsb_map_gen. intros i. rewrite idname_mapl. reflexivity.
  Qed.

  Lemma sp_is_selfdestruct_callee_mapl : forall e, sp_is_selfdestruct_callee (mapl_Expression r e) = sp_is_selfdestruct_callee e.
  Proof. unfold sp_is_selfdestruct_callee. pred. Qed.
  Lemma sp_msg_sender_mapl : forall e, sp_msg_sender (mapl_Expression r e) = sp_msg_sender e.
  Proof. unfold sp_msg_sender. pred. Qed.
  Lemma sp_sender_arg_mapl : forall e, sp_sender_arg (mapl_Expression r e) = sp_sender_arg e.
  Proof.
    intros e. unfold sp_sender_arg. rewrite sp_msg_sender_mapl. f_equal.
    destruct e; try reflexivity; mcbn; rewrite !sp_msg_sender_mapl; reflexivity.
  Qed.
  Lemma sp_sender_check_mapl : forall e, sp_sender_check (mapl_Expression r e) = sp_sender_check e.
  Proof.
    intros e. destruct e; try reflexivity. mcbn. unfold sp_sender_check.
    rewrite sp_is_selfdestruct_callee_mapl, (existsb_map_pred sp_sender_arg _ _ sp_sender_arg_mapl).
    f_equal. f_equal. f_equal.
    match goal with |- context [mapl_Expression r ?c] => destruct c; reflexivity end.
  Qed.

  Lemma sp_selfdestruct_calls_mapl b :
    sp_selfdestruct_calls (mapl_Statement r b) = map r (sp_selfdestruct_calls b).
  Proof.
    unfold sp_selfdestruct_calls. rewrite exprs_pre_Statement_mapl. apply flat_map_equivariant.
    intros e. destruct e; try reflexivity. mcbn. rewrite sp_is_selfdestruct_callee_mapl. ifs.
  Qed.

  Theorem unprotected_selfdestruct_eqv su :
    spec_unprotected_selfdestruct (mapl_SourceUnit r su) = map r (spec_unprotected_selfdestruct su).
  Proof.
    unfold spec_unprotected_selfdestruct. rewrite member_functions_mapl. apply flat_map_equivariant.
    intros f. rewrite body_mapl, sp_is_ctor_mapl, sp_pub_ext_mapl, sp_only_modifier_mapl.
    destruct (FunctionDefinition_body f) as [b|]; [|reflexivity].
    rewrite exprs_pre_Statement_mapl, (existsb_map_pred sp_sender_check _ _ sp_sender_check_mapl).
    rewrite sp_selfdestruct_calls_mapl.
    match goal with |- context [if ?c then _ else _] => destruct c; reflexivity end.
  Qed.

  (* ---------------------------------------------------------------- C06 *)
  Theorem payable_function_eqv su : spec_payable_function (mapl_SourceUnit r su) = map r (spec_payable_function su).
  Proof.
    unfold spec_payable_function. rewrite member_functions_mapl. apply select_equivariant; [|apply floc_mapl].
    intros f. rewrite sp_has_body_mapl, sp_pub_ext_mapl, attributes_mapl.
    rewrite (existsb_map_pred sp_fattr_payable _ _ sp_fattr_payable_mapl). reflexivity.
  Qed.

  Lemma vattrs_mapl v :
    VariableDefinition_attrs (mapl_VariableDefinition r v) = map (mapl_VariableAttribute r) (VariableDefinition_attrs v).
  Proof. destruct v. reflexivity. Qed.
  Lemma vloc_mapl v : VariableDefinition_loc (mapl_VariableDefinition r v) = r (VariableDefinition_loc v).
  Proof. destruct v. reflexivity. Qed.
  Lemma vname_mapl v : VariableDefinition_name (mapl_VariableDefinition r v) = mapl_Identifier r (VariableDefinition_name v).
  Proof. destruct v. reflexivity. Qed.
  Lemma sp_vattr_constant_mapl a : sp_vattr_constant (mapl_VariableAttribute r a) = sp_vattr_constant a.
  Proof. destruct a; reflexivity. Qed.
  Lemma sp_vattr_private_mapl a : sp_vattr_private (mapl_VariableAttribute r a) = sp_vattr_private a.
  Proof. destruct a as [v| | |]; try reflexivity. destruct v; reflexivity. Qed.
  Lemma sp_is_constant_mapl v : sp_is_constant (mapl_VariableDefinition r v) = sp_is_constant v.
  Proof. unfold sp_is_constant. rewrite vattrs_mapl. apply existsb_map_pred. apply sp_vattr_constant_mapl. Qed.
  Lemma sp_vis_priv_int_mapl v : sp_vis_priv_int (mapl_Visibility r v) = sp_vis_priv_int v.
  Proof. destruct v; reflexivity. Qed.

  Theorem private_constant_eqv su : spec_private_constant (mapl_SourceUnit r su) = map r (spec_private_constant su).
  Proof.
    unfold spec_private_constant. rewrite state_variables_mapl. apply select_equivariant; [|apply vloc_mapl].
    intros v. rewrite sp_is_constant_mapl, vattrs_mapl.
    rewrite (existsb_map_pred sp_vattr_private _ _ sp_vattr_private_mapl). reflexivity.
  Qed.

  Lemma sp_var_contradiction_mapl v : sp_var_contradiction (mapl_VariableDefinition r v) = sp_var_contradiction v.
  Proof.
    unfold sp_var_contradiction. rewrite vattrs_mapl, vname_mapl, idname_mapl. apply existsb_map_gen.
    intros a. destruct a as [vis| | |]; try reflexivity.
    cbn [mapl_VariableAttribute]. rewrite sp_vis_priv_int_mapl. reflexivity.
  Qed.

  Theorem private_vars_eqv su : spec_private_vars (mapl_SourceUnit r su) = map r (spec_private_vars su).
  Proof.
    unfold spec_private_vars. rewrite state_variables_mapl. apply select_equivariant; [|apply vloc_mapl].
    intros v. rewrite sp_is_constant_mapl, sp_var_contradiction_mapl. reflexivity.
  Qed.

  Theorem private_func_eqv su : spec_private_func (mapl_SourceUnit r su) = map r (spec_private_func su).
  Proof.
    unfold spec_private_func. rewrite member_functions_mapl. apply flat_map_equivariant.
    intros f. rewrite fty_mapl, fname_mapl, attributes_mapl.
    destruct (FunctionDefinition_ty f); try reflexivity.
    destruct (FunctionDefinition_name f) as [id|]; [|reflexivity].
    rewrite idname_mapl, idloc_mapl.
    match goal with |- (if existsb ?p (map ?g ?l) then _ else _) = map r (if existsb ?q ?l then _ else _) =>
      rewrite (existsb_map_gen p q g l) end; [ifs|].
    intros a. destruct a as [|vis| | | | |]; try reflexivity.
    mcbn. rewrite sp_vis_priv_int_mapl. reflexivity.
  Qed.

  (* the model's own closed form of private_func_leading_underscore (list equality with the detector) *)
  Lemma vis_public_or_external_mapl v : vis_public_or_external (mapl_Visibility r v) = vis_public_or_external v.
  Proof. destruct v; reflexivity. Qed.

  Lemma private_func_of_mapl f : private_func_of (mapl_FunctionDefinition r f) = map r (private_func_of f).
  Proof.
    unfold private_func_of. rewrite fty_mapl, fname_mapl, attributes_mapl.
    destruct (FunctionDefinition_ty f); try reflexivity.
    apply flat_map_map_gen. intros a. destruct a as [|vis| | | | |]; try reflexivity. mcbn.
    destruct (FunctionDefinition_name f) as [id|]; [|reflexivity].
    rewrite vis_public_or_external_mapl. unfold name_of. fold (idname (mapl_Identifier r id)). fold (idname id).
    rewrite idname_mapl, idloc_mapl. ifs.
  Qed.

  Theorem private_func_model_eqv su :
    flat_map private_func_of (member_functions (mapl_SourceUnit r su)) = map r (flat_map private_func_of (member_functions su)).
  Proof. rewrite member_functions_mapl. apply flat_map_equivariant. apply private_func_of_mapl. Qed.

  (* constructor_order *)
  Lemma sp_counts_as_function_mapl p : sp_counts_as_function (mapl_ContractPart r p) = sp_counts_as_function p.
  Proof. destruct p; try reflexivity. cbn [mapl_ContractPart sp_counts_as_function]. rewrite fty_mapl. reflexivity. Qed.

  Lemma sp_ctor_order_mapl parts : forall before,
    sp_ctor_order (map (mapl_ContractPart r) before) (map (mapl_ContractPart r) parts) = map r (sp_ctor_order before parts).
  Proof.
    induction parts as [|p ps IH]; intros before; [reflexivity|].
    cbn [map sp_ctor_order]. rewrite map_app. f_equal.
    - destruct p; try reflexivity. cbn [mapl_ContractPart].
      rewrite sp_is_ctor_mapl, (existsb_map_pred sp_counts_as_function _ _ sp_counts_as_function_mapl), floc_mapl. ifs.
    - rewrite <- IH. rewrite map_app. reflexivity.
  Qed.

  Theorem constructor_order_eqv su : spec_constructor_order (mapl_SourceUnit r su) = map r (spec_constructor_order su).
  Proof.
    unfold spec_constructor_order. rewrite contracts_mapl. apply flat_map_equivariant.
    intros c. rewrite parts_mapl. apply (sp_ctor_order_mapl (ContractDefinition_parts c) []).
  Qed.
End Eqv2.

(* ---------------------------------------------------------------- the detector level *)
Lemma equivariant_of_closed r (d : SourceUnit -> res (list Loc)) (cf : SourceUnit -> list Loc) :
  (forall su, d su = Ok (cf su)) ->
  (forall su, cf (mapl_SourceUnit r su) = map r (cf su)) -> equivariant r d.
Proof.
  intros Hc He su locs Hd. rewrite Hc in Hd. injection Hd as Hl. subst locs.
  exists (cf (mapl_SourceUnit r su)). split; [apply Hc|]. intros l. rewrite He. reflexivity.
Qed.

Lemma equivariant_of_closed_set r (d : SourceUnit -> res (list Loc)) (cf : SourceUnit -> list Loc) :
  (forall su, exists ls, d su = Ok ls /\ (forall l, In l ls <-> In l (cf su))) ->
  (forall su, cf (mapl_SourceUnit r su) = map r (cf su)) -> equivariant r d.
Proof.
  intros Hc He su locs Hd. destruct (Hc su) as [ls [H1 H2]]. rewrite Hd in H1. injection H1 as Hl. subst ls.
  destruct (Hc (mapl_SourceUnit r su)) as [ls' [H1' H2']]. exists ls'. split; [exact H1'|].
  intros l. rewrite H2', He, !in_map_iff.
  split; intros [x [Hx Hin]]; exists x; (split; [exact Hx|]); apply H2; exact Hin.
Qed.

(* the 20 detector-level theorems, uniform shape (injectivity is used only by increment_decrement) *)
Theorem address_balance_equivariant r : (forall a b, r a = r b -> a = b) -> equivariant r address_balance_optimization.
Proof. intros _. exact (equivariant_of_closed r _ _ address_balance_closed (address_balance_eqv r)). Qed.
Theorem address_zero_equivariant r : (forall a b, r a = r b -> a = b) -> equivariant r address_zero_optimization.
Proof. intros _. exact (equivariant_of_closed r _ _ address_zero_closed (address_zero_eqv r)). Qed.
Theorem assign_update_array_equivariant r : (forall a b, r a = r b -> a = b) -> equivariant r assign_update_array_optimization.
Proof. intros _. exact (equivariant_of_closed r _ _ assign_update_closed (assign_update_eqv r)). Qed.
Theorem bool_equals_bool_equivariant r : (forall a b, r a = r b -> a = b) -> equivariant r bool_equals_bool_optimization.
Proof. intros _. exact (equivariant_of_closed r _ _ bool_equals_bool_closed (bool_equals_bool_eqv r)). Qed.
Theorem cache_array_length_equivariant r : (forall a b, r a = r b -> a = b) -> equivariant r cache_array_length_optimization.
Proof. intros _. exact (equivariant_of_closed r _ _ cache_array_length_closed (cache_array_length_eqv r)). Qed.
Theorem increment_decrement_equivariant r : (forall a b, r a = r b -> a = b) -> equivariant r increment_decrement_optimization.
Proof. intros r_inj. exact (equivariant_of_closed r _ _ increment_decrement_closed (increment_decrement_eqv r r_inj)). Qed.
Theorem multiple_require_equivariant r : (forall a b, r a = r b -> a = b) -> equivariant r multiple_require_optimization.
Proof. intros _. exact (equivariant_of_closed_set r _ _ multiple_require_closed (multiple_require_eqv r)). Qed.
Theorem optimal_comparison_equivariant r : (forall a b, r a = r b -> a = b) -> equivariant r optimal_comparison_optimization.
Proof. intros _. exact (equivariant_of_closed r _ _ optimal_comparison_closed (optimal_comparison_eqv r)). Qed.
Theorem shift_math_equivariant r : (forall a b, r a = r b -> a = b) -> equivariant r shift_math_optimization.
Proof. intros _. exact (equivariant_of_closed r _ _ shift_math_closed (shift_math_eqv r)). Qed.
Theorem solidity_keccak256_equivariant r : (forall a b, r a = r b -> a = b) -> equivariant r solidity_keccak256_optimization.
Proof. intros _. exact (equivariant_of_closed r _ _ solidity_keccak256_closed (solidity_keccak256_eqv r)). Qed.
Theorem solidity_math_equivariant r : (forall a b, r a = r b -> a = b) -> equivariant r solidity_math_optimization.
Proof. intros _. exact (equivariant_of_closed r _ _ solidity_math_closed (solidity_math_eqv r)). Qed.
Theorem payable_function_equivariant r : (forall a b, r a = r b -> a = b) -> equivariant r payable_function_optimization.
Proof. intros _. exact (equivariant_of_closed r _ _ payable_function_closed (payable_function_eqv r)). Qed.
Theorem private_constant_equivariant r : (forall a b, r a = r b -> a = b) -> equivariant r private_constant_optimization.
Proof. intros _. exact (equivariant_of_closed r _ _ private_constant_closed (private_constant_eqv r)). Qed.
Theorem private_vars_equivariant r : (forall a b, r a = r b -> a = b) -> equivariant r private_vars_leading_underscore.
Proof. intros _. exact (equivariant_of_closed_set r _ _ private_vars_closed (private_vars_eqv r)). Qed.
Theorem private_func_equivariant r : (forall a b, r a = r b -> a = b) -> equivariant r private_func_leading_underscore.
Proof. intros _. exact (equivariant_of_closed r _ _ private_func_model_closed (private_func_model_eqv r)). Qed.
Theorem constructor_order_equivariant r : (forall a b, r a = r b -> a = b) -> equivariant r constructor_order_qa.
Proof. intros _. exact (equivariant_of_closed r _ _ constructor_order_closed (constructor_order_eqv r)). Qed.
Theorem divide_before_multiply_equivariant r : (forall a b, r a = r b -> a = b) -> equivariant r divide_before_multiply_vulnerability.
Proof. intros _. exact (equivariant_of_closed r _ _ divide_before_multiply_closed (divide_before_multiply_eqv r)). Qed.
Theorem floating_pragma_equivariant r : (forall a b, r a = r b -> a = b) -> equivariant r floating_pragma_vulnerability.
Proof. intros _. exact (equivariant_of_closed r _ _ floating_pragma_closed (floating_pragma_eqv r)). Qed.
Theorem unprotected_selfdestruct_equivariant r : (forall a b, r a = r b -> a = b) -> equivariant r unprotected_selfdestruct_vulnerability.
Proof. intros _. exact (equivariant_of_closed r _ _ unprotected_selfdestruct_closed (unprotected_selfdestruct_eqv r)). Qed.
Theorem unsafe_erc20_equivariant r : (forall a b, r a = r b -> a = b) -> equivariant r unsafe_erc20_operation_vulnerability.
Proof. intros _. exact (equivariant_of_closed r _ _ unsafe_erc20_closed (unsafe_erc20_eqv r)). Qed.

(* ---------------------------------------------------------------- necessity of injectivity *)
(* injectivity cannot be dropped for increment_decrement:
     function f() { x++; unchecked { ++y; } }
   reports x++ only; collapsing all locations makes x++ "the same place" as the exempt ++y. *)
Definition ce_loc (k : N) : Loc := Loc_File 0 k (k + 1).
Definition ce_tree : SourceUnit :=
  Mk_SourceUnit
    [ SourceUnitPart_FunctionDefinition
        (Mk_FunctionDefinition (ce_loc 0) FunctionTy_Function (Some (Mk_Identifier (ce_loc 1) "f")) (ce_loc 1) [] [] None []
           (Some (Statement_Block (ce_loc 2) false
                    [ Statement_Expression (ce_loc 3)
                        (Expression_PostIncrement (ce_loc 3) (Expression_Variable (Mk_Identifier (ce_loc 3) "x")));
                      Statement_Block (ce_loc 5) true
                        [ Statement_Expression (ce_loc 6)
                            (Expression_PreIncrement (ce_loc 6) (Expression_Variable (Mk_Identifier (ce_loc 7) "y"))) ] ]))) ].

Example increment_decrement_needs_injectivity :
  ~ equivariant (fun _ => ce_loc 0) increment_decrement_optimization.
Proof.
  intros H. destruct (H ce_tree [ce_loc 3]) as [locs' [Hd Hin]]; [vm_compute; reflexivity|].
  vm_compute in Hd. injection Hd as Hl. subst locs'.
  exact (proj2 (Hin (ce_loc 0)) (or_introl eq_refl)).
Qed.
