(* C08: mutability detectors (constant_variables, immutable_variables, memory_to_calldata, sstore). *)
From Coq Require Import List String Ascii NArith ZArith Bool.
Import ListNotations.
From Solstat Require Import Lift Pt Walk Res Nodes Utils Detectors WalkProof Patterns Patterns2
     DetBase DetC05 DetC05b StructLemmas DetC07 DetC06 SMapLemmas.
Local Open Scope string_scope.
Local Open Scope list_scope.

(* ---------------------------------------------------------------- the state-variable table *)
Definition cand (ic ii : bool) (v : VariableDefinition) : bool :=
  negb (var_skipped ic ii (VariableDefinition_attrs v)) && sp_builtin_nonmapping (VariableDefinition_ty v).
Definition entry (v : VariableDefinition) : sv_entry :=
  (match VariableDefinition_attrs v with [] => None | _ :: _ => Some (VariableDefinition_attrs v) end, sp_type_loc v).

Lemma add_var_cases ic ii m v :
  add_var ic ii m v = if cand ic ii v then sm_insert (var_name v) (entry v) m else m.
Proof.
  destruct v as [l ty attrs name init]. unfold add_var, cand, entry, var_name, sp_type_loc, name_of, idname.
  cbn [VariableDefinition_attrs VariableDefinition_ty VariableDefinition_name].
  destruct (var_skipped ic ii attrs); [reflexivity|]. cbn [negb andb].
  destruct ty; try reflexivity.
  match goal with |- context [match ?t with Ty_Mapping _ _ _ => _ | _ => _ end] => destruct t; reflexivity end.
Qed.

Lemma fold_left_flat_map {A B C} (f : A -> C -> A) (g : B -> list C) l a :
  fold_left f (flat_map g l) a = fold_left (fun a x => fold_left f (g x) a) l a.
Proof. revert a. induction l as [|x l IH]; intros a; [reflexivity|]. cbn. rewrite fold_left_app. apply IH. Qed.

Lemma fold_part_vars ic ii ps m :
  fold_left (add_part_vars ic ii) ps m =
  fold_left (add_var ic ii) (flat_map (fun p => match p with ContractPart_VariableDefinition v => [v] | _ => [] end) ps) m.
Proof.
  revert m. induction ps as [|p ps IH]; intros m; [reflexivity|].
  destruct p; cbn [fold_left flat_map app add_part_vars]; apply IH.
Qed.

Definition sv_table (ic ii : bool) (su : SourceUnit) : smap sv_entry :=
  fold_left (add_var ic ii) (state_variables su) [].

Theorem sv_closed su ic ii : get_32_byte_storage_variables su ic ii = Ok (sv_table ic ii su).
Proof.
  unfold get_32_byte_storage_variables, sv_table, state_variables. rewrite contract_nodes_closed.
  rewrite <- (map_map SourceUnitPart_ContractDefinition N_SourceUnitPart).
  rewrite unwrap_sup_list. cbn [bind]. f_equal.
  rewrite fold_left_flat_map. generalize (@nil (string * sv_entry)).
  induction (contracts su) as [|c cs IH]; intros m; [reflexivity|].
  cbn [map fold_left]. rewrite IH. f_equal. cbn [add_contract_vars]. apply fold_part_vars.
Qed.

Section Table.
  Variables ic ii : bool.

  Lemma sv_fold_sound vs m0 k e :
    In (k, e) (fold_left (add_var ic ii) vs m0) ->
    In (k, e) m0 \/ exists v, In v vs /\ cand ic ii v = true /\ k = var_name v /\ e = entry v.
  Proof.
    revert m0. induction vs as [|v vs IH]; intros m0 H; [left; exact H|].
    cbn [fold_left] in H. apply IH in H. destruct H as [H|[w [Hw H]]].
    - rewrite add_var_cases in H. destruct (cand ic ii v) eqn:Ec; [|left; exact H].
      apply sm_insert_in in H. destruct H as [[-> ->]|[H _]]; [|left; exact H].
      right. exists v. split; [left; reflexivity|]. split; [exact Ec|]. split; reflexivity.
    - right. exists w. split; [right; exact Hw|exact H].
  Qed.

  Lemma sv_fold_keep vs m0 k e :
    In (k, e) m0 -> ~ In k (map var_name vs) -> In (k, e) (fold_left (add_var ic ii) vs m0).
  Proof.
    revert m0. induction vs as [|v vs IH]; intros m0 H Hn; [exact H|].
    cbn [fold_left]. apply IH.
    - rewrite add_var_cases. destruct (cand ic ii v); [|exact H].
      apply sm_insert_in. right. split; [exact H|]. intros ->. apply Hn. left. reflexivity.
    - intros Hin. apply Hn. right. exact Hin.
  Qed.

  Lemma sv_fold_complete vs m0 v :
    NoDup (map var_name vs) -> In v vs -> cand ic ii v = true ->
    In (var_name v, entry v) (fold_left (add_var ic ii) vs m0).
  Proof.
    revert m0. induction vs as [|w vs IH]; intros m0 Hd Hin Hc; [destruct Hin|].
    cbn [map] in Hd. inversion Hd as [|? ? Hn Hd']; subst.
    cbn [fold_left]. destruct Hin as [->|Hin].
    - apply sv_fold_keep; [|exact Hn]. rewrite add_var_cases, Hc. apply sm_insert_in. left. split; reflexivity.
    - apply IH; assumption.
  Qed.

  Lemma sv_fold_key vs m0 v :
    In v vs -> cand ic ii v = true -> In (var_name v) (keys (fold_left (add_var ic ii) vs m0)).
  Proof.
    revert m0. induction vs as [|w vs IH]; intros m0 Hin Hc; [destruct Hin|].
    cbn [fold_left]. destruct Hin as [->|Hin]; [|apply IH; assumption].
    (* the key is present after inserting v; later steps never delete a key without re-inserting it *)
    assert (Hk : In (var_name v) (keys (add_var ic ii m0 v))).
    { rewrite add_var_cases, Hc. left. reflexivity. }
    clear IH. revert Hk. generalize (add_var ic ii m0 v). induction vs as [|u us IHu]; intros m Hk; [exact Hk|].
    cbn [fold_left]. apply IHu. rewrite add_var_cases. destruct (cand ic ii u); [|exact Hk].
    destruct (String.eqb (var_name v) (var_name u)) eqn:E.
    - apply String.eqb_eq in E. rewrite E. left. reflexivity.
    - apply String.eqb_neq in E. unfold keys in Hk |- *. apply in_map_iff in Hk. destruct Hk as [[k e] [Hk Hin']].
      cbn in Hk. subst k. apply in_map_iff. exists (var_name v, e). split; [reflexivity|].
      apply sm_insert_in. right. split; assumption.
  Qed.

  Lemma sv_fold_nodup vs m0 : NoDup (keys m0) -> NoDup (keys (fold_left (add_var ic ii) vs m0)).
  Proof.
    revert m0. induction vs as [|v vs IH]; intros m0 H; [exact H|]. cbn [fold_left]. apply IH.
    rewrite add_var_cases. destruct (cand ic ii v); [apply sm_insert_nodup|]; exact H.
  Qed.
End Table.

Lemma sv_table_nodup ic ii su : NoDup (keys (sv_table ic ii su)).
Proof. apply sv_fold_nodup. constructor. Qed.

Lemma sv_table_sound ic ii su k e :
  In (k, e) (sv_table ic ii su) ->
  exists v, In v (state_variables su) /\ cand ic ii v = true /\ k = var_name v /\ e = entry v.
Proof. intros H. apply sv_fold_sound in H. destruct H as [[]|H]. exact H. Qed.

Lemma sv_table_complete ic ii su v :
  NoDup (state_var_names su) -> In v (state_variables su) -> cand ic ii v = true ->
  In (var_name v, entry v) (sv_table ic ii su).
Proof. intros Hd Hin Hc. apply sv_fold_complete; assumption. Qed.

(* ---------------------------------------------------------------- removing written names *)
Definition rm_written {V} (m : smap V) (e : Expression) : smap V :=
  match written_name e with Some x => sm_remove x m | None => m end.

Lemma remove_written_ok {V} ns (m : smap V) :
  Forall (fun n => is_expr_node n = true) ns ->
  remove_written ns m = Ok (fold_left rm_written (exprs_in ns) m).
Proof.
  intros H. revert m. induction H as [|n ns Hn Hns IH]; intros m; [reflexivity|].
  destruct n; try discriminate Hn. cbn [remove_written foldM node_expression unwrap bind].
  unfold remove_written in IH. rewrite IH. reflexivity.
Qed.

Lemma written_name_sp e : sp_written e = match written_name e with Some x => [x] | None => [] end.
Proof.
  unfold sp_written, written_name, is_Variable_named, name_of, idname.
  destruct e; try reflexivity;
    match goal with |- context [sp_write_target ?x] => cbn [sp_write_target] end;
    match goal with |- context [match ?l with Expression_Variable _ => _ | _ => _ end] => destruct l; reflexivity end.
Qed.

Lemma rm_written_in {V} es (m : smap V) k v :
  In (k, v) (fold_left rm_written es m) <-> In (k, v) m /\ ~ In k (flat_map sp_written es).
Proof.
  revert m. induction es as [|e es IH]; intros m; [cbn; tauto|].
  cbn [fold_left flat_map]. rewrite IH, in_app_iff. unfold rm_written. rewrite written_name_sp.
  destruct (written_name e) as [x|].
  - rewrite sm_remove_in. cbn [In]. split.
    + intros [[H1 H2] H3]. split; [exact H1|]. intros [[H|[]]|H]; [subst; contradiction|contradiction].
    + intros [H1 H2]. split; [split; [exact H1|intros ->; apply H2; left; left; reflexivity]|intros H; apply H2; right; exact H].
  - cbn [In]. tauto.
Qed.

Lemma written_of_extract n :
  flat_map sp_written (exprs_in (extract_targets_from_node write_targets n)) = written_in (pre n).
Proof.
  rewrite extract_multi_lemma. change (fun m => existsb (Target_eqb (kind_of m)) write_targets) with (tsel write_targets).
  rewrite exprs_in_filter. unfold written_in. apply flat_map_filter_irrelevant.
  intros e He. destruct e; try reflexivity; cbn in He; discriminate He.
Qed.

Lemma write_nodes_are_exprs n :
  Forall (fun m => is_expr_node m = true) (extract_targets_from_node write_targets n).
Proof.
  rewrite extract_multi_lemma. change (fun m => existsb (Target_eqb (kind_of m)) write_targets) with (tsel write_targets).
  apply tsel_expr_nodes. reflexivity.
Qed.

(* ---------------------------------------------------------------- constant_variables *)
Theorem constant_closed su :
  constant_variable_optimization su =
  Ok (map (fun kv => snd (snd kv))
          (fold_left rm_written (exprs_in (extract_targets_from_node write_targets (root su))) (sv_table true false su))).
Proof.
  unfold constant_variable_optimization. rewrite sv_closed. cbn [bind].
  rewrite remove_written_ok by apply write_nodes_are_exprs. reflexivity.
Qed.

Lemma mem_str_in x l : mem_str x l = true <-> In x l.
Proof.
  unfold mem_str. rewrite existsb_exists. split.
  - intros [y [Hy E]]. apply String.eqb_eq in E. subst y. exact Hy.
  - intros H. exists x. split; [exact H|apply String.eqb_refl].
Qed.

Lemma cand_tf v : cand true false v = negb (sp_is_constant v) && sp_builtin_nonmapping (VariableDefinition_ty v).
Proof.
  reflexivity.
Qed.

Lemma cand_tt v :
  cand true true v = negb (sp_is_constant v) && negb (sp_is_immutable v) && sp_builtin_nonmapping (VariableDefinition_ty v).
Proof.
  unfold cand, sp_is_constant, sp_is_immutable, var_skipped. f_equal.
  induction (VariableDefinition_attrs v) as [|a l IH]; [reflexivity|]. cbn [existsb].
  rewrite negb_orb, IH. destruct a; cbn; try reflexivity;
    destruct (existsb sp_vattr_constant l), (existsb sp_vattr_immutable l); reflexivity.
Qed.

Lemma elementary_builtin ty : sp_elementary ty = true -> sp_builtin_nonmapping ty = true.
Proof. destruct ty; try discriminate. intros H. cbn in *. match goal with |- context [match ?t with _ => _ end] => destruct t; try reflexivity; discriminate H end. Qed.
Lemma value_typed_builtin ty : sp_value_typed ty = true -> sp_builtin_nonmapping ty = true.
Proof. destruct ty; try discriminate. intros H. cbn in *. match goal with |- context [match ?t with _ => _ end] => destruct t; try reflexivity; discriminate H end. Qed.

Lemma entry_loc v : snd (entry v) = sp_type_loc v.
Proof. reflexivity. Qed.

Theorem constant_between su :
  NoDup (state_var_names su) ->
  exists ls, constant_variable_optimization su = Ok ls /\
             incl (canon_constant su) ls /\ incl ls (match_constant su).
Proof.
  intros Hd. eexists. split; [apply constant_closed|]. split.
  - intros l Hl. unfold canon_constant, vars_where, select in Hl. apply in_map_iff in Hl.
    destruct Hl as [v [<- Hv]]. apply filter_In in Hv. destruct Hv as [Hin Hp].
    apply andb_prop in Hp. destruct Hp as [Hp Hw]. apply andb_prop in Hp. destruct Hp as [He Hc].
    apply in_map_iff. exists (var_name v, entry v). split; [reflexivity|].
    apply rm_written_in. split.
    + apply sv_table_complete; [exact Hd|exact Hin|]. rewrite cand_tf, Hc. cbn. apply elementary_builtin. exact He.
    + rewrite written_of_extract. intros Hx. apply mem_str_in in Hx. unfold all_nodes in Hw. unfold root in Hx.
      rewrite Hx in Hw. discriminate Hw.
  - intros l Hl. apply in_map_iff in Hl. destruct Hl as [[k e] [<- Hin]]. cbn [snd].
    apply rm_written_in in Hin. destruct Hin as [Hin Hw]. apply sv_table_sound in Hin.
    destruct Hin as [v [Hv [Hc [-> ->]]]]. rewrite cand_tf in Hc. apply andb_prop in Hc. destruct Hc as [Hc Hb].
    unfold match_constant, vars_where, select. apply in_map_iff. exists v. split; [reflexivity|].
    apply filter_In. split; [exact Hv|]. rewrite Hb, Hc. cbn [andb].
    rewrite written_of_extract in Hw. destruct (mem_str (var_name v) (written_in (all_nodes su))) eqn:E; [|reflexivity].
    exfalso. apply Hw. apply mem_str_in. exact E.
Qed.

(* ---------------------------------------------------------------- sstore *)
Theorem sstore_closed su :
  sstore_optimization su =
  Ok (flat_map (fun e => match e with
                         | Expression_Assign loc (Expression_Variable id) _ =>
                             if sm_contains (name_of id) (sv_table true true su) then [loc] else []
                         | _ => [] end) (all_exprs su)).
Proof.
  unfold sstore_optimization. rewrite sv_closed. cbn [bind].
  rewrite each_expr_extract1; [reflexivity|reflexivity|kind_irrelevant].
Qed.

Lemma sv_contains_iff ic ii su k :
  sm_contains k (sv_table ic ii su) = true <->
  exists v, In v (state_variables su) /\ cand ic ii v = true /\ var_name v = k.
Proof.
  rewrite sm_contains_iff. split.
  - intros H. unfold keys in H. apply in_map_iff in H. destruct H as [[k' e] [Hk Hin]]. cbn in Hk. subst k'.
    apply sv_table_sound in Hin. destruct Hin as [v [Hv [Hc [-> _]]]]. exists v. repeat split; assumption.
  - intros [v [Hv [Hc <-]]]. apply sv_fold_key; assumption.
Qed.

Lemma existsb_var_iff (p : VariableDefinition -> bool) k vs :
  existsb (fun v => String.eqb (var_name v) k && p v) vs = true <-> exists v, In v vs /\ p v = true /\ var_name v = k.
Proof.
  rewrite existsb_exists. split.
  - intros [v [Hv H]]. apply andb_prop in H. destruct H as [H1 H2]. apply String.eqb_eq in H1. exists v. repeat split; assumption.
  - intros [v [Hv [Hp Hk]]]. exists v. split; [exact Hv|]. rewrite Hp, Hk, String.eqb_refl. reflexivity.
Qed.

Theorem sstore_between su :
  exists ls, sstore_optimization su = Ok ls /\ incl (canon_sstore su) ls /\ incl ls (match_sstore su).
Proof.
  eexists. split; [apply sstore_closed|]. split.
  - unfold canon_sstore, sstore_where. apply flat_map_incl. intros e. destruct e; try apply incl_refl.
    match goal with |- context [match ?l with Expression_Variable _ => _ | _ => _ end] => destruct l; try apply incl_refl end.
    apply if_incl. intros H. apply existsb_var_iff in H. destruct H as [v [Hv [Hp Hk]]].
    apply sv_contains_iff. exists v. split; [exact Hv|]. split; [|exact Hk].
    rewrite cand_tt. apply andb_prop in Hp. destruct Hp as [Hp Hi]. apply andb_prop in Hp. destruct Hp as [He Hc].
    rewrite Hc, Hi. cbn. apply elementary_builtin. exact He.
  - unfold match_sstore, sstore_where. apply flat_map_incl. intros e. destruct e; try apply incl_refl.
    match goal with |- context [match ?l with Expression_Variable _ => _ | _ => _ end] => destruct l; try apply incl_refl end.
    apply if_incl. intros H. apply sv_contains_iff in H. destruct H as [v [Hv [Hc Hk]]].
    apply existsb_var_iff. exists v. split; [exact Hv|]. split; [|exact Hk].
    rewrite cand_tt in Hc. apply andb_prop in Hc. destruct Hc as [Hc Hb]. apply andb_prop in Hc. destruct Hc as [Hc Hi].
    rewrite Hb, Hc, Hi. reflexivity.
Qed.

(* ---------------------------------------------------------------- memory_to_calldata *)
Definition rm_assigned (m : smap Loc) (e : Expression) : smap Loc :=
  match assigned_param e with Some x => sm_remove x m | None => m end.

Lemma assigned_param_sp e : sp_assigned_param e = match assigned_param e with Some x => [x] | None => [] end.
Proof.
  unfold sp_assigned_param, assigned_param, name_of, idname. destruct e; try reflexivity.
  match goal with |- context [match ?l with _ => _ end] => destruct l; try reflexivity end.
  match goal with |- context [match ?l with _ => _ end] => destruct l; try reflexivity end.
Qed.

Lemma rm_assigned_in es (m : smap Loc) k v :
  In (k, v) (fold_left rm_assigned es m) <-> In (k, v) m /\ ~ In k (flat_map sp_assigned_param es).
Proof.
  revert m. induction es as [|e es IH]; intros m; [cbn; tauto|].
  cbn [fold_left flat_map]. rewrite IH, in_app_iff. unfold rm_assigned. rewrite assigned_param_sp.
  destruct (assigned_param e) as [x|].
  - rewrite sm_remove_in. cbn [In]. split.
    + intros [[H1 H2] H3]. split; [exact H1|]. intros [[H|[]]|H]; [subst; contradiction|contradiction].
    + intros [H1 H2]. split; [split; [exact H1|intros ->; apply H2; left; left; reflexivity]|intros H; apply H2; right; exact H].
  - cbn [In]. tauto.
Qed.

Definition memory_args_of (f : FunctionDefinition) : smap Loc :=
  fold_left (fun m nl => sm_insert (fst nl) (snd nl) m) (memory_params f) [].

Definition mem_param_of (p : Loc * option Param) : list (string * Loc) :=
  match p with
  | (_, Some (Mk_Param _ _ (Some (StorageLocation_Memory l)) (Some name))) => [(idname name, l)]
  | _ => [] end.

Lemma memory_args_fold ps (m : smap Loc) :
  fold_left (fun m p => match p with
                        | (_, Some (Mk_Param _ _ (Some (StorageLocation_Memory loc)) (Some name))) =>
                            sm_insert (name_of name) loc m
                        | _ => m end) ps m =
  fold_left (fun m nl => sm_insert (fst nl) (snd nl) m) (flat_map mem_param_of ps) m.
Proof.
  revert m. induction ps as [|p ps IH]; intros m; [reflexivity|].
  cbn [fold_left flat_map]. rewrite fold_left_app, IH. f_equal.
  destruct p as [l [[pl ty [[sl|sl|sl]|] [nm|]]|]]; reflexivity.
Qed.

Lemma memory_args_closed f : get_function_definition_memory_args f = memory_args_of f.
Proof. unfold get_function_definition_memory_args, memory_args_of, memory_params. apply memory_args_fold. Qed.

Lemma memory_args_sound f k l :
  In (k, l) (memory_args_of f) -> In (k, l) (memory_params f).
Proof.
  unfold memory_args_of. generalize (memory_params f). intros ps.
  assert (G : forall m, In (k, l) (fold_left (fun m nl => sm_insert (fst nl) (snd nl) m) ps m) -> In (k, l) m \/ In (k, l) ps).
  { induction ps as [|[n a] ps IH]; intros m H; [left; exact H|].
    cbn [fold_left] in H. apply IH in H. destruct H as [H|H]; [|right; right; exact H].
    apply sm_insert_in in H. cbn [fst snd] in H. destruct H as [[-> ->]|[H _]]; [right; left; reflexivity|left; exact H]. }
  intros H. apply G in H. destruct H as [[]|H]. exact H.
Qed.

Lemma memory_args_complete f k l :
  NoDup (map fst (memory_params f)) -> In (k, l) (memory_params f) -> In (k, l) (memory_args_of f).
Proof.
  unfold memory_args_of. generalize (memory_params f) (@nil (string * Loc)). intros ps.
  induction ps as [|[n a] ps IH]; intros m Hd Hin; [destruct Hin|].
  cbn [map fst] in Hd. inversion Hd as [|? ? Hn Hd']; subst. cbn [fold_left fst snd].
  destruct Hin as [H|H].
  - inversion H; subst.
    assert (K : forall ps m, ~ In k (map fst ps) -> In (k, l) m ->
                             In (k, l) (fold_left (fun m nl => sm_insert (fst nl) (snd nl) m) ps m)).
    { clear. induction ps as [|[n a] ps IH]; intros m Hn Hin; [exact Hin|]. cbn [fold_left fst snd]. apply IH.
      - intros H. apply Hn. right. exact H.
      - apply sm_insert_in. right. split; [exact Hin|]. intros ->. apply Hn. left. reflexivity. }
    apply K; [exact Hn|]. apply sm_insert_in. left. split; reflexivity.
  - apply IH; assumption.
Qed.

Definition m2c_fn_closed_form (f : FunctionDefinition) : list Loc :=
  if is_constructor f then []
  else match FunctionDefinition_body f with
       | None => []
       | Some body => map snd (fold_left rm_assigned (exprs_in (pre_Statement body)) (memory_args_of f))
       end.

Lemma fold_rm_assigned_filter (p : Expression -> bool) es (m : smap Loc) :
  (forall e, p e = false -> assigned_param e = None) ->
  fold_left rm_assigned (filter p es) m = fold_left rm_assigned es m.
Proof.
  intros H. revert m. induction es as [|e es IH]; intros m; [reflexivity|].
  cbn [filter]. destruct (p e) eqn:E; cbn [fold_left]; [apply IH|].
  rewrite IH. f_equal. unfold rm_assigned. rewrite (H e E). reflexivity.
Qed.

Lemma m2c_fn_closed f : memory_to_calldata_fn f = Ok (m2c_fn_closed_form f).
Proof.
  unfold memory_to_calldata_fn, m2c_fn_closed_form. destruct (is_constructor f); [reflexivity|].
  destruct (FunctionDefinition_body f) as [body|]; [|reflexivity].
  rewrite memory_args_closed.
  rewrite extract_single_as_multi, extract_multi_lemma.
  change (fun m => existsb (Target_eqb (kind_of m)) [Target_Assign]) with (tsel [Target_Assign]).
  assert (Hn : Forall (fun n => is_expr_node n = true) (filter (tsel [Target_Assign]) (pre (N_Statement body))))
    by (apply tsel_expr_nodes; reflexivity).
  assert (G : forall ns m, Forall (fun n => is_expr_node n = true) ns ->
              foldM (fun m n => do e <- unwrap "assign_node.expression().unwrap()" (node_expression n) ;;
                                Ok (match assigned_param e with Some x => sm_remove x m | None => m end)) ns m
              = Ok (fold_left rm_assigned (exprs_in ns) m)).
  { intros ns m H. revert m. induction H as [|n ns Hn' Hns IH]; intros m; [reflexivity|].
    destruct n; try discriminate Hn'. cbn [foldM node_expression unwrap bind]. rewrite IH. reflexivity. }
  rewrite (G _ _ Hn). cbn [bind]. f_equal. f_equal. rewrite exprs_in_filter.
  apply fold_rm_assigned_filter. intros e He. destruct e; try reflexivity. cbn in He. discriminate He.
Qed.

Definition fn_of_node (n : node) : list FunctionDefinition :=
  match n with
  | N_ContractPart (ContractPart_FunctionDefinition f) => [f]
  | N_SourceUnitPart (SourceUnitPart_FunctionDefinition f) => [f]
  | _ => [] end.

Lemma fn_nodes_shape su :
  Forall (fun n => exists f, n = N_ContractPart (ContractPart_FunctionDefinition f) \/
                             n = N_SourceUnitPart (SourceUnitPart_FunctionDefinition f))
         (extract_target_from_node Target_FunctionDefinition (root su)).
Proof.
  rewrite fn_nodes_of_file. destruct su as [parts]. apply Forall_forall. intros n Hn.
  apply in_flat_map in Hn. destruct Hn as [p [_ Hn]].
  destruct p as [c|? ? ?|?|?|?|?|?|f|?|?|?|?]; try contradiction.
  - apply in_map_iff in Hn. destruct Hn as [q [<- Hq]]. apply filter_In in Hq. destruct Hq as [_ Hq].
    destruct q; try discriminate Hq. eexists. left. reflexivity.
  - destruct Hn as [<-|[]]. eexists. right. reflexivity.
Qed.

Lemma all_functions_extract su :
  all_functions su = flat_map fn_of_node (extract_target_from_node Target_FunctionDefinition (root su)).
Proof.
  unfold all_functions, all_nodes, root. rewrite extract_ksel.
  rewrite flat_map_filter_irrelevant; [reflexivity|].
  intros n Hn. destruct n as [s|e|su'|p|p]; try reflexivity; destruct p; try reflexivity; cbn in Hn; discriminate Hn.
Qed.

Theorem memory_to_calldata_closed su :
  memory_to_calldata_optimization su = Ok (flat_map m2c_fn_closed_form (all_functions su)).
Proof.
  unfold memory_to_calldata_optimization. rewrite all_functions_extract.
  rewrite (mapM_ok _ (fun n => flat_map m2c_fn_closed_form (fn_of_node n))).
  - cbn [rmap]. f_equal. rewrite flat_map_concat_map.
    induction (extract_target_from_node Target_FunctionDefinition (root su)) as [|n ns IH]; [reflexivity|].
    cbn [flat_map]. rewrite flat_map_app, IH. reflexivity.
  - eapply Forall_impl; [|apply fn_nodes_shape]. intros n [f [->| ->]]; cbn [fn_of_node flat_map];
      rewrite m2c_fn_closed, app_nil_r; reflexivity.
Qed.

Theorem m2c_between su :
  m2c_hyp su = true ->
  exists ls, memory_to_calldata_optimization su = Ok ls /\ incl (canon_m2c su) ls /\ incl ls (match_m2c su).
Proof.
  intros Hh. eexists. split; [apply memory_to_calldata_closed|].
  unfold m2c_hyp in Hh. rewrite forallb_forall in Hh.
  split; unfold canon_m2c, match_m2c, m2c_where; intros l Hl; apply in_flat_map in Hl; destruct Hl as [f [Hf Hl]];
    apply in_flat_map; exists f; (split; [exact Hf|]).
  - destruct (sp_pub_ext f && sp_has_body f && negb (sp_is_ctor f)) eqn:E; [|destruct Hl].
    apply andb_prop in E. destruct E as [E Hc]. apply andb_prop in E. destruct E as [_ Hb].
    unfold m2c_fn_closed_form. change (is_constructor f) with (sp_is_ctor f).
    apply negb_true_iff in Hc. rewrite Hc. unfold sp_has_body in Hb. unfold assigned_in_body in Hl.
    destruct (FunctionDefinition_body f) as [body|]; [|discriminate Hb].
    apply in_flat_map in Hl. destruct Hl as [[k a] [Hin Hl]]. cbn [fst snd] in Hl.
    destruct (mem_str k (flat_map sp_assigned_param (exprs_in (pre_Statement body)))) eqn:Em; [destruct Hl|].
    destruct Hl as [<-|[]]. apply in_map_iff. exists (k, a). split; [reflexivity|].
    apply rm_assigned_in. split.
    + apply memory_args_complete; [|exact Hin]. specialize (Hh f Hf). clear - Hh.
      induction (map fst (memory_params f)) as [|x xs IH]; [constructor|]. cbn [nodupb] in Hh.
      apply andb_prop in Hh. destruct Hh as [H1 H2]. constructor; [|apply IH; exact H2].
      intros Hin. apply negb_true_iff in H1. apply mem_str_in in Hin. unfold mem_str in Hin. rewrite Hin in H1. discriminate H1.
    + intros Hin'. apply mem_str_in in Hin'. rewrite Hin' in Em. discriminate Em.
  - unfold m2c_fn_closed_form in Hl. change (is_constructor f) with (sp_is_ctor f) in Hl.
    destruct (sp_is_ctor f); [destruct Hl|]. unfold sp_has_body, assigned_in_body.
    destruct (FunctionDefinition_body f) as [body|]; [|destruct Hl]. cbn [andb negb].
    apply in_map_iff in Hl. destruct Hl as [[k a] [<- Hin]]. apply rm_assigned_in in Hin. destruct Hin as [Hin Hn].
    apply memory_args_sound in Hin. apply in_flat_map. exists (k, a). split; [exact Hin|]. cbn [fst snd].
    destruct (mem_str k (flat_map sp_assigned_param (exprs_in (pre_Statement body)))) eqn:Em; [|left; reflexivity].
    exfalso. apply Hn. apply mem_str_in. exact Em.
Qed.

(* ---------------------------------------------------------------- immutable_variables *)
Section Immutable.
  Variable sv : smap sv_entry.

  Definition add_ctor_assign (m : smap Loc) (e : Expression) : smap Loc :=
    match e with
    | Expression_Assign _ lhs rhs =>
        if is_a_non_value_type rhs then m
        else match lhs with
             | Expression_Variable id =>
                 match sm_get (name_of id) sv with
                 | Some ent => sm_insert (name_of id) (snd ent) m
                 | None => m
                 end
             | _ => m
             end
    | _ => m
    end.

  (* (k, l) is a legitimate potential entry: l is the location recorded for k in the table *)
  Definition legit (k : string) (l : Loc) : Prop := exists ent, sm_get k sv = Some ent /\ l = snd ent.

  Lemma add_ctor_assign_in m e k l :
    In (k, l) (add_ctor_assign m e) ->
    In (k, l) m \/ (legit k l /\ exists a id rhs, e = Expression_Assign a (Expression_Variable id) rhs /\
                                                 is_a_non_value_type rhs = false /\ k = name_of id).
  Proof.
    unfold add_ctor_assign. destruct e; try (intros H; left; exact H).
    match goal with |- context [is_a_non_value_type ?r] => destruct (is_a_non_value_type r) eqn:En end; [intros H; left; exact H|].
    match goal with |- context [match ?l0 with Expression_Variable _ => _ | _ => _ end] => destruct l0; try (intros H; left; exact H) end.
    match goal with |- context [sm_get ?k0 sv] => destruct (sm_get k0 sv) as [ent|] eqn:Eg end; [|intros H; left; exact H].
    intros H. apply sm_insert_in in H. destruct H as [[-> ->]|[H _]]; [|left; exact H].
    right. split; [exists ent; split; [exact Eg|reflexivity]|]. do 3 eexists. split; [reflexivity|]. split; [exact En|reflexivity].
  Qed.

  Lemma add_ctor_assign_keep m e k l : legit k l -> In (k, l) m -> In (k, l) (add_ctor_assign m e).
  Proof.
    intros [ent [Hg ->]] Hin. unfold add_ctor_assign. destruct e; try exact Hin.
    match goal with |- context [is_a_non_value_type ?r] => destruct (is_a_non_value_type r) end; [exact Hin|].
    match goal with |- context [match ?l0 with Expression_Variable _ => _ | _ => _ end] => destruct l0; try exact Hin end.
    match goal with |- context [sm_get ?k0 sv] => destruct (sm_get k0 sv) as [ent'|] eqn:Eg end; [|exact Hin].
    apply sm_insert_in.
    match goal with |- context [name_of ?i] => destruct (String.eqb k (name_of i)) eqn:E end.
    - apply String.eqb_eq in E. subst k. left. split; [reflexivity|]. rewrite Eg in Hg. inversion Hg. reflexivity.
    - apply String.eqb_neq in E. right. split; assumption.
  Qed.

  Lemma add_ctor_assign_hit m a id rhs ent :
    is_a_non_value_type rhs = false -> sm_get (name_of id) sv = Some ent ->
    In (name_of id, snd ent) (add_ctor_assign m (Expression_Assign a (Expression_Variable id) rhs)).
  Proof.
    intros Hn Hg. unfold add_ctor_assign. rewrite Hn, Hg. apply sm_insert_in. left. split; reflexivity.
  Qed.

  Lemma fold_ctor_assign_in es m k l :
    In (k, l) (fold_left add_ctor_assign es m) ->
    In (k, l) m \/ (legit k l /\ exists a id rhs, In (Expression_Assign a (Expression_Variable id) rhs) es /\
                                                 is_a_non_value_type rhs = false /\ k = name_of id).
  Proof.
    revert m. induction es as [|e es IH]; intros m H; [left; exact H|].
    cbn [fold_left] in H. apply IH in H. destruct H as [H|[Hl [a [id [rhs [Hin H]]]]]].
    - apply add_ctor_assign_in in H. destruct H as [H|[Hl [a [id [rhs [-> H]]]]]]; [left; exact H|].
      right. split; [exact Hl|]. exists a, id, rhs. split; [left; reflexivity|exact H].
    - right. split; [exact Hl|]. exists a, id, rhs. split; [right; exact Hin|exact H].
  Qed.

  Lemma fold_ctor_assign_keep es m k l : legit k l -> In (k, l) m -> In (k, l) (fold_left add_ctor_assign es m).
  Proof.
    intros Hl. revert m. induction es as [|e es IH]; intros m H; [exact H|].
    cbn [fold_left]. apply IH. apply add_ctor_assign_keep; assumption.
  Qed.

  Lemma fold_ctor_assign_hit es m a id rhs ent :
    In (Expression_Assign a (Expression_Variable id) rhs) es ->
    is_a_non_value_type rhs = false -> sm_get (name_of id) sv = Some ent ->
    In (name_of id, snd ent) (fold_left add_ctor_assign es m).
  Proof.
    revert m. induction es as [|e es IH]; intros m Hin Hn Hg; [destruct Hin|].
    cbn [fold_left]. destruct Hin as [->|Hin].
    - apply fold_ctor_assign_keep; [exists ent; split; [exact Hg|reflexivity]|]. apply add_ctor_assign_hit; assumption.
    - apply IH; assumption.
  Qed.
End Immutable.

Lemma add_constructor_assignments_ok sv ns m :
  Forall (fun n => is_expr_node n = true) ns ->
  foldM (add_constructor_assignments sv) ns m = Ok (fold_left (add_ctor_assign sv) (exprs_in ns) m).
Proof.
  intros H. revert m. induction H as [|n ns Hn Hns IH]; intros m; [reflexivity|].
  destruct n; try discriminate Hn. cbn [foldM]. unfold add_constructor_assignments at 1.
  cbn [node_expression unwrap bind]. rewrite IH. reflexivity.
Qed.

Definition ctor_assign_exprs (f : FunctionDefinition) : list Expression :=
  exprs_in (extract_target_from_node Target_Assign (N_ContractPart (ContractPart_FunctionDefinition f))).
Definition write_exprs (f : FunctionDefinition) : list Expression :=
  exprs_in (extract_targets_from_node write_targets (N_ContractPart (ContractPart_FunctionDefinition f))).

Definition pot_step (sv : smap sv_entry) (m : smap Loc) (f : FunctionDefinition) : smap Loc :=
  if is_constructor f then fold_left (add_ctor_assign sv) (ctor_assign_exprs f) m else m.
Definition rm_step (m : smap Loc) (f : FunctionDefinition) : smap Loc :=
  if is_constructor f then m else fold_left rm_written (write_exprs f) m.

Lemma assign_nodes_are_exprs n :
  Forall (fun m => is_expr_node m = true) (extract_target_from_node Target_Assign n).
Proof.
  rewrite extract_single_as_multi, extract_multi_lemma.
  change (fun m => existsb (Target_eqb (kind_of m)) [Target_Assign]) with (tsel [Target_Assign]).
  apply tsel_expr_nodes. reflexivity.
Qed.

Theorem immutable_closed su :
  immutable_variables_optimization su =
  Ok (map snd (fold_left rm_step (member_functions su)
                         (fold_left (pot_step (sv_table true true su)) (member_functions su) []))).
Proof.
  unfold immutable_variables_optimization. rewrite sv_closed. cbn [bind].
  unfold get_storage_variables_assigned_in_constructor. rewrite contract_function_parts_closed. cbn [bind].
  set (sv := sv_table true true su).
  assert (P : forall fs m, foldM (fun m cp => match cp with
                                              | ContractPart_FunctionDefinition f =>
                                                  if is_constructor f
                                                  then foldM (add_constructor_assignments sv)
                                                             (extract_target_from_node Target_Assign (N_ContractPart cp)) m
                                                  else Ok m
                                              | _ => Ok m end) (map ContractPart_FunctionDefinition fs) m
                           = Ok (fold_left (pot_step sv) fs m)).
  { induction fs as [|f fs IH]; intros m; [reflexivity|]. cbn [map foldM fold_left]. unfold pot_step at 2.
    destruct (is_constructor f); cbn [bind]; [|apply IH].
    rewrite add_constructor_assignments_ok by apply assign_nodes_are_exprs. cbn [bind]. apply IH. }
  rewrite P. cbn [bind].
  assert (R : forall fs m, foldM (fun m cp => match cp with
                                              | ContractPart_FunctionDefinition f =>
                                                  if is_constructor f then Ok m
                                                  else remove_written (extract_targets_from_node write_targets (N_ContractPart cp)) m
                                              | _ => Ok m end) (map ContractPart_FunctionDefinition fs) m
                           = Ok (fold_left rm_step fs m)).
  { induction fs as [|f fs IH]; intros m; [reflexivity|]. cbn [map foldM fold_left]. unfold rm_step at 2.
    destruct (is_constructor f); cbn [bind]; [apply IH|].
    rewrite remove_written_ok by apply write_nodes_are_exprs. cbn [bind]. apply IH. }
  rewrite R. reflexivity.
Qed.

Lemma pot_fold_in sv fs m k l :
  In (k, l) (fold_left (pot_step sv) fs m) ->
  In (k, l) m \/ (legit sv k l /\ exists f a id rhs, In f fs /\ is_constructor f = true /\
                     In (Expression_Assign a (Expression_Variable id) rhs) (ctor_assign_exprs f) /\
                     is_a_non_value_type rhs = false /\ k = name_of id).
Proof.
  revert m. induction fs as [|f fs IH]; intros m H; [left; exact H|].
  cbn [fold_left] in H. apply IH in H. destruct H as [H|[Hl [g [a [id [rhs [Hg H]]]]]]].
  - unfold pot_step in H. destruct (is_constructor f) eqn:Ec; [|left; exact H].
    apply fold_ctor_assign_in in H. destruct H as [H|[Hl [a [id [rhs [Hin H]]]]]]; [left; exact H|].
    right. split; [exact Hl|]. exists f, a, id, rhs. split; [left; reflexivity|]. split; [exact Ec|]. split; [exact Hin|exact H].
  - right. split; [exact Hl|]. exists g, a, id, rhs. split; [right; exact Hg|exact H].
Qed.

Lemma pot_fold_keep sv fs m k l : legit sv k l -> In (k, l) m -> In (k, l) (fold_left (pot_step sv) fs m).
Proof.
  intros Hl. revert m. induction fs as [|f fs IH]; intros m H; [exact H|].
  cbn [fold_left]. apply IH. unfold pot_step. destruct (is_constructor f); [|exact H].
  apply fold_ctor_assign_keep; assumption.
Qed.

Lemma pot_fold_hit sv fs m f a id rhs ent :
  In f fs -> is_constructor f = true ->
  In (Expression_Assign a (Expression_Variable id) rhs) (ctor_assign_exprs f) ->
  is_a_non_value_type rhs = false -> sm_get (name_of id) sv = Some ent ->
  In (name_of id, snd ent) (fold_left (pot_step sv) fs m).
Proof.
  revert m. induction fs as [|g fs IH]; intros m Hin Hc He Hn Hg; [destruct Hin|].
  cbn [fold_left]. destruct Hin as [->|Hin].
  - apply pot_fold_keep; [exists ent; split; [exact Hg|reflexivity]|].
    unfold pot_step. rewrite Hc. eapply fold_ctor_assign_hit; eassumption.
  - eapply IH; eassumption.
Qed.

Lemma rm_fold_in fs m k l :
  In (k, l) (fold_left rm_step fs m) <->
  In (k, l) m /\ ~ In k (flat_map (fun f => if is_constructor f then [] else flat_map sp_written (write_exprs f)) fs).
Proof.
  revert m. induction fs as [|f fs IH]; intros m; [cbn; tauto|].
  cbn [fold_left flat_map]. rewrite IH, in_app_iff. unfold rm_step.
  destruct (is_constructor f); [cbn [In]; tauto|]. rewrite rm_written_in. tauto.
Qed.

Lemma member_fn_parts_iff su (q : FunctionDefinition -> bool) cp :
  In cp (flat_map (fun c => filter (fun p => match p with ContractPart_FunctionDefinition f => q f | _ => false end)
                                   (ContractDefinition_parts c)) (contracts su)) <->
  exists f, cp = ContractPart_FunctionDefinition f /\ In f (member_functions su) /\ q f = true.
Proof.
  unfold member_functions. rewrite in_flat_map. split.
  - intros [c [Hc Hin]]. apply filter_In in Hin. destruct Hin as [Hin Hq].
    destruct cp; try discriminate Hq. eexists. split; [reflexivity|]. split; [|exact Hq].
    apply in_flat_map. exists c. split; [exact Hc|]. unfold functions_of. apply in_flat_map.
    eexists. split; [exact Hin|]. left. reflexivity.
  - intros [f [-> [Hin Hq]]]. apply in_flat_map in Hin. destruct Hin as [c [Hc Hin]]. exists c. split; [exact Hc|].
    apply filter_In. split; [|exact Hq]. unfold functions_of in Hin. apply in_flat_map in Hin.
    destruct Hin as [p [Hp Hf]]. destruct p; try contradiction. destruct Hf as [<-|[]]. exact Hp.
Qed.

Lemma assign_in_extract e n :
  (exists a l r, e = Expression_Assign a l r) ->
  (In e (exprs_in (extract_target_from_node Target_Assign n)) <-> In e (exprs_in (pre n))).
Proof.
  intros [a [l [r ->]]]. rewrite extract_single_as_multi, extract_multi_lemma.
  change (fun m => existsb (Target_eqb (kind_of m)) [Target_Assign]) with (tsel [Target_Assign]).
  rewrite exprs_in_filter, filter_In. split; [intros [H _]; exact H|intros H; split; [exact H|reflexivity]].
Qed.

Lemma written_outside_iff su k :
  In k (flat_map (fun f => if is_constructor f then [] else flat_map sp_written (write_exprs f)) (member_functions su)) <->
  In k (written_outside_ctor su).
Proof.
  unfold written_outside_ctor, non_ctor_fn_parts. rewrite !in_flat_map. split.
  - intros [f [Hf Hk]]. destruct (is_constructor f) eqn:Ec; [destruct Hk|].
    exists (ContractPart_FunctionDefinition f). split.
    + apply (member_fn_parts_iff su (fun f => negb (sp_is_ctor f))). exists f. split; [reflexivity|]. split; [exact Hf|].
      change (sp_is_ctor f) with (is_constructor f). rewrite Ec. reflexivity.
    + unfold write_exprs in Hk. rewrite written_of_extract in Hk. exact Hk.
  - intros [cp [Hcp Hk]]. apply (member_fn_parts_iff su (fun f => negb (sp_is_ctor f))) in Hcp.
    destruct Hcp as [f [-> [Hf Hq]]]. exists f. split; [exact Hf|].
    change (is_constructor f) with (sp_is_ctor f). apply negb_true_iff in Hq. rewrite Hq.
    unfold write_exprs. rewrite written_of_extract. exact Hk.
Qed.

Lemma non_value_sp rhs : is_a_non_value_type rhs = negb (sp_value_looking rhs).
Proof.
  destruct rhs; try reflexivity. unfold is_a_non_value_type, sp_value_looking.
  match goal with |- context [match ?c with _ => _ end] => destruct c; try reflexivity end.
  - match goal with |- context [match ?c with Expression_Variable _ => _ | _ => _ end] => destruct c; try reflexivity end.
    unfold name_of, idname. rewrite negb_involutive. reflexivity.
  - match goal with |- context [match ?t with Ty_DynamicBytes => _ | _ => _ end] => destruct t; reflexivity end.
Qed.

Lemma ctor_assigned_iff (p : Expression -> bool) su k :
  In k (ctor_assigned p su) <->
  exists f a id rhs, In f (member_functions su) /\ is_constructor f = true /\
                     In (Expression_Assign a (Expression_Variable id) rhs) (ctor_assign_exprs f) /\
                     p rhs = true /\ k = name_of id.
Proof.
  unfold ctor_assigned, ctor_parts. rewrite in_flat_map. split.
  - intros [cp [Hcp Hk]]. apply (member_fn_parts_iff su sp_is_ctor) in Hcp. destruct Hcp as [f [-> [Hf Hc]]].
    apply in_flat_map in Hk. destruct Hk as [e [He Hk]].
    destruct e; try contradiction.
    match type of Hk with context [match ?l with Expression_Variable _ => _ | _ => _ end] => destruct l; try contradiction end.
    match type of Hk with context [p ?r] => destruct (p r) eqn:Ep; [|contradiction] end.
    destruct Hk as [<-|[]]. do 4 eexists. split; [exact Hf|]. split; [exact Hc|]. split; [|split; [exact Ep|reflexivity]].
    unfold ctor_assign_exprs. apply assign_in_extract; [do 3 eexists; reflexivity|exact He].
  - intros [f [a [id [rhs [Hf [Hc [He [Hp ->]]]]]]]]. exists (ContractPart_FunctionDefinition f). split.
    + apply (member_fn_parts_iff su sp_is_ctor). exists f. split; [reflexivity|]. split; [exact Hf|exact Hc].
    + apply in_flat_map. exists (Expression_Assign a (Expression_Variable id) rhs). split.
      * unfold ctor_assign_exprs in He. apply assign_in_extract in He; [exact He|do 3 eexists; reflexivity].
      * rewrite Hp. left. reflexivity.
Qed.

Theorem immutable_between su :
  NoDup (state_var_names su) ->
  exists ls, immutable_variables_optimization su = Ok ls /\
             incl (canon_immutable su) ls /\ incl ls (match_immutable su).
Proof.
  intros Hd. eexists. split; [apply immutable_closed|]. set (sv := sv_table true true su). split.
  - intros l Hl. unfold canon_immutable, vars_where, select in Hl. apply in_map_iff in Hl.
    destruct Hl as [v [<- Hv]]. apply filter_In in Hv. destruct Hv as [Hin Hp].
    apply andb_prop in Hp. destruct Hp as [Hp Hw]. apply andb_prop in Hp. destruct Hp as [Hp Ha].
    apply andb_prop in Hp. destruct Hp as [Hp Hi]. apply andb_prop in Hp. destruct Hp as [Hvt Hc].
    apply mem_str_in in Ha. apply ctor_assigned_iff in Ha.
    destruct Ha as [f [a [id [rhs [Hf [Hcf [He [Hvl Hk]]]]]]]].
    assert (Hg : sm_get (var_name v) sv = Some (entry v)).
    { apply sm_get_in; [apply sv_table_nodup|]. apply sv_table_complete; [exact Hd|exact Hin|].
      rewrite cand_tt, Hc, Hi. cbn. apply value_typed_builtin. exact Hvt. }
    apply in_map_iff. exists (var_name v, sp_type_loc v). split; [reflexivity|].
    apply rm_fold_in. split.
    + rewrite Hk in Hg |- *. change (sp_type_loc v) with (snd (entry v)).
      eapply pot_fold_hit; try eassumption. rewrite non_value_sp, Hvl. reflexivity.
    + intros Hx. apply written_outside_iff in Hx. apply mem_str_in in Hx. rewrite Hx in Hw. discriminate Hw.
  - intros l Hl. apply in_map_iff in Hl. destruct Hl as [[k l'] [<- Hin]]. cbn [snd].
    apply rm_fold_in in Hin. destruct Hin as [Hin Hw]. apply pot_fold_in in Hin.
    destruct Hin as [[]|[[ent [Hg ->]] [f [a [id [rhs [Hf [Hc [He [Hn Hk]]]]]]]]]].
    apply sm_get_some_in in Hg. apply sv_table_sound in Hg. destruct Hg as [v [Hv [Hcand [Hkv ->]]]].
    rewrite cand_tt in Hcand. apply andb_prop in Hcand. destruct Hcand as [Hcand Hb]. apply andb_prop in Hcand.
    destruct Hcand as [Hc' Hi].
    unfold match_immutable, vars_where, select. apply in_map_iff. exists v. split; [reflexivity|].
    apply filter_In. split; [exact Hv|]. rewrite Hb, Hc', Hi. cbn [andb].
    assert (Ha : mem_str (var_name v) (ctor_assigned (fun _ => true) su) = true).
    { apply mem_str_in. apply ctor_assigned_iff. exists f, a, id, rhs. split; [exact Hf|]. split; [exact Hc|].
      split; [exact He|]. split; [reflexivity|]. rewrite <- Hkv. exact Hk. }
    rewrite Ha. cbn [andb].
    destruct (mem_str (var_name v) (written_outside_ctor su)) eqn:E; [|reflexivity].
    exfalso. apply Hw. apply written_outside_iff. apply mem_str_in. rewrite Hkv. exact E.
Qed.
