(* C17 (model part), detectors of C08 / C09 / C10: the ten detectors below are equivariant
   under renaming of source locations.  Each is proved, directly on the model definition, in
   the strong form   d (mapl_SourceUnit r su) = rmap (map r) (d su)
   (same list, same order, same panic site), from which the uniform statement
   `equivariant3 r d` follows.  None of the ten detectors compares two locations, so the
   injectivity premise of the theorems is not used. *)
From Coq Require Import List String Ascii NArith ZArith Bool.
Import ListNotations.
From Solstat Require Import Lift Pt Walk Res Nodes Utils Detectors Opt_pack WalkProof MapLoc.
Local Open Scope string_scope.
Local Open Scope list_scope.

Definition equivariant3 (r : Loc -> Loc) (d : SourceUnit -> res (list Loc)) : Prop :=
  forall su locs, d su = Ok locs ->
  exists locs', d (mapl_SourceUnit r su) = Ok locs' /\ forall l, In l locs' <-> In l (map r locs).

(* the strong form *)
Definition commutes3 (r : Loc -> Loc) (d : SourceUnit -> res (list Loc)) : Prop :=
  forall su, d (mapl_SourceUnit r su) = rmap (map r) (d su).

Lemma commutes3_equivariant3 r d : commutes3 r d -> equivariant3 r d.
Proof.
  intros H su locs Hd. exists (map r locs). rewrite H, Hd. split; [reflexivity|]. intros l. split; exact (fun x => x).
Qed.

(* ------------------------------------------------------------------ generic list / monad facts *)
Lemma mapM_map_eqv {A A' B B'} (f : A -> res B) (f' : A' -> res B') (g : A -> A') (h : B -> B') l :
  (forall x, f' (g x) = rmap h (f x)) -> mapM f' (map g l) = rmap (map h) (mapM f l).
Proof.
  intros H. induction l as [|x l IH]; [reflexivity|]. cbn [map mapM]. rewrite H, IH.
  destruct (f x) as [y|s]; [|reflexivity]. cbn [rmap bind]. destruct (mapM f l) as [ys|s]; reflexivity.
Qed.

Lemma foldM_map_eqv {A A' S S'} (f : S -> A -> res S) (f' : S' -> A' -> res S') (g : A -> A') (h : S -> S') l :
  (forall s x, f' (h s) (g x) = rmap h (f s x)) -> forall s, foldM f' (map g l) (h s) = rmap h (foldM f l s).
Proof.
  intros H. induction l as [|x l IH]; intros s; [reflexivity|]. cbn [map foldM]. rewrite H.
  destruct (f s x) as [s'|e]; [|reflexivity]. cbn [rmap bind]. apply IH.
Qed.

Lemma fold_left_map_eqv {A A' S S'} (f : S -> A -> S) (f' : S' -> A' -> S') (g : A -> A') (h : S -> S') l :
  (forall s x, f' (h s) (g x) = h (f s x)) -> forall s, fold_left f' (map g l) (h s) = h (fold_left f l s).
Proof.
  intros H. induction l as [|x l IH]; intros s; [reflexivity|]. cbn [map fold_left]. rewrite H. apply IH.
Qed.

Lemma existsb_map_eqv {A A'} (p : A -> bool) (p' : A' -> bool) (g : A -> A') l :
  (forall x, p' (g x) = p x) -> existsb p' (map g l) = existsb p l.
Proof. intros H. induction l as [|x l IH]; [reflexivity|]. cbn [map existsb]. rewrite H, IH. reflexivity. Qed.

Lemma rmap_concat_map {A B} (h : A -> B) (x : res (list (list A))) :
  rmap (@List.concat B) (rmap (map (map h)) x) = rmap (map h) (rmap (@List.concat A) x).
Proof. destruct x as [ls|s]; [|reflexivity]. cbn [rmap]. rewrite concat_map. reflexivity. Qed.

(* ------------------------------------------------------------------ HashMap<String, V> with renamed values *)
Definition mv {V W} (f : V -> W) (m : smap V) : smap W := map (fun kv => (fst kv, f (snd kv))) m.

Lemma mv_remove {V W} (f : V -> W) k m : sm_remove k (mv f m) = mv f (sm_remove k m).
Proof.
  induction m as [|[k' v] m IH]; [reflexivity|]. cbn [mv map sm_remove fst snd]. fold (mv f m).
  destruct (String.eqb k k'); [exact IH|]. cbn [mv map fst snd]. fold (mv f (sm_remove k m)). rewrite IH. reflexivity.
Qed.
Lemma mv_insert {V W} (f : V -> W) k v m : sm_insert k (f v) (mv f m) = mv f (sm_insert k v m).
Proof. unfold sm_insert. rewrite mv_remove. reflexivity. Qed.
Lemma mv_get {V W} (f : V -> W) k m : sm_get k (mv f m) = match sm_get k m with Some v => Some (f v) | None => None end.
Proof.
  induction m as [|[k' v] m IH]; [reflexivity|]. cbn [mv map sm_get fst snd]. fold (mv f m).
  destruct (String.eqb k k'); [reflexivity|exact IH].
Qed.
Lemma mv_contains {V W} (f : V -> W) k m : sm_contains k (mv f m) = sm_contains k m.
Proof. unfold sm_contains. rewrite mv_get. destruct (sm_get k m); reflexivity. Qed.
Lemma mv_snd {V W} (f : V -> W) m : map snd (mv f m) = map f (map snd m).
Proof. unfold mv. rewrite !map_map. reflexivity. Qed.

Section Eqv3.
  Variable r : Loc -> Loc.

  Ltac mcbn :=
    autorewrite with mapl_eqs; cbn [mapl_Loc map flat_map app].

  (* ---------------------------------------------------------------- small facts *)
  Lemma name_of_mapl i : name_of (mapl_Identifier r i) = name_of i.
  Proof. destruct i. reflexivity. Qed.
  Lemma strlit_string_mapl l : StringLiteral_string (mapl_StringLiteral r l) = StringLiteral_string l.
  Proof. destruct l. reflexivity. Qed.
  Lemma strlit_loc_mapl l : StringLiteral_loc (mapl_StringLiteral r l) = r (StringLiteral_loc l).
  Proof. destruct l. reflexivity. Qed.

  Lemma root_mapl su : root (mapl_SourceUnit r su) = mapl_node r (root su).
  Proof. reflexivity. Qed.
  Lemma ext_mapl t n : extract_target_from_node t (mapl_node r n) = map (mapl_node r) (extract_target_from_node t n).
  Proof. apply walk_mapl. Qed.
  Lemma exts_mapl ts n : extract_targets_from_node ts (mapl_node r n) = map (mapl_node r) (extract_targets_from_node ts n).
  Proof. apply walk_mapl. Qed.

  Lemma each_expr_eqv ns (f f' : Expression -> list Loc) :
    (forall e, f' (mapl_Expression r e) = map r (f e)) ->
    each_expr (map (mapl_node r) ns) f' = rmap (map r) (each_expr ns f).
  Proof.
    intros H. unfold each_expr.
    rewrite (mapM_map_eqv (fun n => rmap f (unwrap "node.expression().unwrap()" (node_expression n))) _ (mapl_node r) (map r)).
    - apply rmap_concat_map.
    - intros n. destruct n; cbn [mapl_node node_expression unwrap rmap]; rewrite ?H; reflexivity.
  Qed.

  Lemma unwrap_expr_mapl s n :
    unwrap s (node_expression (mapl_node r n)) = rmap (mapl_Expression r) (unwrap s (node_expression n)).
  Proof. destruct n; reflexivity. Qed.
  Lemma unwrap_sup_mapl s n :
    unwrap s (node_source_unit_part (mapl_node r n)) = rmap (mapl_SourceUnitPart r) (unwrap s (node_source_unit_part n)).
  Proof. destruct n; reflexivity. Qed.
  Lemma unwrap_cp_mapl s n :
    unwrap s (node_contract_part (mapl_node r n)) = rmap (mapl_ContractPart r) (unwrap s (node_contract_part n)).
  Proof. destruct n; reflexivity. Qed.

  Lemma contract_nodes_mapl su : contract_nodes (mapl_SourceUnit r su) = map (mapl_node r) (contract_nodes su).
  Proof. unfold contract_nodes. rewrite root_mapl. apply ext_mapl. Qed.

  (* ---------------------------------------------------------------- the state-variable table *)
  Definition ren_ent (e : sv_entry) : sv_entry :=
    (match fst e with Some a => Some (map (mapl_VariableAttribute r) a) | None => None end, r (snd e)).

  Lemma var_skipped_mapl ic ii attrs : var_skipped ic ii (map (mapl_VariableAttribute r) attrs) = var_skipped ic ii attrs.
  Proof. unfold var_skipped. apply existsb_map_eqv. intros a. destruct a; reflexivity. Qed.

  Lemma add_var_mapl ic ii m v :
    add_var ic ii (mv ren_ent m) (mapl_VariableDefinition r v) = mv ren_ent (add_var ic ii m v).
  Proof.
    destruct v as [l ty attrs nm oi]. cbn [mapl_VariableDefinition add_var]. rewrite var_skipped_mapl.
    destruct (var_skipped ic ii attrs); [reflexivity|].
    destruct ty; mcbn; try reflexivity.
    match goal with |- context [match mapl_Ty r ?t with _ => _ end] => destruct t end; mcbn; try reflexivity;
      rewrite name_of_mapl, <- mv_insert; destruct attrs; reflexivity.
  Qed.

  Lemma add_part_vars_mapl ic ii m p :
    add_part_vars ic ii (mv ren_ent m) (mapl_ContractPart r p) = mv ren_ent (add_part_vars ic ii m p).
  Proof. destruct p; try reflexivity. apply add_var_mapl. Qed.

  Lemma add_contract_vars_mapl ic ii m p :
    add_contract_vars ic ii (mv ren_ent m) (mapl_SourceUnitPart r p) = mv ren_ent (add_contract_vars ic ii m p).
  Proof.
    destruct p; try reflexivity. destruct a0 as [l ty nm bases parts].
    cbn [mapl_SourceUnitPart mapl_ContractDefinition add_contract_vars ContractDefinition_parts].
    apply fold_left_map_eqv. intros s x. apply add_part_vars_mapl.
  Qed.

  Lemma sv_mapl su ic ii :
    get_32_byte_storage_variables (mapl_SourceUnit r su) ic ii = rmap (mv ren_ent) (get_32_byte_storage_variables su ic ii).
  Proof.
    unfold get_32_byte_storage_variables. rewrite contract_nodes_mapl.
    rewrite (mapM_map_eqv (fun n => unwrap "node.source_unit_part().unwrap()" (node_source_unit_part n)) _
                          (mapl_node r) (mapl_SourceUnitPart r)) by (intros n; apply unwrap_sup_mapl).
    destruct (mapM _ (contract_nodes su)) as [parts|s]; [|reflexivity]. cbn [rmap bind]. f_equal.
    change (@nil (string * sv_entry)) with (mv ren_ent []) at 1.
    apply fold_left_map_eqv. intros s x. apply add_contract_vars_mapl.
  Qed.

  (* ---------------------------------------------------------------- written names *)
  Lemma is_Variable_named_mapl e : is_Variable_named (mapl_Expression r e) = is_Variable_named e.
  Proof. destruct e; try reflexivity. mcbn. cbn [is_Variable_named]. rewrite name_of_mapl. reflexivity. Qed.

  Lemma written_name_mapl e : written_name (mapl_Expression r e) = written_name e.
  Proof. destruct e; try reflexivity; mcbn; cbn [written_name]; apply is_Variable_named_mapl. Qed.

  Lemma remove_written_mapl {V W} (h : V -> W) ns (m : smap V) :
    remove_written (map (mapl_node r) ns) (mv h m) = rmap (mv h) (remove_written ns m).
  Proof.
    unfold remove_written. apply foldM_map_eqv. intros s n. rewrite unwrap_expr_mapl.
    destruct (unwrap _ (node_expression n)) as [e|x]; [|reflexivity]. cbn [rmap bind]. rewrite written_name_mapl.
    destruct (written_name e); [rewrite mv_remove|]; reflexivity.
  Qed.

  (* ---------------------------------------------------------------- constant_variable *)
  Lemma constant_variable_commutes : commutes3 r constant_variable_optimization.
  Proof.
    intros su. unfold constant_variable_optimization. rewrite sv_mapl.
    destruct (get_32_byte_storage_variables su true false) as [sv|s]; [|reflexivity]. cbn [rmap bind].
    rewrite root_mapl, exts_mapl, remove_written_mapl.
    destruct (remove_written _ sv) as [m|s]; [|reflexivity]. cbn [rmap bind]. f_equal.
    unfold mv. rewrite !map_map. reflexivity.
  Qed.

  (* ---------------------------------------------------------------- sstore *)
  Lemma sstore_commutes : commutes3 r sstore_optimization.
  Proof.
    intros su. unfold sstore_optimization. rewrite sv_mapl.
    destruct (get_32_byte_storage_variables su true true) as [sv|s]; [|reflexivity]. cbn [rmap bind].
    rewrite root_mapl, ext_mapl. apply each_expr_eqv.
    intros e. destruct e; try reflexivity. mcbn.
    match goal with |- context [match mapl_Expression r ?c with _ => _ end] => destruct c; try reflexivity end.
    mcbn. rewrite name_of_mapl, mv_contains. destruct (sm_contains _ sv); reflexivity.
  Qed.

  (* ---------------------------------------------------------------- immutable_variables *)
  Lemma contract_function_parts_mapl su :
    contract_function_parts (mapl_SourceUnit r su) = rmap (map (mapl_ContractPart r)) (contract_function_parts su).
  Proof.
    unfold contract_function_parts. rewrite contract_nodes_mapl.
    rewrite (mapM_map_eqv (fun c => mapM (fun n => unwrap "node.contract_part().unwrap()" (node_contract_part n))
                                         (extract_target_from_node Target_FunctionDefinition c))
                          _ (mapl_node r) (map (mapl_ContractPart r))).
    - destruct (mapM _ (contract_nodes su)) as [ls|s]; [|reflexivity]. cbn [rmap bind]. rewrite concat_map. reflexivity.
    - intros c. rewrite ext_mapl. apply mapM_map_eqv. intros n. apply unwrap_cp_mapl.
  Qed.

  Lemma is_constructor_mapl f : is_constructor (mapl_FunctionDefinition r f) = is_constructor f.
  Proof. destruct f. reflexivity. Qed.

  Lemma is_a_non_value_type_mapl e : is_a_non_value_type (mapl_Expression r e) = is_a_non_value_type e.
  Proof.
    destruct e; try reflexivity. mcbn. cbn [is_a_non_value_type].
    match goal with |- context [match mapl_Expression r ?c with _ => _ end] => destruct c; try reflexivity end; mcbn.
    - match goal with |- context [match mapl_Expression r ?c with _ => _ end] => destruct c; try reflexivity end.
      mcbn. rewrite name_of_mapl. reflexivity.
    - match goal with |- context [match mapl_Ty r ?c with _ => _ end] => destruct c; reflexivity end.
  Qed.

  Lemma add_constructor_assignments_mapl sv m n :
    add_constructor_assignments (mv ren_ent sv) (mv r m) (mapl_node r n) = rmap (mv r) (add_constructor_assignments sv m n).
  Proof.
    unfold add_constructor_assignments. rewrite unwrap_expr_mapl.
    destruct (unwrap _ (node_expression n)) as [e|x]; [|reflexivity]. cbn [rmap bind]. f_equal.
    destruct e; try reflexivity. mcbn. rewrite is_a_non_value_type_mapl.
    destruct (is_a_non_value_type e2); [reflexivity|].
    destruct e1; try reflexivity. mcbn. rewrite name_of_mapl, mv_get.
    destruct (sm_get (name_of a1) sv) as [ent|]; [|reflexivity]. rewrite <- mv_insert. reflexivity.
  Qed.

  Lemma ctor_assigned_mapl su sv :
    get_storage_variables_assigned_in_constructor (mapl_SourceUnit r su) (mv ren_ent sv)
    = rmap (mv r) (get_storage_variables_assigned_in_constructor su sv).
  Proof.
    unfold get_storage_variables_assigned_in_constructor. rewrite contract_function_parts_mapl.
    destruct (contract_function_parts su) as [fns|s]; [|reflexivity]. cbn [rmap bind].
    change (@nil (string * Loc)) with (mv r (@nil (string * Loc))) at 1.
    apply foldM_map_eqv. intros m cp. destruct cp; try reflexivity.
    cbn [mapl_ContractPart]. rewrite is_constructor_mapl. destruct (is_constructor a0); [|reflexivity].
    change (N_ContractPart (ContractPart_FunctionDefinition (mapl_FunctionDefinition r a0)))
      with (mapl_node r (N_ContractPart (ContractPart_FunctionDefinition a0))).
    rewrite ext_mapl. apply foldM_map_eqv. intros s n. apply add_constructor_assignments_mapl.
  Qed.

  Lemma immutable_variables_commutes : commutes3 r immutable_variables_optimization.
  Proof.
    intros su. unfold immutable_variables_optimization. rewrite sv_mapl.
    destruct (get_32_byte_storage_variables su true true) as [sv|s]; [|reflexivity]. cbn [rmap bind].
    rewrite ctor_assigned_mapl.
    destruct (get_storage_variables_assigned_in_constructor su sv) as [pot|s]; [|reflexivity]. cbn [rmap bind].
    rewrite contract_function_parts_mapl.
    destruct (contract_function_parts su) as [fns|s]; [|reflexivity]. cbn [rmap bind].
    rewrite (foldM_map_eqv
               (fun m cp => match cp with
                            | ContractPart_FunctionDefinition f =>
                                if is_constructor f then Ok m
                                else remove_written (extract_targets_from_node write_targets (N_ContractPart cp)) m
                            | _ => Ok m
                            end) _ (mapl_ContractPart r) (mv r)).
    - destruct (foldM _ fns pot) as [m|s]; [|reflexivity]. cbn [rmap bind]. rewrite mv_snd. reflexivity.
    - intros m cp. destruct cp; try reflexivity.
      cbn [mapl_ContractPart]. rewrite is_constructor_mapl. destruct (is_constructor a0); [reflexivity|].
      change (N_ContractPart (ContractPart_FunctionDefinition (mapl_FunctionDefinition r a0)))
        with (mapl_node r (N_ContractPart (ContractPart_FunctionDefinition a0))).
      rewrite exts_mapl. apply remove_written_mapl.
  Qed.

  (* ---------------------------------------------------------------- memory_to_calldata *)
  Lemma body_mapl f :
    FunctionDefinition_body (mapl_FunctionDefinition r f)
    = match FunctionDefinition_body f with Some b => Some (mapl_Statement r b) | None => None end.
  Proof. destruct f. reflexivity. Qed.

  Lemma memory_args_mapl f :
    get_function_definition_memory_args (mapl_FunctionDefinition r f) = mv r (get_function_definition_memory_args f).
  Proof.
    destruct f as [l ty nm nl params attrs rnr rets body].
    unfold get_function_definition_memory_args. cbn [mapl_FunctionDefinition FunctionDefinition_params].
    change (@nil (string * Loc)) with (mv r (@nil (string * Loc))) at 1.
    apply fold_left_map_eqv. intros m p. cbv beta. destruct p as [pl [q|]]; [|reflexivity].
    destruct q as [ql qty st qn]. cbn [mapl_Param].
    destruct st as [s|]; [destruct s|]; destruct qn as [i|]; try reflexivity.
    cbn [mapl_StorageLocation mapl_Loc]. rewrite name_of_mapl, <- mv_insert. reflexivity.
  Qed.

  Lemma assigned_param_mapl e : assigned_param (mapl_Expression r e) = assigned_param e.
  Proof.
    destruct e; try reflexivity. mcbn. cbn [assigned_param].
    match goal with |- context [match mapl_Expression r ?c with _ => _ end] => destruct c; try reflexivity end; mcbn.
    - match goal with |- context [match mapl_Expression r ?c with _ => _ end] => destruct c; try reflexivity end.
      mcbn. rewrite name_of_mapl. reflexivity.
    - rewrite name_of_mapl. reflexivity.
  Qed.

  Lemma memory_to_calldata_fn_mapl f :
    memory_to_calldata_fn (mapl_FunctionDefinition r f) = rmap (map r) (memory_to_calldata_fn f).
  Proof.
    unfold memory_to_calldata_fn. rewrite is_constructor_mapl, body_mapl, memory_args_mapl.
    destruct (is_constructor f); [reflexivity|]. destruct (FunctionDefinition_body f) as [b|]; [|reflexivity].
    change (N_Statement (mapl_Statement r b)) with (mapl_node r (N_Statement b)). rewrite ext_mapl.
    rewrite (foldM_map_eqv
               (fun m n => do e <- unwrap "assign_node.expression().unwrap()" (node_expression n) ;;
                           Ok (match assigned_param e with Some x => sm_remove x m | None => m end))
               _ (mapl_node r) (mv r)).
    - destruct (foldM _ _ (get_function_definition_memory_args f)) as [m|s]; [|reflexivity].
      cbn [rmap bind]. rewrite mv_snd. reflexivity.
    - intros m n. rewrite unwrap_expr_mapl. destruct (unwrap _ (node_expression n)) as [e|x]; [|reflexivity].
      cbn [rmap bind]. rewrite assigned_param_mapl. destruct (assigned_param e); [rewrite mv_remove|]; reflexivity.
  Qed.

  Lemma memory_to_calldata_commutes : commutes3 r memory_to_calldata_optimization.
  Proof.
    intros su. unfold memory_to_calldata_optimization. rewrite root_mapl, ext_mapl.
    match goal with |- rmap _ (mapM ?f _) = _ => rewrite (mapM_map_eqv f f (mapl_node r) (map r)) end.
    - apply rmap_concat_map.
    - intros n. destruct n as [s|e|u|p|p]; try reflexivity; destruct p; try reflexivity; apply memory_to_calldata_fn_mapl.
  Qed.

  (* ---------------------------------------------------------------- the version *)
  Lemma first_solidity_pragma_mapl parts :
    first_solidity_pragma (map (mapl_SourceUnitPart r) parts) = first_solidity_pragma parts.
  Proof.
    induction parts as [|p ps IH]; [reflexivity|]. cbn [map].
    destruct p; cbn [mapl_SourceUnitPart first_solidity_pragma]; try exact IH.
    rewrite name_of_mapl, strlit_string_mapl, IH. reflexivity.
  Qed.

  Lemma version_mapl su :
    get_solidity_version_from_source_unit (mapl_SourceUnit r su) = get_solidity_version_from_source_unit su.
  Proof.
    unfold get_solidity_version_from_source_unit. rewrite root_mapl, ext_mapl.
    rewrite (mapM_map_eqv (fun n => unwrap "node.source_unit_part().unwrap()" (node_source_unit_part n)) _
                          (mapl_node r) (mapl_SourceUnitPart r)) by (intros n; apply unwrap_sup_mapl).
    destruct (mapM _ _) as [parts|s]; [|reflexivity]. cbn [rmap bind]. rewrite first_solidity_pragma_mapl. reflexivity.
  Qed.

  (* ---------------------------------------------------------------- safe_math *)
  Lemma using_is_safemath_mapl u : using_is_safemath (mapl_Using r u) = using_is_safemath u.
  Proof.
    destruct u as [l li ty g]. unfold using_is_safemath. cbn [mapl_Using Using_list].
    destruct li as [p|ps]; [|reflexivity]. destruct p as [pl ids]. cbn [mapl_UsingList mapl_IdentifierPath IdentifierPath_identifiers].
    apply existsb_map_eqv. intros i. rewrite name_of_mapl. reflexivity.
  Qed.

  Lemma check_if_using_safe_math_mapl su : check_if_using_safe_math (mapl_SourceUnit r su) = check_if_using_safe_math su.
  Proof.
    unfold check_if_using_safe_math. rewrite root_mapl, ext_mapl. apply existsb_map_eqv.
    intros n. destruct n as [s|e|u|p|p]; try reflexivity; destruct p; try reflexivity; apply using_is_safemath_mapl.
  Qed.

  Lemma safe_math_sites_mapl su :
    parse_contract_for_safe_math_functions (mapl_SourceUnit r su) = rmap (map r) (parse_contract_for_safe_math_functions su).
  Proof.
    unfold parse_contract_for_safe_math_functions. rewrite root_mapl, ext_mapl. apply each_expr_eqv.
    intros e. destruct e; try reflexivity. mcbn.
    match goal with |- context [match mapl_Expression r ?c with _ => _ end] => destruct c; try reflexivity end.
    mcbn. rewrite name_of_mapl. match goal with |- context [if ?b then _ else _] => destruct b; reflexivity end.
  Qed.

  Lemma safe_math_mapl su b : safe_math_optimization (mapl_SourceUnit r su) b = rmap (map r) (safe_math_optimization su b).
  Proof.
    unfold safe_math_optimization. rewrite version_mapl.
    destruct (get_solidity_version_from_source_unit su) as [ov|s]; [|reflexivity]. cbn [rmap bind].
    destruct ov as [v|]; [|reflexivity].
    match goal with |- context [if ?c then _ else _] => destruct c; [|reflexivity] end.
    rewrite check_if_using_safe_math_mapl. destruct (check_if_using_safe_math su); [apply safe_math_sites_mapl|reflexivity].
  Qed.

  Lemma safe_math_pre_080_commutes : commutes3 r safe_math_pre_080_optimization.
  Proof. intros su. apply safe_math_mapl. Qed.
  Lemma safe_math_post_080_commutes : commutes3 r safe_math_post_080_optimization.
  Proof. intros su. apply safe_math_mapl. Qed.

  (* ---------------------------------------------------------------- string_error / short_revert_string *)
  Lemma last_some_mapl (l : list Expression) :
    last (map Some (map (mapl_Expression r) l)) None
    = match last (map Some l) None with Some e => Some (mapl_Expression r e) | None => None end.
  Proof.
    induction l as [|a l IH]; [reflexivity|]. destruct l as [|b l]; [reflexivity|].
    change (last (map Some (map (mapl_Expression r) (a :: b :: l))) None)
      with (last (map Some (map (mapl_Expression r) (b :: l))) None).
    change (last (map Some (a :: b :: l)) None) with (last (map Some (b :: l)) None). exact IH.
  Qed.

  Lemma require_last_string_mapl e :
    require_last_string (mapl_Expression r e)
    = match require_last_string e with Some ps => Some (map (mapl_StringLiteral r) ps) | None => None end.
  Proof.
    destruct e; try reflexivity. mcbn. cbn [require_last_string].
    match goal with |- context [match mapl_Expression r ?c with _ => _ end] => destruct c; try reflexivity end.
    mcbn. rewrite name_of_mapl. destruct (String.eqb _ "require"); [|reflexivity].
    match goal with |- context [last (map Some (map ?f ?l)) None] =>
      change (last (map Some (map f l)) None) with (last (map Some (map (mapl_Expression r) l)) None) end.
    rewrite last_some_mapl.
    match goal with |- context [last (map Some ?l) None] => destruct (last (map Some l) None) as [x|]; [|reflexivity] end.
    destruct x; reflexivity.
  Qed.

  Lemma string_error_commutes : commutes3 r string_error_optimization.
  Proof.
    intros su. unfold string_error_optimization. rewrite version_mapl.
    destruct (get_solidity_version_from_source_unit su) as [ov|s]; [|reflexivity]. cbn [rmap bind].
    destruct ov as [v|]; [|reflexivity]. destruct (version_ge v v084); [|reflexivity].
    rewrite root_mapl, ext_mapl.
    match goal with |- rmap _ (mapM ?f _) = _ => rewrite (mapM_map_eqv f f (mapl_node r) (map r)) end.
    - apply rmap_concat_map.
    - intros n. rewrite unwrap_expr_mapl. destruct (unwrap _ (node_expression n)) as [e|x]; [|reflexivity].
      cbn [rmap bind]. rewrite require_last_string_mapl.
      destruct (require_last_string e) as [[|lit ls]|]; try reflexivity.
      cbn [map rmap]. rewrite strlit_loc_mapl. reflexivity.
  Qed.

  Lemma short_revert_string_commutes : commutes3 r short_revert_string_optimization.
  Proof.
    intros su. unfold short_revert_string_optimization. rewrite version_mapl.
    destruct (get_solidity_version_from_source_unit su) as [ov|s]; [|reflexivity]. cbn [rmap bind].
    destruct ov as [v|]; [|reflexivity]. destruct (version_ge v v084); [reflexivity|].
    rewrite root_mapl, ext_mapl. apply each_expr_eqv.
    intros e. rewrite require_last_string_mapl.
    destruct (require_last_string e) as [[|lit ls]|]; try reflexivity.
    cbn [map]. rewrite strlit_string_mapl, strlit_loc_mapl.
    match goal with |- context [if ?b then _ else _] => destruct b; reflexivity end.
  Qed.

  (* ---------------------------------------------------------------- packing *)
  Lemma get_type_size_mapl e : get_type_size (mapl_Expression r e) = get_type_size e.
  Proof.
    destruct e; try reflexivity. mcbn. cbn [get_type_size].
    match goal with |- context [match mapl_Ty r ?t with _ => _ end] => destruct t; reflexivity end.
  Qed.

  Lemma flat_map_map_same {A A' B} (f : A -> list B) (f' : A' -> list B) (g : A -> A') l :
    (forall x, f' (g x) = f x) -> flat_map f' (map g l) = flat_map f l.
  Proof. intros H. induction l as [|x l IH]; [reflexivity|]. cbn [map flat_map]. rewrite H, IH. reflexivity. Qed.

  Lemma contract_variable_sizes_mapl c : contract_variable_sizes (mapl_ContractDefinition r c) = contract_variable_sizes c.
  Proof.
    destruct c as [l ty nm bases parts]. unfold contract_variable_sizes. cbn [mapl_ContractDefinition ContractDefinition_parts].
    apply flat_map_map_same. intros p. destruct p; try reflexivity.
    destruct a0 as [vl vty attrs vn oi]. cbn [mapl_ContractPart mapl_VariableDefinition VariableDefinition_ty].
    rewrite get_type_size_mapl. reflexivity.
  Qed.

  Lemma struct_variable_sizes_mapl s : struct_variable_sizes (mapl_StructDefinition r s) = struct_variable_sizes s.
  Proof.
    destruct s as [l nm fields]. unfold struct_variable_sizes. cbn [mapl_StructDefinition StructDefinition_fields].
    rewrite map_map. apply map_ext. intros d. destruct d as [dl dty st dn].
    rewrite mapl_eq_Mk_VariableDeclaration. cbn [VariableDeclaration_ty]. apply get_type_size_mapl.
  Qed.

  Lemma pack_storage_node_mapl n : pack_storage_node (mapl_node r n) = rmap (map r) (pack_storage_node n).
  Proof.
    destruct n as [s|e|u|p|p]; try reflexivity. destruct p; try reflexivity.
    cbn [mapl_node mapl_SourceUnitPart pack_storage_node]. rewrite contract_variable_sizes_mapl.
    destruct (can_be_packed (contract_variable_sizes a0)) as [b|x]; [|reflexivity]. cbn [rmap bind].
    destruct a0; destruct b; reflexivity.
  Qed.

  Lemma pack_storage_variables_commutes : commutes3 r pack_storage_variables_optimization.
  Proof.
    intros su. unfold pack_storage_variables_optimization.
    change (N_SourceUnit (mapl_SourceUnit r su)) with (mapl_node r (N_SourceUnit su)). rewrite ext_mapl.
    rewrite (mapM_map_eqv pack_storage_node pack_storage_node (mapl_node r) (map r)) by apply pack_storage_node_mapl.
    destruct (mapM pack_storage_node _) as [ls|x]; [|reflexivity]. cbn [rmap bind]. rewrite concat_map. reflexivity.
  Qed.

  Lemma struct_report_mapl s :
    (do b <- struct_can_be_packed (mapl_StructDefinition r s) ;; Ok (report_if b (StructDefinition_loc (mapl_StructDefinition r s))))
    = rmap (map r) (do b <- struct_can_be_packed s ;; Ok (report_if b (StructDefinition_loc s))).
  Proof.
    unfold struct_can_be_packed. rewrite struct_variable_sizes_mapl.
    destruct (can_be_packed (struct_variable_sizes s)) as [b|x]; [|reflexivity]. cbn [rmap bind].
    destruct s; destruct b; reflexivity.
  Qed.

  Lemma pack_struct_node_mapl n : pack_struct_node (mapl_node r n) = rmap (map r) (pack_struct_node n).
  Proof.
    destruct n as [s|e|u|p|p]; try reflexivity; destruct p; try reflexivity; apply struct_report_mapl.
  Qed.

  Lemma pack_struct_variables_commutes : commutes3 r pack_struct_variables_optimization.
  Proof.
    intros su. unfold pack_struct_variables_optimization.
    change (N_SourceUnit (mapl_SourceUnit r su)) with (mapl_node r (N_SourceUnit su)). rewrite ext_mapl.
    rewrite (mapM_map_eqv pack_struct_node pack_struct_node (mapl_node r) (map r)) by apply pack_struct_node_mapl.
    destruct (mapM pack_struct_node _) as [ls|x]; [|reflexivity]. cbn [rmap bind]. rewrite concat_map. reflexivity.
  Qed.
End Eqv3.

(* ------------------------------------------------------------------ the ten detector-level theorems
   (the injectivity premise is kept for uniformity with the other detectors; it is not needed here) *)
Theorem constant_variable_equivariant r : (forall a b, r a = r b -> a = b) -> equivariant3 r constant_variable_optimization.
Proof. intros _. apply commutes3_equivariant3, constant_variable_commutes. Qed.
Theorem immutable_variables_equivariant r : (forall a b, r a = r b -> a = b) -> equivariant3 r immutable_variables_optimization.
Proof. intros _. apply commutes3_equivariant3, immutable_variables_commutes. Qed.
Theorem memory_to_calldata_equivariant r : (forall a b, r a = r b -> a = b) -> equivariant3 r memory_to_calldata_optimization.
Proof. intros _. apply commutes3_equivariant3, memory_to_calldata_commutes. Qed.
Theorem sstore_equivariant r : (forall a b, r a = r b -> a = b) -> equivariant3 r sstore_optimization.
Proof. intros _. apply commutes3_equivariant3, sstore_commutes. Qed.
Theorem safe_math_pre_080_equivariant r : (forall a b, r a = r b -> a = b) -> equivariant3 r safe_math_pre_080_optimization.
Proof. intros _. apply commutes3_equivariant3, safe_math_pre_080_commutes. Qed.
Theorem safe_math_post_080_equivariant r : (forall a b, r a = r b -> a = b) -> equivariant3 r safe_math_post_080_optimization.
Proof. intros _. apply commutes3_equivariant3, safe_math_post_080_commutes. Qed.
Theorem string_error_equivariant r : (forall a b, r a = r b -> a = b) -> equivariant3 r string_error_optimization.
Proof. intros _. apply commutes3_equivariant3, string_error_commutes. Qed.
Theorem short_revert_string_equivariant r : (forall a b, r a = r b -> a = b) -> equivariant3 r short_revert_string_optimization.
Proof. intros _. apply commutes3_equivariant3, short_revert_string_commutes. Qed.
Theorem pack_storage_variables_equivariant r : (forall a b, r a = r b -> a = b) -> equivariant3 r pack_storage_variables_optimization.
Proof. intros _. apply commutes3_equivariant3, pack_storage_variables_commutes. Qed.
Theorem pack_struct_variables_equivariant r : (forall a b, r a = r b -> a = b) -> equivariant3 r pack_struct_variables_optimization.
Proof. intros _. apply commutes3_equivariant3, pack_struct_variables_commutes. Qed.

(* all ten at once, in the order of NoPanic.all_detectors *)
Definition detectors3 : list (SourceUnit -> res (list Loc)) :=
  [ constant_variable_optimization; immutable_variables_optimization; memory_to_calldata_optimization;
    pack_storage_variables_optimization; pack_struct_variables_optimization;
    safe_math_pre_080_optimization; safe_math_post_080_optimization; short_revert_string_optimization;
    sstore_optimization; string_error_optimization ].

Theorem detectors3_equivariant r :
  (forall a b, r a = r b -> a = b) -> Forall (equivariant3 r) detectors3.
Proof.
  intros Hinj. unfold detectors3.
  repeat match goal with |- Forall _ (_ :: _) => constructor | |- Forall _ [] => constructor end.
  - apply constant_variable_equivariant, Hinj.
  - apply immutable_variables_equivariant, Hinj.
  - apply memory_to_calldata_equivariant, Hinj.
  - apply pack_storage_variables_equivariant, Hinj.
  - apply pack_struct_variables_equivariant, Hinj.
  - apply safe_math_pre_080_equivariant, Hinj.
  - apply safe_math_post_080_equivariant, Hinj.
  - apply short_revert_string_equivariant, Hinj.
  - apply sstore_equivariant, Hinj.
  - apply string_error_equivariant, Hinj.
Qed.

Print Assumptions detectors3_equivariant.
