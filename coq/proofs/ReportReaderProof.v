(* The reader of spec/ReportReader.v run over a document made of plain blocks and sections:
   generic part (any pattern type, any key table, any heading list). *)
From Coq Require Import List String Ascii NArith ZArith Bool Lia.
Import ListNotations.
From Solstat Require Import Bytes Tables Sections Report ReportReader ReportLines.
Local Open Scope list_scope.
Local Open Scope string_scope.

Definition over {A : Type} (new old : option A) : option A :=
  match new with Some x => Some x | None => old end.

Section ReaderFacts.
  Variable P : Type.
  Variable keys : list (string * P).
  Variable headings : list string.

  Notation rstate := (rstate P).
  Notation entry := (entry P).
  Notation run := (run keys headings).
  Notation step := (step keys headings).

  Lemma run_app : forall a b st,
    run st (a ++ b)%list =
    (fst (run (fst (run st a)) b), (snd (run st a) ++ snd (run (fst (run st a)) b))%list).
  Proof.
    intros a; induction a as [|l a IH]; intros b st.
    - cbn [List.app ReportReader.run fst snd]; destruct (run st b); reflexivity.
    - cbn [List.app ReportReader.run].
      destruct (step st l) as [st1 o1]; rewrite IH.
      destruct (run st1 a) as [st2 o2]; cbn [fst snd].
      destruct (run st2 b) as [st3 o3]; cbn [fst snd]; rewrite app_assoc; reflexivity.
  Qed.

  (* ---------------------------------------------------------------- plain lines *)
  Definition is_heading (l : string) : bool := existsb (String.eqb l) headings.

  (* a line that cannot open a list of entries *)
  Definition plain_ok (l : string) : bool :=
    is_heading l || is_some (assoc_str l keys) || negb (String.eqb l lines_marker).

  Definition upd (st : option string * option P) (l : string) : option string * option P :=
    if is_heading l then (Some l, snd st)
    else match assoc_str l keys with
         | Some p => (fst st, Some p)
         | None => st
         end.

  Definition scan (st : option string * option P) (ls : list string) : option string * option P :=
    fold_left upd ls st.

  Lemma step_plain_ok : forall hd cur l, plain_ok l = true ->
    step_plain keys headings hd cur l = (fst (upd (hd, cur) l), snd (upd (hd, cur) l), false).
  Proof.
    intros hd cur l H; unfold step_plain, upd, plain_ok, is_heading in *.
    destruct (existsb (String.eqb l) headings); [reflexivity|].
    destruct (assoc_str l keys); [reflexivity|].
    cbn [is_some orb] in H; destruct (String.eqb l lines_marker); [discriminate H | reflexivity].
  Qed.

  Lemma run_plain : forall ls hd cur, forallb plain_ok ls = true ->
    run (hd, cur, false) ls = ((fst (scan (hd, cur) ls), snd (scan (hd, cur) ls), false), []).
  Proof.
    intro ls; induction ls as [|l ls IH]; intros hd cur H.
    - reflexivity.
    - cbn [forallb] in H; apply andb_true_iff in H; destruct H as [Hl Hls].
      cbn [ReportReader.run ReportReader.step]; rewrite (step_plain_ok hd cur l Hl).
      rewrite (IH _ _ Hls); cbn [scan fold_left].
      destruct (upd (hd, cur) l) as [hd1 cur1]; reflexivity.
  Qed.

  Lemma scan_indep : forall ls hd cur,
    scan (hd, cur) ls = (over (fst (scan (None, None) ls)) hd, over (snd (scan (None, None) ls)) cur).
  Proof.
    intro ls; induction ls as [|l ls IH]; intros hd cur; [reflexivity|].
    cbn [scan fold_left]; fold (scan (upd (hd, cur) l) ls); fold (scan (upd (None, None) l) ls).
    destruct (upd (hd, cur) l) as [h1 c1] eqn:H1; destruct (upd (None, None) l) as [h0 c0] eqn:H0.
    rewrite (IH h1 c1), (IH h0 c0); cbn [fst snd].
    unfold upd in H1, H0; cbn [fst snd] in H1, H0.
    destruct (is_heading l).
    - injection H1 as <- <-; injection H0 as <- <-.
      destruct (fst (scan (None, None) ls)); destruct (snd (scan (None, None) ls)); reflexivity.
    - destruct (assoc_str l keys).
      + injection H1 as <- <-; injection H0 as <- <-.
        destruct (fst (scan (None, None) ls)); destruct (snd (scan (None, None) ls)); reflexivity.
      + injection H1 as <- <-; injection H0 as <- <-.
        destruct (fst (scan (None, None) ls)); destruct (snd (scan (None, None) ls)); reflexivity.
  Qed.

  (* ---------------------------------------------------------------- sections *)
  Hypothesis marker_no_heading : is_heading lines_marker = false.
  Hypothesis marker_no_key : assoc_str lines_marker keys = None.
  Hypothesis blank_no_heading : is_heading "" = false.
  Hypothesis blank_no_key : assoc_str "" keys = None.

  Definition tag (hd : option string) (p : P) (v : list (string * list Z)) : list entry :=
    flat_map (fun fl => map (fun z => (hd, p, fst fl, z)) (snd fl)) v.

  Lemma run_entries : forall v hd p,
    run (hd, Some p, true) (entry_lines v) = ((hd, Some p, true), tag hd p v).
  Proof.
    intros v hd p; unfold entry_lines, tag; induction v as [|[f ls] v IH]; [reflexivity|].
    cbn [flat_map fst snd]; rewrite run_app.
    assert (H : run (hd, Some p, true) (map (entry_line f) ls) =
                ((hd, Some p, true), map (fun z => (hd, p, f, z)) ls)).
    { clear IH; induction ls as [|z ls IHl]; [reflexivity|].
      cbn [map ReportReader.run ReportReader.step]; rewrite parse_entry_line, IHl; reflexivity. }
    rewrite H; cbn [fst snd]; rewrite IH; reflexivity.
  Qed.

  Lemma step_marker : forall hd p, step (hd, Some p, false) lines_marker = ((hd, Some p, true), []).
  Proof.
    intros hd p; cbn [ReportReader.step]; unfold step_plain.
    fold (is_heading lines_marker); rewrite marker_no_heading, marker_no_key, String.eqb_refl; reflexivity.
  Qed.

  Lemma step_blank : forall hd cur b, step (hd, cur, b) "" = ((hd, cur, false), []).
  Proof.
    intros hd cur b; cbn [ReportReader.step].
    assert (H : step_plain keys headings hd cur "" = (hd, cur, false)).
    { unfold step_plain; fold (is_heading ""); rewrite blank_no_heading, blank_no_key; reflexivity. }
    destruct b; [cbn [parse_entry]|]; rewrite H; reflexivity.
  Qed.

  Definition sec_ok (p : P) (text : string) : Prop :=
    forallb plain_ok (split_lines text) = true /\
    fst (scan (None, None) (split_lines text)) = None /\
    snd (scan (None, None) (split_lines text)) = Some p.

  Lemma run_section : forall text p v hd cur, sec_ok p text ->
    run (hd, cur, false) (section_lines text v) = ((hd, Some p, false), tag hd p v).
  Proof.
    intros text p v hd cur [Hplain [Hh Hk]]; unfold section_lines.
    rewrite run_app, (run_plain _ hd cur Hplain); cbn [fst snd].
    rewrite (scan_indep _ hd cur), Hh, Hk; cbn [over fst snd].
    rewrite run_app; cbn [ReportReader.run]; rewrite step_marker; cbn [fst snd List.app].
    rewrite run_app, run_entries; cbn [fst snd].
    cbn [ReportReader.run]; rewrite !step_blank; cbn [fst snd]; rewrite !app_nil_r; reflexivity.
  Qed.

  (* ---------------------------------------------------------------- documents *)
  Inductive block : Type :=
    | BPlain (ls : list string)
    | BSec (p : P) (text : string) (v : list (string * list Z)).

  Definition block_lines (b : block) : list string :=
    match b with
    | BPlain ls => ls
    | BSec p text v => section_lines text v
    end.

  Definition doc_lines (bs : list block) : list string := flat_map block_lines bs.

  Definition block_ok (b : block) : Prop :=
    match b with
    | BPlain ls => forallb plain_ok ls = true
    | BSec p text v => sec_ok p text
    end.

  (* what the reader returns: each section's entries under the heading seen last *)
  Fixpoint doc_out (hd : option string) (bs : list block) : list entry :=
    match bs with
    | [] => []
    | BPlain ls :: r => doc_out (over (fst (scan (None, None) ls)) hd) r
    | BSec p text v :: r => (tag hd p v ++ doc_out hd r)%list
    end.

  Lemma run_doc : forall bs hd cur, Forall block_ok bs ->
    exists hd' cur', run (hd, cur, false) (doc_lines bs) = ((hd', cur', false), doc_out hd bs).
  Proof.
    intro bs; induction bs as [|b bs IH]; intros hd cur H.
    - exists hd, cur; reflexivity.
    - inversion H as [|? ? Hb Hbs]; subst.
      unfold doc_lines; cbn [flat_map]; fold (doc_lines bs); rewrite run_app.
      destruct b as [ls|p text v]; cbn [block_lines block_ok doc_out] in *.
      + rewrite (run_plain ls hd cur Hb); cbn [fst snd].
        rewrite (scan_indep ls hd cur); cbn [fst snd].
        destruct (IH (over (fst (scan (None, None) ls)) hd) (over (snd (scan (None, None) ls)) cur) Hbs) as [hd' [cur' E]].
        exists hd', cur'; rewrite E; reflexivity.
      + rewrite (run_section text p v hd cur Hb); cbn [fst snd].
        destruct (IH hd (Some p) Hbs) as [hd' [cur' E]].
        exists hd', cur'; rewrite E; reflexivity.
  Qed.

  Theorem read_doc : forall bs, Forall block_ok bs -> all_no_lf (doc_lines bs) ->
    read_report keys headings (unlines (doc_lines bs)) = doc_out None bs.
  Proof.
    intros bs Hok Hlf; unfold read_report.
    rewrite (split_unlines_end _ Hlf), run_app.
    destruct (run_doc bs None None Hok) as [hd' [cur' E]]; rewrite E; cbn [fst snd].
    cbn [ReportReader.run]; rewrite step_blank; cbn [snd]; rewrite app_nil_r; reflexivity.
  Qed.

  (* ---------------------------------------------------------------- which lines a document has *)
  Lemma in_section_lines : forall l text v,
    In l (section_lines text v) <->
    In l (split_lines text) \/ l = lines_marker \/ In l (entry_lines v) \/ l = "".
  Proof.
    intros l text v; unfold section_lines; rewrite !in_app_iff; cbn [In]; intuition.
  Qed.

  (* a line that is no marker, not blank and no entry lies in a plain block or in a section text *)
  Lemma in_doc_lines_const : forall l bs,
    l <> lines_marker -> l <> "" -> parse_entry l = None ->
    (In l (doc_lines bs) <->
     exists b, In b bs /\ match b with BPlain ls => In l ls | BSec p text v => In l (split_lines text) end).
  Proof.
    intros l bs Hm Hb He; unfold doc_lines; rewrite in_flat_map; split.
    - intros [b [Hin Hl]]; exists b; split; [exact Hin|].
      destruct b as [ls|p text v]; cbn [block_lines] in Hl; [exact Hl|].
      apply in_section_lines in Hl; destruct Hl as [Hl|[Hl|[Hl|Hl]]]; try contradiction; [exact Hl|].
      exfalso; unfold entry_lines in Hl; apply in_flat_map in Hl; destruct Hl as [[f zs] [_ Hl]].
      apply in_map_iff in Hl; destruct Hl as [z [Hz _]]; subst l; rewrite parse_entry_line in He; discriminate He.
    - intros [b [Hin Hl]]; exists b; split; [exact Hin|].
      destruct b as [ls|p text v]; cbn [block_lines]; [exact Hl|].
      apply in_section_lines; left; exact Hl.
  Qed.

  (* ---------------------------------------------------------------- sections of a list of items *)
  Variable sec : P -> string.

  Definition sec_blocks (items : findings P) : list block :=
    map (fun kv => BSec (fst kv) (sec (fst kv)) (snd kv)) items.

  Lemma sec_blocks_unlines : forall items,
    sconcat (map (fun kv => completed_report_section (sec (fst kv)) (snd kv)) items) =
    unlines (doc_lines (sec_blocks items)).
  Proof.
    intro items; unfold doc_lines, sec_blocks; induction items as [|kv items IH]; [reflexivity|].
    cbn [map flat_map block_lines]; rewrite sconcat_cons, IH, unlines_app, completed_section_unlines; reflexivity.
  Qed.

  Definition items_no_lf (items : findings P) : Prop := Forall (fun kv => names_no_lf (snd kv)) items.

  Lemma sec_blocks_no_lf : forall items, items_no_lf items -> all_no_lf (doc_lines (sec_blocks items)).
  Proof.
    intros items H; unfold doc_lines, sec_blocks, all_no_lf; induction H as [|kv items Hkv Hitems IH]; [constructor|].
    cbn [map flat_map block_lines]; apply Forall_app; split; [|exact IH].
    apply section_lines_no_lf; exact Hkv.
  Qed.

  Lemma sec_blocks_ok : forall items, (forall p, sec_ok p (sec p)) -> Forall block_ok (sec_blocks items).
  Proof.
    intros items H; unfold sec_blocks; rewrite Forall_forall; intros b Hb.
    apply in_map_iff in Hb; destruct Hb as [kv [Hb _]]; subst b; apply H.
  Qed.

  Definition tag_items (hd : option string) (items : findings P) : list entry :=
    flat_map (fun kv => tag hd (fst kv) (snd kv)) items.

  Lemma doc_out_sec_blocks : forall items hd rest,
    doc_out hd (sec_blocks items ++ rest)%list = (tag_items hd items ++ doc_out hd rest)%list.
  Proof.
    intros items hd rest; unfold sec_blocks, tag_items; induction items as [|kv items IH]; [reflexivity|].
    cbn [map List.app doc_out flat_map]; rewrite IH, app_assoc; reflexivity.
  Qed.
End ReaderFacts.

Arguments BPlain {P}.
Arguments BSec {P}.
Arguments block_lines {P}.
Arguments doc_lines {P}.
Arguments sec_blocks {P}.
Arguments tag {P}.
Arguments tag_items {P}.
Arguments items_no_lf {P}.

Lemma map_flat_map_comm : forall (A B C : Type) (g : B -> C) (f : A -> list B) (l : list A),
  map g (flat_map f l) = flat_map (fun x => map g (f x)) l.
Proof.
  intros A B C g f l; induction l as [|x l IH]; [reflexivity|].
  cbn [flat_map]; rewrite map_app, IH; reflexivity.
Qed.

(* the entries read, without their heading, are the (pattern, file, line) triples of the items *)
Lemma drop_heading_tag_items : forall (P : Type) hd (items : findings P),
  map drop_heading (tag_items hd items) = triples items.
Proof.
  intros P hd items; unfold tag_items, triples, tag.
  rewrite map_flat_map_comm; apply flat_map_ext; intro kv.
  rewrite map_flat_map_comm; apply flat_map_ext; intro fl.
  rewrite map_map; reflexivity.
Qed.

(* the entries read from a document, without their headings: the triples of its sections, in order *)
Definition sec_triples {P : Type} (bs : list (block P)) : list (P * string * Z) :=
  flat_map (fun b => match b with BPlain _ => [] | BSec p _ v => triples [(p, v)] end) bs.

Lemma drop_heading_tag : forall (P : Type) hd (p : P) v, map drop_heading (tag hd p v) = triples [(p, v)].
Proof.
  intros P hd p v; unfold tag, triples; cbn [flat_map fst snd]; rewrite app_nil_r.
  rewrite map_flat_map_comm; apply flat_map_ext; intro fl; rewrite map_map; reflexivity.
Qed.

Lemma drop_heading_doc_out : forall (P : Type) keys headings (bs : list (block P)) hd,
  map drop_heading (doc_out P keys headings hd bs) = sec_triples bs.
Proof.
  intros P keys headings bs; induction bs as [|b bs IH]; intro hd; [reflexivity|].
  destruct b as [ls|p t v]; cbn [doc_out sec_triples flat_map].
  - rewrite IH; reflexivity.
  - unfold entry; rewrite map_app, IH, drop_heading_tag; reflexivity.
Qed.

Lemma sec_triples_app : forall (P : Type) (a b : list (block P)), sec_triples (a ++ b)%list = (sec_triples a ++ sec_triples b)%list.
Proof. intros; unfold sec_triples; apply flat_map_app. Qed.

Lemma sec_triples_sec_blocks : forall (P : Type) (sec : P -> string) (items : findings P),
  sec_triples (sec_blocks sec items) = triples items.
Proof.
  intros P sec items; induction items as [|kv items IH]; [reflexivity|].
  change (sec_triples (sec_blocks sec (kv :: items)))
    with (triples [(fst kv, snd kv)] ++ sec_triples (sec_blocks sec items))%list.
  rewrite IH; unfold triples; cbn [flat_map fst snd]; rewrite app_nil_r; reflexivity.
Qed.

(* blocks of one category seen as blocks of the whole report *)
Definition map_block {A B : Type} (tg : A -> B) (b : block A) : block B :=
  match b with
  | BPlain ls => BPlain ls
  | BSec p t v => BSec (tg p) t v
  end.

Lemma doc_lines_map_block : forall (A B : Type) (tg : A -> B) (bs : list (block A)),
  doc_lines (map (map_block tg) bs) = doc_lines bs.
Proof.
  intros A B tg bs; unfold doc_lines; induction bs as [|b bs IH]; [reflexivity|].
  cbn [map flat_map]; rewrite IH; destruct b; reflexivity.
Qed.

Lemma sec_triples_map_block : forall (A B : Type) (tg : A -> B) (bs : list (block A)),
  sec_triples (map (map_block tg) bs) = map (fun t => (tg (fst (fst t)), snd (fst t), snd t)) (sec_triples bs).
Proof.
  intros A B tg bs; unfold sec_triples; induction bs as [|b bs IH]; [reflexivity|].
  cbn [map flat_map]; rewrite map_app, IH; f_equal.
  destruct b as [ls|p t v]; cbn [map_block]; [reflexivity|].
  unfold triples; cbn [flat_map fst snd]; rewrite !app_nil_r.
  rewrite map_flat_map_comm; apply flat_map_ext; intro fl; rewrite map_map; reflexivity.
Qed.
