(* Finite side conditions on the constant texts (decided by computation) and what they give
   for a document built from plain blocks and the sections of a list of items.
   Generic in the pattern type; instantiated in ReportProof.v. *)
From Coq Require Import List String Ascii NArith ZArith Bool Lia Permutation.
Import ListNotations.
From Solstat Require Import Bytes Tables Sections Report ReportReader ReportSort ReportSet ReportLines ReportReaderProof.
Local Open Scope list_scope.
Local Open Scope string_scope.

Definition is_none {A : Type} (o : option A) : bool := negb (is_some o).

Definition starts_with (pre l : string) : bool := is_some (strip_prefix pre l).

Lemma strip_prefix_app : forall pre x, strip_prefix pre (pre ++ x) = Some x.
Proof.
  intros pre x; induction pre as [|c pre IH]; cbn [append strip_prefix].
  - destruct x; reflexivity.
  - rewrite Ascii.eqb_refl; exact IH.
Qed.

Lemma starts_with_app : forall pre x, starts_with pre (pre ++ x) = true.
Proof. intros; unfold starts_with; rewrite strip_prefix_app; reflexivity. Qed.

(* the two strings differ at a position both have *)
Fixpoint divergeb (a b : string) : bool :=
  match a, b with
  | String x a', String y b' => if Ascii.eqb x y then divergeb a' b' else true
  | _, _ => false
  end.

Lemma diverge_no_prefix : forall a b x, divergeb a b = true -> starts_with a (b ++ x) = false.
Proof.
  intros a; induction a as [|c a IH]; intros [|d b] x H; cbn [divergeb] in H; try discriminate H.
  unfold starts_with in *; cbn [append strip_prefix].
  destruct (Ascii.eqb c d); [apply IH; exact H | reflexivity].
Qed.

Lemma assoc_str_none : forall (A : Type) (l : string) (t : list (string * A)),
  (forall k v, In (k, v) t -> k <> l) -> assoc_str l t = None.
Proof.
  intros A l t; induction t as [|[k v] t IH]; intro H; [reflexivity|].
  cbn [assoc_str]; destruct (String.eqb l k) eqn:E.
  - apply String.eqb_eq in E; exfalso; apply (H k v); [left; reflexivity | symmetry; exact E].
  - apply IH; intros k' v' Hin; apply (H k' v'); right; exact Hin.
Qed.

Lemma existsb_eqb_false : forall (l : string) (t : list string),
  (forall k, In k t -> k <> l) -> existsb (String.eqb l) t = false.
Proof.
  intros l t; induction t as [|k t IH]; intro H; [reflexivity|].
  cbn [existsb]; destruct (String.eqb l k) eqn:E.
  - apply String.eqb_eq in E; exfalso; apply (H k); [left; reflexivity | symmetry; exact E].
  - apply IH; intros k' Hin; apply (H k'); right; exact Hin.
Qed.

Lemma existsb_eqb_in : forall (l : string) (t : list string), existsb (String.eqb l) t = true <-> In l t.
Proof.
  intros l t; rewrite existsb_exists; split.
  - intros [x [Hin E]]; apply String.eqb_eq in E; subst x; exact Hin.
  - intro H; exists l; split; [exact H | apply String.eqb_refl].
Qed.

Lemma take_digits_app : forall d s, all_digitsb d = true -> take_digits s = "" -> take_digits (d ++ s) = d.
Proof.
  intros d s; induction d as [|c d IH]; cbn [all_digitsb append]; intros Hd Hs; [exact Hs|].
  apply andb_true_iff in Hd; destruct Hd as [Hc Hd]; cbn [take_digits]; rewrite Hc, (IH Hd Hs); reflexivity.
Qed.

Lemma flat_map_perm_pointwise : forall (A B : Type) (f g : A -> list B) (l : list A),
  (forall x, In x l -> Permutation (f x) (g x)) -> Permutation (flat_map f l) (flat_map g l).
Proof.
  intros A B f g l; induction l as [|x l IH]; intro H; [apply perm_nil|].
  cbn [flat_map]; apply Permutation_app; [apply H; left; reflexivity | apply IH; intros y Hy; apply H; right; exact Hy].
Qed.

Lemma flat_map_filter_nil : forall (A B : Type) (f : A -> list B) (p : A -> bool) (l : list A),
  (forall x, p x = false -> f x = []) -> flat_map f (filter p l) = flat_map f l.
Proof.
  intros A B f p l H; induction l as [|x l IH]; [reflexivity|].
  cbn [filter flat_map]; destruct (p x) eqn:E; cbn [flat_map]; rewrite IH; [reflexivity|].
  rewrite (H x E); reflexivity.
Qed.

(* ------------------------------------------------------------------ the rendered items and the map *)
Lemma triples_rendered_items : forall (P : Type) (idx : P -> N) (F : findings P),
  Permutation (triples (rendered_items idx F)) (triples F).
Proof.
  intros P idx F; unfold rendered_items, triples.
  rewrite flat_map_concat_map, map_map, <- flat_map_concat_map.
  cbn [fst snd].
  eapply perm_trans.
  - apply flat_map_perm_pointwise.
    intros kv _.
    apply (Permutation_flat_map (fun fl => map (fun z => (fst kv, fst fl, z)) (snd fl))).
    apply isort_perm.
  - rewrite (flat_map_filter_nil _ _ (fun kv => flat_map (fun fl => map (fun z => (fst kv, fst fl, z)) (snd fl)) (snd kv))).
    + apply Permutation_flat_map, isort_perm.
    + intros [p v] H; unfold nonempty_vec in H; cbn [snd] in *; destruct v; [reflexivity | discriminate H].
Qed.

Lemma rendered_items_no_lf : forall (P : Type) (idx : P -> N) (F : findings P),
  items_no_lf F -> items_no_lf (rendered_items idx F).
Proof.
  intros P idx F H; unfold items_no_lf in *; rewrite Forall_forall in *; intros [p w] Hin.
  apply in_rendered_items in Hin; destruct Hin as [v [Hin [_ Hw]]]; cbn [snd]; subst w.
  specialize (H (p, v) Hin); cbn [snd] in H.
  unfold names_no_lf in *; rewrite Forall_forall in *; intros fl Hfl.
  apply H; apply (Permutation_in _ (isort_perm entry_leb v)); exact Hfl.
Qed.

Lemma flat_map_map_length : forall (A B C D : Type) (f : A -> list B) (g1 : A -> B -> C) (g2 : A -> B -> D) (l : list A),
  List.length (flat_map (fun a => map (g1 a) (f a)) l) = List.length (flat_map (fun a => map (g2 a) (f a)) l).
Proof.
  intros A B C D f g1 g2 l; induction l as [|a l IH]; [reflexivity|].
  cbn [flat_map]; rewrite !app_length, !map_length; f_equal; exact IH.
Qed.

Lemma tag_length : forall (P : Type) hd (p : P) v, List.length (tag hd p v) = List.length (entry_lines v).
Proof.
  intros P hd p v; unfold tag, entry_lines.
  apply (flat_map_map_length _ _ _ _ (fun fl => snd fl) (fun fl z => (hd, p, fst fl, z)) (fun fl z => entry_line (fst fl) z)).
Qed.

Lemma fold_total : forall (P : Type) (items : findings P) (n : N),
  fold_left (fun n kv => (n + count_matches (snd kv))%N) items n =
  (n + N.of_nat (List.length (triples items)))%N.
Proof.
  intros P items; induction items as [|kv items IH]; intro n.
  - cbn; lia.
  - cbn [fold_left]; rewrite IH; unfold triples; cbn [flat_map]; rewrite app_length.
    rewrite count_matches_length.
    assert (H : List.length (flat_map (fun fl => map (fun z => (fst kv, fst fl, z)) (snd fl)) (snd kv)) =
                List.length (entry_lines (snd kv))).
    { unfold entry_lines.
      apply (flat_map_map_length _ _ _ _ (fun fl => snd fl) (fun fl z => (fst kv, fst fl, z)) (fun fl z => entry_line (fst fl) z)). }
    rewrite H; lia.
Qed.

Lemma total_entries_length : forall (P : Type) (items : findings P),
  total_entries items = N.of_nat (List.length (triples items)).
Proof. intros; unfold total_entries; rewrite fold_total; lia. Qed.

Lemma tag_items_length : forall (P : Type) hd (items : findings P),
  @List.length (option string * P * string * Z) (tag_items hd items) = List.length (triples items).
Proof. intros; rewrite <- (drop_heading_tag_items P hd items), map_length; reflexivity. Qed.

(* ------------------------------------------------------------------ the finite side conditions *)
Section Category.
  Variable P : Type.
  Variable idx : P -> N.
  Variable all : list P.
  Hypothesis all_complete : forall p, In p all.
  Hypothesis idx_inj : forall a b, idx a = idx b -> a = b.
  Variable keys : list (string * P).
  Variable headings : list string.
  Variable sec : P -> string.

  Definition key (p : P) : string := key_line (sec p).
  Definition peq (a b : P) : bool := N.eqb (idx a) (idx b).

  Lemma peq_true : forall a b, peq a b = true -> a = b.
  Proof. intros a b H; apply idx_inj, N.eqb_eq; exact H. Qed.

  (* the marker and the blank line are neither key lines nor headings *)
  Definition base_okb : bool :=
    negb (is_heading headings lines_marker) && is_none (assoc_str lines_marker keys) &&
    negb (is_heading headings "") && is_none (assoc_str "" keys).

  (* scanning the text of p: no line opens a list, no heading line, the key line seen last is p's *)
  Definition sec_okb (p : P) : bool :=
    let ls := split_lines (sec p) in
    forallb (plain_ok P keys headings) ls &&
    match scan P keys headings (None, None) ls with
    | (None, Some q) => peq q p
    | _ => false
    end.

  (* a constant line that is no marker, not blank and not shaped like an entry *)
  Definition const_line_okb (k : string) : bool :=
    negb (String.eqb k lines_marker) && negb (String.eqb k "") && is_none (parse_entry k).

  (* the key line of p is a line of p's text and of no other text *)
  Definition key_okb (p : P) : bool :=
    const_line_okb (key p) &&
    existsb (String.eqb (key p)) (split_lines (sec p)) &&
    forallb (fun q => implb (existsb (String.eqb (key p)) (split_lines (sec q))) (peq p q)) all.

  (* a heading is a line of no section text *)
  Definition heading_okb (h : string) : bool :=
    const_line_okb h && forallb (fun q => negb (existsb (String.eqb h) (split_lines (sec q)))) all.

  Definition cat_okb : bool :=
    base_okb && forallb sec_okb all && forallb key_okb all && forallb heading_okb headings.

  (* a block of constant lines: no line opens a list, none is a key line *)
  Definition plain_lines_okb (ls : list string) : bool :=
    forallb (plain_ok P keys headings) ls &&
    forallb (fun p => negb (existsb (String.eqb (key p)) ls)) all.

  (* no key line, heading or marker starts with `pre` *)
  Definition prefix_okb (pre : string) : bool :=
    forallb (fun kp => negb (starts_with pre (fst kp))) keys &&
    forallb (fun h => negb (starts_with pre h)) headings &&
    negb (starts_with pre lines_marker) &&
    forallb (fun p => negb (starts_with pre (key p))) all.

  Hypothesis H_cat : cat_okb = true.

  Lemma cat_parts : base_okb = true /\ forallb sec_okb all = true /\ forallb key_okb all = true /\
                    forallb heading_okb headings = true.
  Proof.
    unfold cat_okb in H_cat; apply andb_true_iff in H_cat; destruct H_cat as [H123 H4].
    apply andb_true_iff in H123; destruct H123 as [H12 H3].
    apply andb_true_iff in H12; destruct H12 as [H1 H2]; tauto.
  Qed.

  Lemma base_facts : is_heading headings lines_marker = false /\ assoc_str lines_marker keys = None /\
                     is_heading headings "" = false /\ assoc_str "" keys = None.
  Proof.
    destruct cat_parts as [H _]; unfold base_okb, is_none in H.
    apply andb_true_iff in H; destruct H as [H123 H4].
    apply andb_true_iff in H123; destruct H123 as [H12 H3].
    apply andb_true_iff in H12; destruct H12 as [H1 H2].
    repeat split.
    - destruct (is_heading headings lines_marker); [discriminate H1 | reflexivity].
    - destruct (assoc_str lines_marker keys); [discriminate H2 | reflexivity].
    - destruct (is_heading headings ""); [discriminate H3 | reflexivity].
    - destruct (assoc_str "" keys); [discriminate H4 | reflexivity].
  Qed.

  Lemma all_sec_ok : forall p, sec_ok P keys headings p (sec p).
  Proof.
    intro p; destruct cat_parts as [_ [H _]].
    rewrite forallb_forall in H; specialize (H p (all_complete p)).
    unfold sec_okb in H; apply andb_true_iff in H; destruct H as [H1 H2].
    unfold sec_ok; split; [exact H1|].
    destruct (scan P keys headings (None, None) (split_lines (sec p))) as [[h|] [q|]]; try discriminate H2.
    cbn [fst snd]; split; [reflexivity | f_equal; apply peq_true; exact H2].
  Qed.

  Lemma const_line_facts : forall k, const_line_okb k = true -> k <> lines_marker /\ k <> "" /\ parse_entry k = None.
  Proof.
    intros k H; unfold const_line_okb, is_none in H.
    apply andb_true_iff in H; destruct H as [H12 H3]; apply andb_true_iff in H12; destruct H12 as [H1 H2].
    repeat split.
    - intro E; subst k; rewrite String.eqb_refl in H1; discriminate H1.
    - intro E; subst k; discriminate H2.
    - destruct (parse_entry k); [discriminate H3 | reflexivity].
  Qed.

  Lemma key_facts : forall p,
    (key p <> lines_marker /\ key p <> "" /\ parse_entry (key p) = None) /\
    In (key p) (split_lines (sec p)) /\
    (forall q, In (key p) (split_lines (sec q)) -> p = q).
  Proof.
    intro p; destruct cat_parts as [_ [_ [H _]]].
    rewrite forallb_forall in H; specialize (H p (all_complete p)).
    unfold key_okb in H; apply andb_true_iff in H; destruct H as [H12 H3]; apply andb_true_iff in H12; destruct H12 as [H1 H2].
    split; [apply const_line_facts; exact H1 | split].
    - apply existsb_eqb_in; exact H2.
    - intros q Hq; rewrite forallb_forall in H3; specialize (H3 q (all_complete q)).
      apply existsb_eqb_in in Hq; rewrite Hq in H3; cbn [implb] in H3; apply peq_true; exact H3.
  Qed.

  Lemma heading_facts : forall h, In h headings ->
    (h <> lines_marker /\ h <> "" /\ parse_entry h = None) /\ (forall q, ~ In h (split_lines (sec q))).
  Proof.
    intros h Hh; destruct cat_parts as [_ [_ [_ H]]].
    rewrite forallb_forall in H; specialize (H h Hh).
    unfold heading_okb in H; apply andb_true_iff in H; destruct H as [H1 H2].
    split; [apply const_line_facts; exact H1|].
    intros q Hq; rewrite forallb_forall in H2; specialize (H2 q (all_complete q)).
    apply existsb_eqb_in in Hq; rewrite Hq in H2; discriminate H2.
  Qed.

  Lemma plain_lines_facts : forall ls, plain_lines_okb ls = true ->
    forallb (plain_ok P keys headings) ls = true /\ (forall p, ~ In (key p) ls).
  Proof.
    intros ls H; unfold plain_lines_okb in H; apply andb_true_iff in H; destruct H as [H1 H2].
    split; [exact H1|].
    intros p Hp; rewrite forallb_forall in H2; specialize (H2 p (all_complete p)).
    apply existsb_eqb_in in Hp; rewrite Hp in H2; discriminate H2.
  Qed.

  Lemma prefix_facts : forall pre x, prefix_okb pre = true ->
    plain_ok P keys headings (pre ++ x) = true /\
    (forall st, upd P keys headings st (pre ++ x) = st) /\
    (forall p, key p <> pre ++ x) /\
    (forall h, In h headings -> h <> pre ++ x).
  Proof.
    intros pre x H; unfold prefix_okb in H.
    apply andb_true_iff in H; destruct H as [H123 H4]; apply andb_true_iff in H123; destruct H123 as [H12 H3].
    apply andb_true_iff in H12; destruct H12 as [H1 H2].
    assert (Hk : assoc_str (pre ++ x) keys = None).
    { apply assoc_str_none; intros k v Hin E; rewrite forallb_forall in H1; specialize (H1 (k, v) Hin).
      cbn [fst] in H1; rewrite E, starts_with_app in H1; discriminate H1. }
    assert (Hh : forall h, In h headings -> h <> pre ++ x).
    { intros h Hin E; rewrite forallb_forall in H2; specialize (H2 h Hin).
      rewrite E, starts_with_app in H2; discriminate H2. }
    assert (Hhd : is_heading headings (pre ++ x) = false).
    { unfold is_heading; apply existsb_eqb_false; exact Hh. }
    assert (Hm : String.eqb (pre ++ x) lines_marker = false).
    { apply String.eqb_neq; intro E; rewrite <- E, starts_with_app in H3; discriminate H3. }
    repeat split.
    - unfold plain_ok; rewrite Hhd, Hk, Hm; reflexivity.
    - intro st; unfold upd; rewrite Hhd, Hk; reflexivity.
    - intros p E; rewrite forallb_forall in H4; specialize (H4 p (all_complete p)).
      rewrite E, starts_with_app in H4; discriminate H4.
    - exact Hh.
  Qed.

  (* ---------------------------------------------------------------- documents over a list of items *)
  Definition shape (bs : list (block P)) (items : findings P) : Prop :=
    (forall b, In b bs ->
       match b with
       | BPlain ls => forallb (plain_ok P keys headings) ls = true /\ (forall p, ~ In (key p) ls)
       | BSec q t v => t = sec q /\ In (q, v) items
       end) /\
    (forall q v, In (q, v) items -> In (BSec q (sec q) v) bs).

  Lemma shape_ok : forall bs items, shape bs items -> Forall (block_ok P keys headings) bs.
  Proof.
    intros bs items [H _]; rewrite Forall_forall; intros b Hb; specialize (H b Hb).
    destruct b as [ls|q t v]; cbn [block_ok].
    - tauto.
    - destruct H as [Ht _]; subst t; apply all_sec_ok.
  Qed.

  (* the key line of p is a line of the document iff a section of p is in it *)
  Lemma shape_key_iff : forall bs items p, shape bs items ->
    (In (key p) (doc_lines bs ++ [""])%list <-> exists v, In (p, v) items).
  Proof.
    intros bs items p [Hs1 Hs2].
    destruct (key_facts p) as [[Km [Kb Ke]] [Kin Kuniq]].
    rewrite in_app_iff; cbn [In].
    rewrite (in_doc_lines_const P (key p) bs Km Kb Ke); split.
    - intros [[b [Hb Hl]]|[E|[]]]; [|symmetry in E; contradiction].
      specialize (Hs1 b Hb); destruct b as [ls|q t v].
      + destruct Hs1 as [_ Hno]; exfalso; exact (Hno p Hl).
      + destruct Hs1 as [Ht Hin]; subst t; apply Kuniq in Hl; subst q; exists v; exact Hin.
    - intros [v Hin]; left; exists (BSec p (sec p) v); split; [apply Hs2; exact Hin | exact Kin].
  Qed.

  (* a heading line occurs only inside plain blocks *)
  Lemma shape_heading_iff : forall bs items h, shape bs items -> In h headings ->
    (In h (doc_lines bs ++ [""])%list <-> exists ls, In (BPlain ls) bs /\ In h ls).
  Proof.
    intros bs items h [Hs1 _] Hh.
    destruct (heading_facts h Hh) as [[Km [Kb Ke]] Hno].
    rewrite in_app_iff; cbn [In].
    rewrite (in_doc_lines_const P h bs Km Kb Ke); split.
    - intros [[b [Hb Hl]]|[E|[]]]; [|symmetry in E; contradiction].
      destruct b as [ls|q t v].
      + exists ls; split; assumption.
      + specialize (Hs1 _ Hb); destruct Hs1 as [Ht _]; subst t; exfalso; exact (Hno q Hl).
    - intros [ls [Hb Hl]]; left; exists (BPlain ls); split; assumption.
  Qed.

  Lemma shape_sec_blocks : forall items, shape (sec_blocks sec items) items.
  Proof.
    intro items; unfold sec_blocks; split.
    - intros b Hb; apply in_map_iff in Hb; destruct Hb as [[q v] [E Hin]]; subst b; cbn [fst snd]; tauto.
    - intros q v Hin; apply in_map_iff; exists (q, v); split; [reflexivity | exact Hin].
  Qed.

  Lemma shape_app : forall bs1 bs2 items1 items2,
    shape bs1 items1 -> shape bs2 items2 -> shape (bs1 ++ bs2)%list (items1 ++ items2)%list.
  Proof.
    intros bs1 bs2 i1 i2 [A1 A2] [B1 B2]; split.
    - intros b Hb; apply in_app_or in Hb; destruct Hb as [Hb|Hb]; [specialize (A1 b Hb) | specialize (B1 b Hb)];
        destruct b as [ls|q t v]; try tauto.
      + destruct A1 as [Ht Hin]; split; [exact Ht | apply in_or_app; left; exact Hin].
      + destruct B1 as [Ht Hin]; split; [exact Ht | apply in_or_app; right; exact Hin].
    - intros q v Hin; apply in_app_or in Hin; apply in_or_app; destruct Hin as [Hin|Hin]; [left; apply A2 | right; apply B2]; exact Hin.
  Qed.

  Lemma shape_plain : forall ls, forallb (plain_ok P keys headings) ls = true -> (forall p, ~ In (key p) ls) ->
    shape [BPlain ls] [].
  Proof.
    intros ls H1 H2; split.
    - intros b [Hb|[]]; subst b; tauto.
    - intros q v [].
  Qed.
  (* lines starting with a given overview prefix occur only inside plain blocks *)
  Definition prefix_const_okb (pre : string) : bool :=
    negb (starts_with pre lines_marker) && negb (starts_with pre "") &&
    match pre with String c _ => negb (Ascii.eqb c "-") | EmptyString => false end &&
    forallb (fun q => forallb (fun l => negb (starts_with pre l)) (split_lines (sec q))) all.

  Lemma shape_prefix_lines : forall pre bs items l, prefix_const_okb pre = true -> shape bs items ->
    In l (doc_lines bs ++ [""])%list -> starts_with pre l = true ->
    exists ls, In (BPlain ls) bs /\ In l ls.
  Proof.
    intros pre bs items l H [Hs1 _] Hin Hl; unfold prefix_const_okb in H.
    apply andb_true_iff in H; destruct H as [H123 H4]; apply andb_true_iff in H123; destruct H123 as [H12 H3].
    apply andb_true_iff in H12; destruct H12 as [H1 H2].
    assert (Lm : l <> lines_marker) by (intro E; subst l; rewrite Hl in H1; discriminate H1).
    assert (Lb : l <> "") by (intro E; subst l; rewrite Hl in H2; discriminate H2).
    assert (Le : parse_entry l = None).
    { destruct pre as [|c pre]; [discriminate H3|].
      destruct l as [|c1 l]; [reflexivity|].
      unfold starts_with in Hl; cbn [strip_prefix] in Hl.
      destruct (Ascii.eqb c c1) eqn:E; [|discriminate Hl]; apply Ascii.eqb_eq in E; subst c1.
      destruct l as [|c2 l]; [reflexivity|]; cbn [parse_entry].
      destruct (Ascii.eqb c "-"); [discriminate H3 | reflexivity]. }
    apply in_app_or in Hin; destruct Hin as [Hin|[E|[]]]; [|symmetry in E; contradiction].
    apply (in_doc_lines_const P l bs Lm Lb Le) in Hin; destruct Hin as [b [Hb Hlb]].
    destruct b as [ls|q t v]; [exists ls; split; assumption|].
    exfalso; specialize (Hs1 _ Hb); destruct Hs1 as [Ht _]; subst t.
    rewrite forallb_forall in H4; specialize (H4 q (all_complete q)).
    rewrite forallb_forall in H4; specialize (H4 l Hlb); rewrite Hl in H4; discriminate H4.
  Qed.

  Lemma shape_cons_plain : forall ls bs items,
    forallb (plain_ok P keys headings) ls = true -> (forall p, ~ In (key p) ls) ->
    shape bs items -> shape (BPlain ls :: bs) items.
  Proof.
    intros ls bs items H1 H2 Hs.
    apply (shape_app [BPlain ls] bs [] items); [apply shape_plain; assumption | exact Hs].
  Qed.
End Category.
