(* Sorting facts used by the report theorems (C13): the model's insertion sort returns the
   unique sorted permutation of its input. *)
From Coq Require Import List String Ascii NArith ZArith Bool Lia Permutation Sorted.
Import ListNotations.
From Solstat Require Import Bytes Tables Sections Report.
Local Open Scope list_scope.

(* ------------------------------------------------------------------ insertion sort *)
Section SortFacts.
  Context {A : Type} (leb : A -> A -> bool).
  Let R (a b : A) : Prop := leb a b = true.

  Lemma insert_perm : forall x l, Permutation (insert leb x l) (x :: l).
  Proof.
    intros x l; induction l as [|y r IH]; cbn [insert].
    - apply Permutation_refl.
    - destruct (leb x y).
      + apply Permutation_refl.
      + eapply perm_trans; [apply perm_skip; exact IH | apply perm_swap].
  Qed.

  Lemma isort_perm : forall l, Permutation (isort leb l) l.
  Proof.
    intros l; induction l as [|x r IH]; cbn [isort fold_right].
    - apply perm_nil.
    - eapply perm_trans; [apply insert_perm | apply perm_skip; exact IH].
  Qed.

  Hypothesis leb_total : forall a b, leb a b = true \/ leb b a = true.
  Hypothesis leb_trans : forall a b c, leb a b = true -> leb b c = true -> leb a c = true.

  Lemma insert_sorted : forall x l, StronglySorted R l -> StronglySorted R (insert leb x l).
  Proof.
    intros x l; induction l as [|y r IH]; intro Hs; cbn [insert].
    - constructor; [constructor | constructor].
    - apply StronglySorted_inv in Hs; destruct Hs as [Hr Hy].
      destruct (leb x y) eqn:Hxy.
      + constructor.
        * constructor; assumption.
        * constructor; [exact Hxy|].
          rewrite Forall_forall in *; intros z Hz; unfold R in *; eapply leb_trans; [exact Hxy | apply Hy; exact Hz].
      + constructor.
        * apply IH; exact Hr.
        * rewrite Forall_forall in *; intros z Hz.
          apply (Permutation_in _ (insert_perm x r)) in Hz; destruct Hz as [Hz|Hz].
          -- subst z; destruct (leb_total x y) as [H|H]; [rewrite H in Hxy; discriminate | exact H].
          -- apply Hy; exact Hz.
  Qed.

  Lemma isort_sorted : forall l, StronglySorted R (isort leb l).
  Proof.
    intros l; induction l as [|x r IH]; cbn [isort fold_right].
    - constructor.
    - apply insert_sorted; exact IH.
  Qed.
End SortFacts.

(* two sorted lists with the same elements (as multisets) are equal when the order is
   antisymmetric on the elements present *)
Lemma sorted_perm_unique : forall (A : Type) (R : A -> A -> Prop) (l1 l2 : list A),
  StronglySorted R l1 -> StronglySorted R l2 -> Permutation l1 l2 ->
  (forall a b, In a l1 -> In b l1 -> R a b -> R b a -> a = b) ->
  l1 = l2.
Proof.
  intros A R l1; induction l1 as [|a l1' IH]; intros l2 Hs1 Hs2 Hp Hanti.
  - apply Permutation_nil in Hp; subst; reflexivity.
  - destruct l2 as [|b l2'].
    + apply Permutation_sym, Permutation_nil in Hp; discriminate Hp.
    + apply StronglySorted_inv in Hs1; destruct Hs1 as [Hs1 Ha].
      apply StronglySorted_inv in Hs2; destruct Hs2 as [Hs2 Hb].
      rewrite Forall_forall in Ha, Hb.
      assert (Hab : a = b).
      { assert (Hin_a : In a (b :: l2')) by (apply (Permutation_in _ Hp); left; reflexivity).
        assert (Hin_b : In b (a :: l1')) by (apply (Permutation_in _ (Permutation_sym Hp)); left; reflexivity).
        destruct Hin_a as [Hin_a|Hin_a]; [symmetry; exact Hin_a|].
        destruct Hin_b as [Hin_b|Hin_b]; [exact Hin_b|].
        apply Hanti.
        - left; reflexivity.
        - right; exact Hin_b.
        - apply Ha; exact Hin_b.
        - apply Hb; exact Hin_a. }
      subst b; f_equal.
      apply IH.
      * exact Hs1.
      * exact Hs2.
      * eapply Permutation_cons_inv; exact Hp.
      * intros x y Hx Hy; apply Hanti; right; assumption.
Qed.

(* ------------------------------------------------------------------ lexicographic comparison *)
Section Lex.
  Context {A : Type} (c : A -> A -> comparison).
  Hypothesis c_eq : forall x y, c x y = Eq -> x = y.
  Hypothesis c_refl : forall x, c x x = Eq.
  Hypothesis c_antisym : forall x y, c y x = CompOpp (c x y).
  Hypothesis c_trans : forall x y z, c x y = Lt -> c y z = Lt -> c x z = Lt.

  Lemma lex_eq : forall a b, lex_compare c a b = Eq -> a = b.
  Proof.
    intros a; induction a as [|x a IH]; intros [|y b] H; cbn [lex_compare] in H; try discriminate H.
    - reflexivity.
    - destruct (c x y) eqn:Hc; try discriminate H.
      apply c_eq in Hc; subst y; f_equal; apply IH; exact H.
  Qed.

  Lemma lex_refl : forall a, lex_compare c a a = Eq.
  Proof. intros a; induction a as [|x a IH]; cbn [lex_compare]; [reflexivity | rewrite c_refl; exact IH]. Qed.

  Lemma lex_antisym : forall a b, lex_compare c b a = CompOpp (lex_compare c a b).
  Proof.
    intros a; induction a as [|x a IH]; intros [|y b]; cbn [lex_compare]; try reflexivity.
    rewrite (c_antisym x y); destruct (c x y); cbn [CompOpp]; [apply IH | reflexivity | reflexivity].
  Qed.

  Lemma lex_trans : forall a b d, lex_compare c a b = Lt -> lex_compare c b d = Lt -> lex_compare c a d = Lt.
  Proof.
    intros a; induction a as [|x a IH]; intros [|y b] [|z d] H1 H2; cbn [lex_compare] in *; try discriminate; try reflexivity.
    destruct (c x y) eqn:Hxy; try discriminate H1.
    - apply c_eq in Hxy; subst y.
      destruct (c x z) eqn:Hxz; try discriminate H2; [eapply IH; eassumption | reflexivity].
    - destruct (c y z) eqn:Hyz; try discriminate H2.
      + apply c_eq in Hyz; subst z; rewrite Hxy; reflexivity.
      + rewrite (c_trans _ _ _ Hxy Hyz); reflexivity.
  Qed.
End Lex.

Lemma N_compare_trans : forall x y z : N, N.compare x y = Lt -> N.compare y z = Lt -> N.compare x z = Lt.
Proof. intros x y z; rewrite !N.compare_lt_iff; lia. Qed.
Lemma Z_compare_trans : forall x y z : Z, Z.compare x y = Lt -> Z.compare y z = Lt -> Z.compare x z = Lt.
Proof. intros x y z; rewrite !Z.compare_lt_iff; lia. Qed.

Lemma string_to_bytes_inj : forall a b, string_to_bytes a = string_to_bytes b -> a = b.
Proof.
  unfold string_to_bytes.
  intros a; induction a as [|x a IH]; intros [|y b] H; cbn [list_ascii_of_string map] in H; try discriminate H.
  - reflexivity.
  - injection H as Hx Hr.
    assert (x = y) by (rewrite <- (ascii_N_embedding x), <- (ascii_N_embedding y), Hx; reflexivity).
    subst y; f_equal; apply IH; exact Hr.
Qed.

(* ------------------------------------------------------------------ the order on (file, lines) *)
Lemma str_compare_eq : forall a b, str_compare a b = Eq -> a = b.
Proof.
  intros a b H; apply string_to_bytes_inj.
  apply (lex_eq N.compare); [intros x y; apply N.compare_eq | exact H].
Qed.
Lemma str_compare_refl : forall a, str_compare a a = Eq.
Proof. intro a; apply lex_refl; apply N.compare_refl. Qed.
Lemma str_compare_antisym : forall a b, str_compare b a = CompOpp (str_compare a b).
Proof. intros a b; apply lex_antisym; intros x y; apply N.compare_antisym. Qed.
Lemma str_compare_trans : forall a b d, str_compare a b = Lt -> str_compare b d = Lt -> str_compare a d = Lt.
Proof.
  intros a b d; apply lex_trans.
  - intros x y; apply N.compare_eq.
  - exact N_compare_trans.
Qed.

Definition zl_compare := lex_compare Z.compare.
Lemma zl_compare_eq : forall a b, zl_compare a b = Eq -> a = b.
Proof. apply lex_eq; intros x y; apply Z.compare_eq. Qed.
Lemma zl_compare_refl : forall a, zl_compare a a = Eq.
Proof. apply lex_refl; apply Z.compare_refl. Qed.
Lemma zl_compare_antisym : forall a b, zl_compare b a = CompOpp (zl_compare a b).
Proof. apply lex_antisym; intros x y; apply Z.compare_antisym. Qed.
Lemma zl_compare_trans : forall a b d, zl_compare a b = Lt -> zl_compare b d = Lt -> zl_compare a d = Lt.
Proof.
  apply lex_trans.
  - intros x y; apply Z.compare_eq.
  - exact Z_compare_trans.
Qed.

Lemma entry_compare_eq : forall a b, entry_compare a b = Eq -> a = b.
Proof.
  intros [f1 l1] [f2 l2]; unfold entry_compare; cbn [fst snd]; intro H.
  destruct (str_compare f1 f2) eqn:Hs; try discriminate H.
  apply str_compare_eq in Hs; apply (zl_compare_eq l1 l2) in H; subst; reflexivity.
Qed.

Lemma entry_compare_antisym : forall a b, entry_compare b a = CompOpp (entry_compare a b).
Proof.
  intros [f1 l1] [f2 l2]; unfold entry_compare; cbn [fst snd].
  rewrite (str_compare_antisym f1 f2); destruct (str_compare f1 f2); cbn [CompOpp]; try reflexivity.
  apply (zl_compare_antisym l1 l2).
Qed.

Lemma entry_compare_trans : forall a b d, entry_compare a b = Lt -> entry_compare b d = Lt -> entry_compare a d = Lt.
Proof.
  intros [f1 l1] [f2 l2] [f3 l3]; unfold entry_compare; cbn [fst snd]; intros H1 H2.
  destruct (str_compare f1 f2) eqn:H12; try discriminate H1.
  - apply str_compare_eq in H12; subst f2.
    destruct (str_compare f1 f3) eqn:H13; try discriminate H2; [|reflexivity].
    exact (zl_compare_trans _ _ _ H1 H2).
  - destruct (str_compare f2 f3) eqn:H23; try discriminate H2.
    + apply str_compare_eq in H23; subst f3; rewrite H12; reflexivity.
    + rewrite (str_compare_trans _ _ _ H12 H23); reflexivity.
Qed.

Lemma entry_leb_total : forall a b, entry_leb a b = true \/ entry_leb b a = true.
Proof.
  intros a b; unfold entry_leb; rewrite (entry_compare_antisym a b).
  destruct (entry_compare a b); cbn [CompOpp]; auto.
Qed.

Lemma entry_leb_antisym : forall a b, entry_leb a b = true -> entry_leb b a = true -> a = b.
Proof.
  intros a b; unfold entry_leb; rewrite (entry_compare_antisym a b).
  destruct (entry_compare a b) eqn:H; cbn [CompOpp]; intros H1 H2; try discriminate.
  apply entry_compare_eq; exact H.
Qed.

Lemma entry_leb_trans : forall a b d, entry_leb a b = true -> entry_leb b d = true -> entry_leb a d = true.
Proof.
  intros a b d; unfold entry_leb.
  destruct (entry_compare a b) eqn:H1; try discriminate; intros _.
  - apply entry_compare_eq in H1; subst b; trivial.
  - destruct (entry_compare b d) eqn:H2; try discriminate; intros _.
    + apply entry_compare_eq in H2; subst d; rewrite H1; reflexivity.
    + rewrite (entry_compare_trans _ _ _ H1 H2); reflexivity.
Qed.

(* sorting a vector: only the multiset of its elements matters *)
Lemma sort_entries_perm : forall v v', Permutation v v' -> isort entry_leb v = isort entry_leb v'.
Proof.
  intros v v' Hp.
  apply (sorted_perm_unique _ (fun a b => entry_leb a b = true)).
  - apply isort_sorted; [exact entry_leb_total | exact entry_leb_trans].
  - apply isort_sorted; [exact entry_leb_total | exact entry_leb_trans].
  - eapply perm_trans; [apply isort_perm|].
    eapply perm_trans; [exact Hp | apply Permutation_sym, isort_perm].
  - intros a b _ _; apply entry_leb_antisym.
Qed.

(* ------------------------------------------------------------------ sorting by discriminant *)
Section KeySort.
  Context {P V : Type} (idx : P -> N).
  Hypothesis idx_inj : forall a b, idx a = idx b -> a = b.

  Lemma key_leb_total : forall a b : P * V, key_leb idx a b = true \/ key_leb idx b a = true.
  Proof. intros a b; unfold key_leb; rewrite !N.leb_le; lia. Qed.
  Lemma key_leb_trans : forall a b c : P * V, key_leb idx a b = true -> key_leb idx b c = true -> key_leb idx a c = true.
  Proof. intros a b c; unfold key_leb; rewrite !N.leb_le; lia. Qed.

  Lemma nodup_keys_eq : forall (l : list (P * V)) a b,
    NoDup (map fst l) -> In a l -> In b l -> fst a = fst b -> a = b.
  Proof.
    intros l; induction l as [|x r IH]; intros a b Hnd Ha Hb Hab; [destruct Ha|].
    cbn [map] in Hnd; inversion Hnd as [|? ? Hnot Hnd']; subst.
    destruct Ha as [Ha|Ha]; destruct Hb as [Hb|Hb].
    - subst; reflexivity.
    - subst a; exfalso; apply Hnot; rewrite Hab; apply in_map; exact Hb.
    - subst b; exfalso; apply Hnot; rewrite <- Hab; apply in_map; exact Ha.
    - apply IH; assumption.
  Qed.

  Lemma sorted_keys_unique : forall l1 l2 : list (P * V),
    StronglySorted (fun a b => key_leb idx a b = true) l1 ->
    StronglySorted (fun a b => key_leb idx a b = true) l2 ->
    NoDup (map fst l1) -> Permutation l1 l2 -> l1 = l2.
  Proof.
    intros l1 l2 H1 H2 Hnd Hp.
    apply (sorted_perm_unique _ _ l1 l2 H1 H2 Hp).
    intros a b Ha Hb Hab Hba; unfold key_leb in Hab, Hba; rewrite N.leb_le in Hab, Hba.
    apply (nodup_keys_eq l1); try assumption.
    apply idx_inj; lia.
  Qed.
End KeySort.
