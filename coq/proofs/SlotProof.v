(* C10, arithmetic part: storage_slots_used counts the groups of the layout rule;
   consequences for the comparison made by the two packing detectors. *)
From Coq Require Import List NArith Bool Lia Permutation Sorted.
Import ListNotations.
From Solstat Require Import Res Utils SlotSpec.
Local Open Scope N_scope.

(* ------------------------------------------------------------------ small facts *)
Lemma total_cons x g : total (x :: g) = x + total g.
Proof. reflexivity. Qed.

Lemma total_single x : total [x] = x.
Proof. unfold total. cbn [fold_right]. lia. Qed.

Lemma total_app a b : total (a ++ b) = total a + total b.
Proof. induction a as [|x a IH]; [reflexivity|]. cbn [app]. rewrite !total_cons, IH. lia. Qed.

Lemma foldM_app {A S} (f : S -> A -> res S) (a b : list A) (s : S) :
  foldM f (a ++ b) s = bind (foldM f a s) (fun s' => foldM f b s').
Proof.
  revert s. induction a as [|x a IH]; intros s; [reflexivity|].
  cbn [app foldM]. destruct (f s x) as [s'|m]; cbn [bind]; [apply IH | reflexivity].
Qed.

Lemma slot_step_fit b n x : b + x <= 256 -> slot_step (b, n) x = Ok (b + x, n).
Proof.
  intros H. unfold slot_step, u16_max.
  assert (E1 : (65535 <? b + x) = false) by (apply N.ltb_ge; lia).
  assert (E2 : (256 <? b + x) = false) by (apply N.ltb_ge; lia).
  rewrite E1, E2. reflexivity.
Qed.

Lemma slot_step_new b n x : 256 < b + x -> b + x <= 65535 -> n + 1 <= 4294967295 ->
  slot_step (b, n) x = Ok (x, n + 1).
Proof.
  intros H1 H2 H3. unfold slot_step, slot_incr, u16_max, u32_max.
  assert (E1 : (65535 <? b + x) = false) by (apply N.ltb_ge; lia).
  assert (E2 : (256 <? b + x) = true) by (apply N.ltb_lt; lia).
  assert (E3 : (4294967295 <? n + 1) = false) by (apply N.ltb_ge; lia).
  rewrite E1, E2, E3. reflexivity.
Qed.

(* items that fit are added to the current slot *)
Lemma fold_within : forall xs b n, b + total xs <= 256 ->
  foldM slot_step xs (b, n) = Ok (b + total xs, n).
Proof.
  induction xs as [|x xs IH]; intros b n H.
  - cbn [foldM total fold_right]. rewrite N.add_0_r. reflexivity.
  - rewrite total_cons in H. cbn [foldM]. rewrite slot_step_fit by lia. cbn [bind].
    rewrite IH by lia. rewrite total_cons. f_equal; f_equal; lia.
Qed.

Definition nonempty (g : list N) : Prop := g <> [].
Definition fits (g : list N) : Prop := total g <= 256.
Definition overflows (g h : list N) : Prop := 256 < total g + hd 0 h.
Definition len {A} (l : list A) : N := N.of_nat (length l).

Lemma len_cons {A} (x : A) l : len (x :: l) = len l + 1.
Proof. unfold len. cbn [length]. lia. Qed.

(* the groups after the first one: each opens a new slot *)
Lemma groups_run : forall gs b n,
  gs <> [] -> b <= 256 -> Forall nonempty gs -> Forall fits gs -> adjacent overflows gs ->
  256 < b + hd 0 (hd [] gs) -> n + len gs <= 4294967295 ->
  foldM slot_step (concat gs) (b, n) = Ok (total (last gs []), n + len gs).
Proof.
  induction gs as [|g rest IH]; intros b n Hne Hb Hn Hf Ha Hov Hlen; [contradiction|].
  inversion Hn as [|? ? Hg Hn']; subst. inversion Hf as [|? ? Hfg Hf']; subst.
  destruct g as [|x xs]; [exfalso; apply Hg; reflexivity|].
  cbn [hd] in Hov. unfold fits in Hfg. rewrite total_cons in Hfg.
  rewrite len_cons in Hlen.
  cbn [concat]. rewrite foldM_app. cbn [foldM app].
  rewrite slot_step_new by lia. cbn [bind].
  rewrite fold_within by lia. cbn [bind].
  destruct rest as [|h rest'].
  - cbn [concat foldM last]. rewrite total_cons. rewrite len_cons. cbn [len length].
    f_equal; f_equal; lia.
  - cbn [adjacent] in Ha. destruct Ha as [Hgh Ha'].
    rewrite IH; try assumption.
    + rewrite (len_cons (x :: xs)). f_equal; f_equal; lia.
    + discriminate.
    + lia.
Qed.

Lemma nonempty_len_le gs : Forall nonempty gs -> (length gs <= length (concat gs))%nat.
Proof.
  induction 1 as [|g gs Hg _ IH]; [apply le_n|].
  cbn [concat length]. rewrite app_length. destruct g as [|x g]; [exfalso; apply Hg; reflexivity|].
  cbn [length]. lia.
Qed.

Lemma total_pos g : g <> [] -> Forall size_ok g -> 0 < total g.
Proof.
  intros Hg Hf. destruct g as [|x g]; [contradiction|].
  inversion Hf as [|? ? Hx _]; subst. rewrite total_cons. unfold size_ok in Hx. lia.
Qed.

Lemma Forall_concat_last {A} (P : A -> Prop) (gs : list (list A)) :
  Forall P (concat gs) -> Forall P (last gs []).
Proof.
  induction gs as [|g gs IH]; intros H; [constructor|].
  cbn [concat] in H. apply Forall_app in H. destruct H as [Hg Hr].
  destruct gs as [|h gs']; [exact Hg|]. exact (IH Hr).
Qed.

Lemma last_nonempty gs : gs <> [] -> Forall nonempty gs -> last gs [] <> [].
Proof.
  induction gs as [|g gs IH]; intros Hne H; [contradiction|].
  inversion H as [|? ? Hg Hr]; subst. destruct gs as [|h gs']; [exact Hg|].
  apply IH; [discriminate | exact Hr].
Qed.

(* ------------------------------------------------------------------ slots_greedy_partition *)
Theorem slots_greedy_partition_lemma : forall l,
  Forall size_ok l -> N.of_nat (length l) < 2 ^ 32 ->
  forall gs, layout l gs -> storage_slots_used l = Ok (N.of_nat (length gs)).
Proof.
  intros l Hl Hlen gs (Hc & Hn & Hf & Ha).
  change (2 ^ 32) with 4294967296 in Hlen.
  assert (Hgl := nonempty_len_le gs Hn). rewrite Hc in Hgl.
  unfold storage_slots_used. subst l.
  destruct gs as [|g rest].
  - reflexivity.
  - inversion Hn as [|? ? Hg Hn']; subst. inversion Hf as [|? ? Hfg Hf']; subst.
    cbn [concat]. rewrite foldM_app. unfold fits in Hfg.
    rewrite fold_within by lia. cbn [bind]. rewrite N.add_0_l.
    assert (Hpos : 0 < total (last (g :: rest) [])).
    { apply total_pos; [apply last_nonempty; [discriminate | exact Hn] | apply Forall_concat_last; exact Hl]. }
    destruct rest as [|h rest'].
    + cbn [concat foldM bind]. cbn [last] in Hpos. apply N.ltb_lt in Hpos. rewrite Hpos.
      unfold slot_incr, u32_max. reflexivity.
    + cbn [adjacent] in Ha. destruct Ha as [Hgh Ha'].
      cbn [length] in Hgl.
      rewrite groups_run; try assumption.
      * cbn [bind]. change (last (g :: h :: rest') []) with (last (h :: rest') []) in Hpos.
        apply N.ltb_lt in Hpos. rewrite Hpos.
        unfold slot_incr, u32_max, len.
        assert (E : (4294967295 <? 0 + N.of_nat (length (h :: rest')) + 1) = false)
          by (apply N.ltb_ge; cbn [length]; lia).
        rewrite E. f_equal. cbn [length]. lia.
      * discriminate.
      * unfold len. cbn [length]. lia.
Qed.

(* the layout rule determines the number of slots *)
Corollary layout_count_unique_lemma : forall l gs gs',
  Forall size_ok l -> N.of_nat (length l) < 2 ^ 32 -> layout l gs -> layout l gs' ->
  length gs = length gs'.
Proof.
  intros l gs gs' Hl Hlen H1 H2.
  assert (E1 := slots_greedy_partition_lemma l Hl Hlen gs H1).
  assert (E2 := slots_greedy_partition_lemma l Hl Hlen gs' H2).
  rewrite E1 in E2. injection E2 as E. apply Nat2N.inj. exact E.
Qed.

(* ------------------------------------------------------------------ the rule has a solution *)
Lemma hd_app_nonempty (cur : list N) x : cur <> [] -> hd 0 (cur ++ [x]) = hd 0 cur.
Proof. destruct cur; [contradiction | reflexivity]. Qed.

Lemma fill_layout : forall l cur,
  cur <> [] -> total cur <= 256 -> Forall (fun s => s <= 256) l ->
  let gs := fill cur (total cur) l in
  concat gs = cur ++ l /\ Forall nonempty gs /\ Forall fits gs /\ adjacent overflows gs /\
  hd 0 (hd [] gs) = hd 0 cur.
Proof.
  induction l as [|x r IH]; intros cur Hne Hs Hl; cbv zeta.
  - destruct cur as [|c cs]; [contradiction|]. cbn [fill concat].
    split; [|split; [|split; [|split]]]; try (constructor; [assumption | constructor]).
    + rewrite !app_nil_r. reflexivity.
    + cbn [adjacent]. split; exact I.
    + reflexivity.
  - inversion Hl as [|? ? Hx Hr]; subst.
    destruct cur as [|c cs] eqn:Ecur; [contradiction|]. rewrite <- Ecur in *.
    assert (Hfill : fill cur (total cur) (x :: r) =
                    if 256 <? total cur + x then cur :: fill [x] x r else fill (cur ++ [x]) (total cur + x) r)
      by (rewrite Ecur; reflexivity).
    rewrite Hfill. clear Hfill. destruct (256 <? total cur + x) eqn:E.
    + apply N.ltb_lt in E.
      assert (H1 : [x] <> []) by discriminate.
      assert (H2 : total [x] <= 256) by (rewrite total_single; exact Hx).
      destruct (IH [x] H1 H2 Hr) as (Ic & In_ & If & Ia & Ih). rewrite total_single in *.
      cbn [hd] in Ih.
      split; [|split; [|split; [|split]]].
      * cbn [concat]. rewrite Ic. reflexivity.
      * constructor; assumption.
      * constructor; assumption.
      * cbn [adjacent]. split; [|exact Ia].
        destruct (fill [x] x r) as [|g tl] eqn:Ef; [exact I|].
        unfold overflows. cbn [hd] in Ih. rewrite Ih. exact E.
      * reflexivity.
    + apply N.ltb_ge in E.
      assert (H1 : cur ++ [x] <> []) by (rewrite Ecur; discriminate).
      assert (H2 : total (cur ++ [x]) <= 256) by (rewrite total_app, total_single; exact E).
      destruct (IH (cur ++ [x]) H1 H2 Hr) as (Ic & In_ & If & Ia & Ih).
      rewrite total_app, total_single in *.
      split; [|split; [|split; [|split]]]; try assumption.
      * rewrite Ic. rewrite <- app_assoc. reflexivity.
      * rewrite Ih. apply hd_app_nonempty. exact Hne.
Qed.

Theorem layout_exists_lemma : forall l, Forall size_ok l -> layout l (layout_of l).
Proof.
  intros l Hl. unfold layout_of. destruct l as [|x r].
  - cbn [fill]. repeat split; constructor.
  - inversion Hl as [|? ? Hx Hr]; subst. cbn [fill].
    assert (H1 : [x] <> []) by discriminate.
    assert (H2 : total [x] <= 256) by (rewrite total_single; unfold size_ok in Hx; lia).
    assert (H3 : Forall (fun s => s <= 256) r)
      by (eapply Forall_impl; [| exact Hr]; intros s Hs; unfold size_ok in Hs; lia).
    destruct (fill_layout r [x] H1 H2 H3) as (Ic & In_ & If & Ia & _).
    rewrite total_single in *. repeat split; assumption.
Qed.

Theorem slots_spec_lemma : forall l,
  Forall size_ok l -> N.of_nat (length l) < 2 ^ 32 -> storage_slots_used l = Ok (slots_spec l).
Proof.
  intros l Hl Hlen. unfold slots_spec.
  apply slots_greedy_partition_lemma; [exact Hl | exact Hlen | apply layout_exists_lemma; exact Hl].
Qed.

(* ------------------------------------------------------------------ the detectors' comparison *)
Lemma sort_perm l : Permutation l (sort_u16 l).
Proof. apply NSort.Permuted_sort. Qed.

Lemma sort_sorted l : Sorted (fun a b => a <= b) (sort_u16 l).
Proof.
  assert (H := NSort.Sorted_sort l). unfold sort_u16.
  eapply Sorted_ind with (P := fun l => Sorted (fun a b => a <= b) l); [| | exact H].
  - constructor.
  - intros a l' _ IH Hd. constructor; [exact IH|].
    destruct Hd as [|b l'' Hab]; constructor.
    unfold is_true, NOrder.leb in Hab. apply N.leb_le. exact Hab.
Qed.

Lemma sort_is_sorted_permutation_lemma : forall l,
  Permutation l (sort_u16 l) /\ Sorted (fun a b => a <= b) (sort_u16 l).
Proof. intros l. split; [apply sort_perm | apply sort_sorted]. Qed.

Lemma can_be_packed_true l :
  can_be_packed l = Ok true <->
  exists u s, storage_slots_used l = Ok u /\ storage_slots_used (sort_u16 l) = Ok s /\ s < u.
Proof.
  unfold can_be_packed. split.
  - destruct (storage_slots_used l) as [u|m]; cbn [bind]; [|discriminate].
    destruct (storage_slots_used (sort_u16 l)) as [s|m]; cbn [bind]; [|discriminate].
    intros H. injection H as H. apply N.ltb_lt in H. exists u, s. repeat split. exact H.
  - intros (u & s & Hu & Hs & Hlt). rewrite Hu, Hs. cbn [bind]. apply N.ltb_lt in Hlt. rewrite Hlt. reflexivity.
Qed.

Lemma can_be_packed_false l :
  can_be_packed l = Ok false <->
  exists u s, storage_slots_used l = Ok u /\ storage_slots_used (sort_u16 l) = Ok s /\ u <= s.
Proof.
  unfold can_be_packed. split.
  - destruct (storage_slots_used l) as [u|m]; cbn [bind]; [|discriminate].
    destruct (storage_slots_used (sort_u16 l)) as [s|m]; cbn [bind]; [|discriminate].
    intros H. injection H as H. apply N.ltb_ge in H. exists u, s. repeat split. exact H.
  - intros (u & s & Hu & Hs & Hle). rewrite Hu, Hs. cbn [bind]. apply N.ltb_ge in Hle. rewrite Hle. reflexivity.
Qed.

Lemma size_ok_perm l l' : Permutation l l' -> Forall size_ok l -> Forall size_ok l'.
Proof. intros H. apply Permutation_Forall. exact H. Qed.

(* no panic on sizes that Solidity types have *)
Theorem can_be_packed_total_lemma : forall l,
  Forall size_ok l -> N.of_nat (length l) < 2 ^ 32 ->
  can_be_packed l = Ok (slots_spec (sort_u16 l) <? slots_spec l).
Proof.
  intros l Hl Hlen. unfold can_be_packed.
  rewrite slots_spec_lemma by assumption. cbn [bind].
  rewrite slots_spec_lemma.
  - reflexivity.
  - exact (size_ok_perm _ _ (sort_perm l) Hl).
  - rewrite <- (Permutation_length (sort_perm l)). exact Hlen.
Qed.

(* reported -> some reordering occupies strictly fewer slots (the ascending sort is one) *)
Theorem pack_only_if_lemma : forall l,
  can_be_packed l = Ok true ->
  exists l' n n', Permutation l l' /\ storage_slots_used l = Ok n /\ storage_slots_used l' = Ok n' /\ n' < n.
Proof.
  intros l H. apply can_be_packed_true in H. destruct H as (u & s & Hu & Hs & Hlt).
  exists (sort_u16 l), u, s. repeat split; try assumption. apply sort_perm.
Qed.

(* the same in terms of the layout rule *)
Theorem pack_only_if_layout_lemma : forall l,
  Forall size_ok l -> N.of_nat (length l) < 2 ^ 32 -> can_be_packed l = Ok true ->
  exists l' gs gs', Permutation l l' /\ layout l gs /\ layout l' gs' /\ (length gs' < length gs)%nat.
Proof.
  intros l Hl Hlen H. apply can_be_packed_true in H. destruct H as (u & s & Hu & Hs & Hlt).
  assert (Hl' := size_ok_perm _ _ (sort_perm l) Hl).
  assert (Hlen' : N.of_nat (length (sort_u16 l)) < 2 ^ 32)
    by (rewrite <- (Permutation_length (sort_perm l)); exact Hlen).
  exists (sort_u16 l), (layout_of l), (layout_of (sort_u16 l)).
  repeat split; try (apply layout_exists_lemma; assumption); try apply sort_perm.
  rewrite slots_spec_lemma in Hu by assumption. rewrite slots_spec_lemma in Hs by assumption.
  injection Hu as <-. injection Hs as <-. unfold slots_spec in Hlt. lia.
Qed.

(* declared order already optimal -> never reported *)
Theorem pack_not_if_optimal_lemma : forall l n,
  storage_slots_used l = Ok n ->
  (forall l' n', Permutation l l' -> storage_slots_used l' = Ok n' -> n <= n') ->
  can_be_packed l <> Ok true.
Proof.
  intros l n Hn Hopt H. apply can_be_packed_true in H. destruct H as (u & s & Hu & Hs & Hlt).
  rewrite Hn in Hu. injection Hu as <-.
  assert (Hle := Hopt (sort_u16 l) s (sort_perm l) Hs). lia.
Qed.

Theorem pack_not_if_optimal_layout_lemma : forall l,
  Forall size_ok l -> N.of_nat (length l) < 2 ^ 32 ->
  (forall l' gs gs', Permutation l l' -> layout l gs -> layout l' gs' -> (length gs <= length gs')%nat) ->
  can_be_packed l = Ok false.
Proof.
  intros l Hl Hlen Hopt. rewrite can_be_packed_total_lemma by assumption. f_equal.
  apply N.ltb_ge. unfold slots_spec.
  assert (Hl' := size_ok_perm _ _ (sort_perm l) Hl).
  assert (H := Hopt (sort_u16 l) (layout_of l) (layout_of (sort_u16 l)) (sort_perm l)
                    (layout_exists_lemma l Hl) (layout_exists_lemma _ Hl')).
  lia.
Qed.

(* sorting saves a slot whichever direction is used -> reported
   (the code only tries the ascending sort, so the first hypothesis suffices) *)
Theorem pack_if_both_sorts_lemma : forall l u a d,
  storage_slots_used l = Ok u ->
  storage_slots_used (sort_u16 l) = Ok a -> storage_slots_used (rev (sort_u16 l)) = Ok d ->
  a < u -> d < u -> can_be_packed l = Ok true.
Proof.
  intros l u a d Hu Ha _ Hlt _. apply can_be_packed_true. exists u, a. repeat split; assumption.
Qed.
