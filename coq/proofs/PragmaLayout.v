(* C17 (text part): white space between the sub-tokens of a pragma value does not matter.
   solang hands the value of `pragma solidity <value>;` over as raw text; the only things the
   analyser does with it are (1) the regex scan + i32 parsing of utils.rs (model:
   Detectors.version_of_string = parse_i32 on the pieces of Utils.scan_version) and (2) the test
   "contains '^'" of floating_pragma (spec: Patterns.sp_has_char).
   Here: inserting (or removing) a run of blanks - more generally of characters that are neither
   ASCII digits nor '.' - at a position that is not inside a run of digits and dots changes
   neither.  The side condition is needed ("0.8. 4" vs "0.8.4", see the Examples).
   Proof idea: a match of the regex consists of digits and dots only, so it lies inside one maximal
   run of such characters; the scanner is therefore compositional at every position that is not
   inside such a run (scan_split), and a block without digits is skipped (scan_skip_prefix). *)
From Coq Require Import List String Ascii NArith ZArith Bool Lia.
Import ListNotations.
From Solstat Require Import Lift Pt Walk Res Nodes Utils Detectors WalkProof Patterns Patterns2
  StructLemmas DetBase DetC07 DetC09.
(* last: `all_chars` below is VersionProof.all_chars (DetC07 defines an identical one) *)
From Solstat Require Import VersionProof.
Local Open Scope string_scope.
Local Open Scope N_scope.
Local Open Scope list_scope.

(* ------------------------------------------------------------------ characters *)
(* space, tab, LF, CR *)
Definition is_blank (c : ascii) : bool :=
  let n := N_of_ascii c in (n =? 32) || (n =? 9) || (n =? 10) || (n =? 13).
(* '0'..'9' or '.' : the characters a match of \d+\.\d+\.+\d+ is made of *)
Definition version_char (c : ascii) : bool := is_digit c || is_dot c.
Definition non_version_char (c : ascii) : bool := negb (version_char c).

Definition ends_with (p : ascii -> bool) : string -> bool :=
  fix go (s : string) : bool :=
    match s with
    | EmptyString => false
    | String c EmptyString => p c
    | String _ r => go r
    end.
Definition starts_with (p : ascii -> bool) (s : string) : bool :=
  match s with EmptyString => false | String c _ => p c end.

(* the position between a and b is not inside a run of digits and dots *)
Definition boundary_okb (a b : string) : bool :=
  negb (ends_with version_char a && starts_with version_char b).
Definition boundary_ok (a b : string) : Prop := boundary_okb a b = true.

Lemma blank_not_version c : is_blank c = true -> version_char c = false.
Proof.
  unfold is_blank, version_char, is_digit, is_dot. cbv zeta. intros H.
  rewrite !orb_true_iff in H. rewrite !N.eqb_eq in H.
  apply orb_false_iff. split; [apply andb_false_iff | apply N.eqb_neq].
  - destruct H as [[[H|H]|H]|H]; rewrite H; left; reflexivity.
  - destruct H as [[[H|H]|H]|H]; rewrite H; discriminate.
Qed.

Lemma blank_not_caret c : is_blank c = true -> Ascii.eqb "^"%char c = false.
Proof.
  intros H. destruct (Ascii.eqb "^"%char c) eqn:E; [|reflexivity].
  apply Ascii.eqb_eq in E. subst c. discriminate H.
Qed.

Lemma blanks_non_version ws :
  all_chars is_blank ws = true -> all_chars non_version_char ws = true.
Proof.
  induction ws as [|c ws IH]; intros H; [reflexivity|].
  cbn [all_chars] in H |- *. apply andb_true_iff in H. destruct H as [Hc Hws].
  unfold non_version_char at 1. rewrite (blank_not_version c Hc). cbn [negb andb]. apply IH. exact Hws.
Qed.

Lemma non_version_no_digit ws : all_chars non_version_char ws = true -> no_digit ws.
Proof.
  unfold no_digit. induction ws as [|c ws IH]; intros H; [reflexivity|].
  cbn [all_chars] in H |- *. apply andb_true_iff in H. destruct H as [Hc Hws].
  rewrite (IH Hws), andb_true_r. unfold non_version_char, version_char in Hc.
  apply negb_true_iff in Hc. apply orb_false_iff in Hc. rewrite (proj1 Hc). reflexivity.
Qed.

(* ------------------------------------------------------------------ strings *)
Lemma sapp_nil_r (s : string) : (s ++ "")%string = s.
Proof. induction s as [|c s IH]; [reflexivity|]. cbn [append]. rewrite IH. reflexivity. Qed.

Lemma sapp_assoc (a b c : string) : ((a ++ b) ++ c = a ++ (b ++ c))%string.
Proof. induction a as [|x a IH]; [reflexivity|]. cbn [append]. rewrite IH. reflexivity. Qed.

Lemma slen_app a b : slen (a ++ b)%string = slen a + slen b.
Proof. induction a as [|c a IH]; [reflexivity|]. cbn [append slen]. rewrite IH. lia. Qed.

Lemma all_chars_app p a b : all_chars p (a ++ b)%string = all_chars p a && all_chars p b.
Proof.
  induction a as [|c a IH]; [reflexivity|]. cbn [append all_chars]. rewrite IH, andb_assoc. reflexivity.
Qed.

(* b does not begin with a digit or a dot *)
Definition stops (b : string) : Prop := starts_without version_char b.

Lemma stops_digit b : stops b -> starts_without is_digit b.
Proof.
  destruct b as [|c b]; [trivial|]. unfold stops, version_char. cbn [starts_without]. intros H.
  apply orb_false_iff in H. exact (proj1 H).
Qed.

Lemma stops_dot b : stops b -> starts_without is_dot b.
Proof.
  destruct b as [|c b]; [trivial|]. unfold stops, version_char. cbn [starts_without]. intros H.
  apply orb_false_iff in H. exact (proj2 H).
Qed.

Lemma stops_starts_with b : stops b <-> starts_with version_char b = false.
Proof. destruct b as [|c b]; cbn [stops starts_without starts_with]; unfold stops; cbn [starts_without]; tauto. Qed.

(* ------------------------------------------------------------------ span *)
Lemma span_spec p s : forall x y, span p s = (x, y) -> s = (x ++ y)%string /\ all_chars p x = true.
Proof.
  induction s as [|c s IH]; intros x y H.
  - cbn [span] in H. inversion H. split; reflexivity.
  - cbn [span] in H. destruct (p c) eqn:Ec.
    + destruct (span p s) as [x' y'] eqn:E. inversion H; subst x y.
      destruct (IH x' y' eq_refl) as [Hs Hx]. split.
      * cbn [append]. rewrite <- Hs. reflexivity.
      * cbn [all_chars]. rewrite Ec, Hx. reflexivity.
    + inversion H; subst x y. split; reflexivity.
Qed.

(* the text that follows does not begin with a character of the class: the span stops where it
   stopped before, the remainder gets the text appended *)
Lemma span_app_stop p s b : starts_without p b ->
  span p (s ++ b)%string = (fst (span p s), (snd (span p s) ++ b)%string).
Proof.
  intros Hb. induction s as [|c s IH].
  - cbn [append span fst snd]. destruct b as [|d b]; [reflexivity|].
    cbn [span]. cbn [starts_without] in Hb. rewrite Hb. reflexivity.
  - cbn [append span]. destruct (p c).
    + rewrite IH. destruct (span p s) as [x y]. reflexivity.
    + reflexivity.
Qed.

(* ------------------------------------------------------------------ one anchored attempt looks
   at digits and dots only *)
Lemma match_here_app_stop s b : stops b -> match_here (s ++ b)%string = match_here s.
Proof.
  intros Hb. assert (Hd := stops_digit b Hb). assert (Ho := stops_dot b Hb).
  unfold match_here.
  rewrite (span_app_stop is_digit s b Hd). destruct (span is_digit s) as [d1 r1]. cbn [fst snd].
  destruct (is_empty d1); [reflexivity|].
  destruct r1 as [|c r2].
  - cbn [append]. destruct b as [|d b]; [reflexivity|]. cbn [starts_without] in Ho. rewrite Ho. reflexivity.
  - cbn [append]. destruct (negb (is_dot c)); [reflexivity|].
    rewrite (span_app_stop is_digit r2 b Hd). destruct (span is_digit r2) as [d2 r3]. cbn [fst snd].
    destruct (is_empty d2); [reflexivity|].
    rewrite (span_app_stop is_dot r3 b Ho). destruct (span is_dot r3) as [dots r4]. cbn [fst snd].
    destruct (is_empty dots); [reflexivity|].
    rewrite (span_app_stop is_digit r4 b Hd). destruct (span is_digit r4) as [d3 r5]. cbn [fst snd].
    reflexivity.
Qed.

Lemma all_digit_version d : all_chars is_digit d = true -> all_chars version_char d = true.
Proof.
  induction d as [|c d IH]; intros H; [reflexivity|]. cbn [all_chars] in H |- *.
  apply andb_true_iff in H. destruct H as [Hc Hd]. unfold version_char at 1. rewrite Hc, (IH Hd). reflexivity.
Qed.

Lemma all_dot_version d : all_chars is_dot d = true -> all_chars version_char d = true.
Proof.
  induction d as [|c d IH]; intros H; [reflexivity|]. cbn [all_chars] in H |- *.
  apply andb_true_iff in H. destruct H as [Hc Hd]. unfold version_char at 1. rewrite Hc, (IH Hd), orb_true_r. reflexivity.
Qed.

(* a match is a prefix of the text, made of digits and dots *)
Lemma match_here_prefix s m : match_here s = Some m ->
  (exists t, s = (m ++ t)%string) /\ all_chars version_char m = true.
Proof.
  unfold match_here.
  destruct (span is_digit s) as [d1 r1] eqn:E1. destruct (span_spec _ _ _ _ E1) as [S1 A1].
  destruct (is_empty d1); [discriminate|].
  destruct r1 as [|c r2]; [discriminate|].
  destruct (is_dot c) eqn:Ec; cbn [negb]; [|discriminate].
  destruct (span is_digit r2) as [d2 r3] eqn:E2. destruct (span_spec _ _ _ _ E2) as [S2 A2].
  destruct (is_empty d2); [discriminate|].
  destruct (span is_dot r3) as [dots r4] eqn:E3. destruct (span_spec _ _ _ _ E3) as [S3 A3].
  destruct (is_empty dots); [discriminate|].
  destruct (span is_digit r4) as [d3 r5] eqn:E4. destruct (span_spec _ _ _ _ E4) as [S4 A4].
  destruct (is_empty d3); [discriminate|].
  intros H. inversion H; subst m; clear H. split.
  - exists r5. rewrite S1, S2, S3, S4.
    rewrite sapp_assoc. f_equal. cbn [append]. f_equal.
    rewrite sapp_assoc. f_equal. rewrite sapp_assoc. reflexivity.
  - rewrite all_chars_app. cbn [all_chars]. rewrite !all_chars_app.
    rewrite (all_digit_version _ A1), (all_digit_version _ A2), (all_dot_version _ A3), (all_digit_version _ A4).
    unfold version_char. rewrite Ec, orb_true_r. reflexivity.
Qed.

(* ------------------------------------------------------------------ the boundary *)
(* length of the leading run of digits and dots *)
Fixpoint run_len (s : string) : N :=
  match s with
  | EmptyString => 0
  | String c r => if version_char c then 1 + run_len r else 0
  end.

Lemma run_len_app m t : all_chars version_char m = true -> slen m <= run_len (m ++ t)%string.
Proof.
  induction m as [|c m IH]; intros H; [cbn [slen]; lia|].
  cbn [all_chars] in H. apply andb_true_iff in H. destruct H as [Hc Hm].
  cbn [append slen run_len]. rewrite Hc. specialize (IH Hm). lia.
Qed.

Lemma boundary_ok_nil_l b : boundary_ok "" b.
Proof. reflexivity. Qed.

Lemma boundary_ok_stops a b : stops b -> boundary_ok a b.
Proof.
  intros H. apply stops_starts_with in H. unfold boundary_ok, boundary_okb. rewrite H, andb_false_r. reflexivity.
Qed.

Lemma boundary_ok_tail c a b : boundary_ok (String c a) b -> boundary_ok a b.
Proof.
  destruct a as [|d a]; intros H; [apply boundary_ok_nil_l|]. exact H.
Qed.

Lemma ends_with_cons p c d a : ends_with p (String c (String d a)) = ends_with p (String d a).
Proof. reflexivity. Qed.

(* the boundary is not inside a run: an attempt anchored inside a (non-empty) does not see b *)
Lemma match_here_boundary a b : a <> EmptyString -> boundary_ok a b ->
  match_here (a ++ b)%string = match_here a.
Proof.
  intros Hn Hb.
  destruct (span version_char a) as [p r] eqn:E. destruct (span_spec _ _ _ _ E) as [Ha Hp].
  assert (Hr : stops r).
  { clear - E. revert p r E. induction a as [|c a IH]; intros p r E.
    - cbn [span] in E. inversion E. exact I.
    - cbn [span] in E. destruct (version_char c) eqn:Ec.
      + destruct (span version_char a) as [p' r'] eqn:E'. inversion E; subst. exact (IH p' r eq_refl).
      + inversion E; subst. exact Ec. }
  destruct r as [|d r].
  - (* a consists of digits and dots only, hence ends with one: b must not begin with one *)
    rewrite sapp_nil_r in Ha. subst p. apply match_here_app_stop.
    apply stops_starts_with. unfold boundary_ok, boundary_okb in Hb.
    apply negb_true_iff in Hb. apply andb_false_iff in Hb. destruct Hb as [Hb|Hb]; [|exact Hb].
    exfalso. clear - Hn Hp Hb. induction a as [|c a IH]; [contradiction|].
    cbn [all_chars] in Hp. apply andb_true_iff in Hp. destruct Hp as [Hc Ha].
    destruct a as [|d a].
    + change (version_char c = false) in Hb. rewrite Hb in Hc. discriminate Hc.
    + rewrite ends_with_cons in Hb. apply IH; [discriminate | exact Hb | exact Ha].
  - (* a itself contains a character that stops every attempt *)
    rewrite Ha. rewrite sapp_assoc.
    rewrite (match_here_app_stop p (String d r ++ b)%string) by exact Hr.
    rewrite (match_here_app_stop p (String d r)) by exact Hr. reflexivity.
Qed.

(* ------------------------------------------------------------------ the scanner is compositional
   at every position that is not inside a run of digits and dots.  `skip` (characters still
   covered by the previous match) never reaches beyond the run the match lies in. *)
Lemma scan_split : forall a b skip last,
  boundary_ok a b -> skip <= run_len a ->
  scan_version (a ++ b)%string skip last = scan_version b 0 (scan_version a skip last).
Proof.
  induction a as [|c a IH]; intros b skip last Hb Hs.
  - cbn [run_len] in Hs. assert (skip = 0) by lia. subst skip. reflexivity.
  - cbn [append scan_version]. destruct (0 <? skip) eqn:Ek.
    + apply N.ltb_lt in Ek. apply IH; [exact (boundary_ok_tail c a b Hb)|].
      cbn [run_len] in Hs. destruct (version_char c); lia.
    + change (String c (a ++ b)%string) with (String c a ++ b)%string.
      rewrite (match_here_boundary (String c a) b) by (try discriminate; exact Hb).
      destruct (match_here (String c a)) as [m|] eqn:Em.
      * apply IH; [exact (boundary_ok_tail c a b Hb)|].
        destruct (match_here_prefix _ _ Em) as [[t Ht] Hm].
        destruct m as [|c' m]; [cbn [slen]; lia|].
        cbn [append] in Ht. inversion Ht; subst. cbn [all_chars] in Hm. apply andb_true_iff in Hm.
        assert (H := run_len_app m t (proj2 Hm)). cbn [slen]. lia.
      * apply IH; [exact (boundary_ok_tail c a b Hb) | lia].
Qed.

(* ------------------------------------------------------------------ the text of the last match *)
Theorem scan_insensitive : forall a ws b last,
  all_chars non_version_char ws = true -> boundary_ok a b ->
  scan_version (a ++ ws ++ b)%string 0 last = scan_version (a ++ b)%string 0 last.
Proof.
  intros a ws b last Hws Hb.
  assert (Hb' : boundary_ok a (ws ++ b)%string).
  { destruct ws as [|w ws]; [exact Hb|]. apply boundary_ok_stops.
    cbn [all_chars] in Hws. apply andb_true_iff in Hws. destruct Hws as [Hw _].
    unfold non_version_char in Hw. apply negb_true_iff in Hw. exact Hw. }
  rewrite (scan_split a (ws ++ b)%string 0 last Hb') by lia.
  rewrite (scan_skip_prefix ws (non_version_no_digit ws Hws)).
  rewrite <- (scan_split a b 0 last Hb) by lia. reflexivity.
Qed.

Theorem pieces_insensitive : forall a ws b,
  all_chars non_version_char ws = true -> boundary_ok a b ->
  get_solidity_major_minor_patch_version (a ++ ws ++ b)%string
  = get_solidity_major_minor_patch_version (a ++ b)%string.
Proof.
  intros a ws b Hws Hb. unfold get_solidity_major_minor_patch_version.
  rewrite (scan_insensitive a ws b _ Hws Hb). reflexivity.
Qed.

(* any run of characters other than digits and dots (operators, blanks, letters, ...) *)
Theorem version_separator_insensitive_lemma : forall a ws b : string,
  all_chars non_version_char ws = true -> boundary_ok a b ->
  version_of_string (a ++ ws ++ b)%string = version_of_string (a ++ b)%string.
Proof.
  intros a ws b Hws Hb. unfold version_of_string. rewrite (pieces_insensitive a ws b Hws Hb). reflexivity.
Qed.

Theorem version_blank_insensitive : forall a ws b : string,
  all_chars is_blank ws = true -> boundary_ok a b ->
  version_of_string (a ++ ws ++ b)%string = version_of_string (a ++ b)%string.
Proof.
  intros a ws b Hws Hb. apply version_separator_insensitive_lemma; [apply blanks_non_version; exact Hws | exact Hb].
Qed.

(* ------------------------------------------------------------------ '^' *)
Lemma has_char_app c a b : sp_has_char c (a ++ b)%string = sp_has_char c a || sp_has_char c b.
Proof.
  induction a as [|d a IH]; [reflexivity|]. cbn [append sp_has_char]. rewrite IH, orb_assoc. reflexivity.
Qed.

Lemma blanks_no_caret ws : all_chars is_blank ws = true -> sp_has_char "^"%char ws = false.
Proof.
  induction ws as [|c ws IH]; intros H; [reflexivity|]. cbn [all_chars] in H.
  apply andb_true_iff in H. destruct H as [Hc Hws]. cbn [sp_has_char].
  rewrite (blank_not_caret c Hc), (IH Hws). reflexivity.
Qed.

Theorem caret_blank_insensitive : forall a ws b : string,
  all_chars is_blank ws = true ->
  sp_has_char "^"%char (a ++ ws ++ b)%string = sp_has_char "^"%char (a ++ b)%string.
Proof.
  intros a ws b H. rewrite !has_char_app. rewrite (blanks_no_caret ws H). reflexivity.
Qed.

(* ------------------------------------------------------------------ examples *)
(* both layouts give the LAST version of the range *)
Example range_spaced : version_of_string ">= 0.8.0 <0.9.0" = Some (0, 9, 0)%Z.
Proof. vm_compute. reflexivity. Qed.
Example range_dense : version_of_string ">=0.8.0<0.9.0" = Some (0, 9, 0)%Z.
Proof. vm_compute. reflexivity. Qed.
Example range_layouts_agree : version_of_string ">= 0.8.0 <0.9.0" = version_of_string ">=0.8.0<0.9.0".
Proof. vm_compute. reflexivity. Qed.
(* the same, as an instance of the theorem (two insertions) *)
Example range_layouts_agree_by_theorem :
  version_of_string ">= 0.8.0 <0.9.0" = version_of_string ">=0.8.0<0.9.0".
Proof.
  exact (eq_trans (version_blank_insensitive ">=" " " "0.8.0 <0.9.0" eq_refl eq_refl)
                  (version_blank_insensitive ">=0.8.0" " " "<0.9.0" eq_refl eq_refl)).
Qed.

(* the side condition matters: a blank inside a run of digits and dots cuts the match *)
Example blank_inside_version_matters :
  version_of_string "0.8. 4" = Some (0, 0, 0)%Z /\ version_of_string "0.8.4" = Some (0, 8, 4)%Z
  /\ boundary_okb "0.8." "4" = false.
Proof. vm_compute. repeat split. Qed.
Example blank_inside_number_matters :
  version_of_string "0.8.1 2" = Some (0, 8, 1)%Z /\ version_of_string "0.8.12" = Some (0, 8, 12)%Z
  /\ boundary_okb "0.8.1" "2" = false.
Proof. vm_compute. repeat split. Qed.
(* ... but it is not necessary for an individual value (no full version on either side) *)
Example side_condition_not_necessary :
  boundary_okb "1" "2" = false /\ version_of_string "1 2" = version_of_string "12".
Proof. vm_compute. split; reflexivity. Qed.

(* ------------------------------------------------------------------ detector level
   Two parse trees that differ only in the text of pragma values, by insertions / removals of
   blanks at positions that are not inside a run of digits and dots.  (The locations are kept:
   a re-layout also moves locations, which is the subject of the Loc-equivariance theorems -
   MapLoc / Equivariance*.v; the two compose.) *)
Inductive relayout : string -> string -> Prop :=
| relayout_refl s : relayout s s
| relayout_insert a ws b :
    all_chars is_blank ws = true -> boundary_ok a b -> relayout (a ++ b)%string (a ++ ws ++ b)%string
| relayout_sym s t : relayout s t -> relayout t s
| relayout_trans s t u : relayout s t -> relayout t u -> relayout s u.

Lemma relayout_version s t : relayout s t -> version_of_string t = version_of_string s.
Proof.
  induction 1 as [s|a ws b Hws Hb|s t _ IH|s t u _ IH1 _ IH2].
  - reflexivity.
  - apply version_blank_insensitive; assumption.
  - symmetry. exact IH.
  - rewrite IH2. exact IH1.
Qed.

Lemma relayout_caret s t : relayout s t -> sp_has_char "^"%char t = sp_has_char "^"%char s.
Proof.
  induction 1 as [s|a ws b Hws Hb|s t _ IH|s t u _ IH1 _ IH2].
  - reflexivity.
  - apply caret_blank_insensitive; assumption.
  - symmetry. exact IH.
  - rewrite IH2. exact IH1.
Qed.

Inductive part_relayout : SourceUnitPart -> SourceUnitPart -> Prop :=
| part_relayout_pragma l id ll u s t :
    relayout s t ->
    part_relayout (SourceUnitPart_PragmaDirective l id (Mk_StringLiteral ll u s))
                  (SourceUnitPart_PragmaDirective l id (Mk_StringLiteral ll u t))
| part_relayout_same p : part_relayout p p.

Definition su_relayout (su su' : SourceUnit) : Prop :=
  match su, su' with Mk_SourceUnit ps, Mk_SourceUnit ps' => Forall2 part_relayout ps ps' end.

Lemma model_version_relayout su su' : su_relayout su su' -> model_version su' = model_version su.
Proof.
  destruct su as [ps], su' as [ps']. unfold su_relayout, model_version. intros H.
  induction H as [|p p' ps ps' Hp Hps IH]; [reflexivity|].
  destruct Hp as [l id ll u s t Hst | p].
  - cbn [first_solidity_pragma StringLiteral_string].
    match goal with |- context [String.eqb ?x ?y] => destruct (String.eqb x y) end;
      [apply relayout_version; exact Hst | exact IH].
  - destruct p; cbn [first_solidity_pragma]; try exact IH.
    match goal with |- context [String.eqb ?x ?y] => destruct (String.eqb x y) end;
      [reflexivity | exact IH].
Qed.

Theorem version_relayout_lemma su su' : su_relayout su su' ->
  get_solidity_version_from_source_unit su' = get_solidity_version_from_source_unit su.
Proof. intros H. rewrite !version_closed, (model_version_relayout su su' H). reflexivity. Qed.

Lemma uses_safemath_relayout su su' : su_relayout su su' -> uses_safemath su' = uses_safemath su.
Proof.
  destruct su as [ps], su' as [ps']. unfold su_relayout, uses_safemath. intros H.
  induction H as [|p p' ps ps' Hp Hps IH]; [reflexivity|].
  cbn [existsb]. rewrite IH. destruct Hp; reflexivity.
Qed.

(* the nodes of a kind other than SourceUnit / PragmaDirective are the same *)
Lemma kind_nodes_relayout t su su' :
  Target_eqb Target_SourceUnit t = false -> Target_eqb Target_PragmaDirective t = false ->
  su_relayout su su' ->
  extract_target_from_node t (root su') = extract_target_from_node t (root su).
Proof.
  intros Ht1 Ht2. rewrite !extract_ksel. destruct su as [ps], su' as [ps']. unfold su_relayout, root. intros H.
  assert (Hsu : forall x, ksel t (N_SourceUnit x) = false) by (intros x; exact Ht1).
  assert (Hpr : forall l id lit, ksel t (N_SourceUnitPart (SourceUnitPart_PragmaDirective l id lit)) = false)
    by (intros l id lit; exact Ht2).
  cbn [pre pre_SourceUnit filter]. rewrite !Hsu.
  induction H as [|p p' ps ps' Hp Hps IH]; [reflexivity|].
  cbn [flat_map]. rewrite !filter_app, IH. f_equal.
  destruct Hp as [l id ll u s t' Hst | p]; [|reflexivity].
  cbn [pre_SourceUnitPart filter]. rewrite !Hpr. reflexivity.
Qed.

Lemma fc_nodes_relayout su su' : su_relayout su su' ->
  extract_target_from_node Target_FunctionCall (root su') = extract_target_from_node Target_FunctionCall (root su).
Proof. apply kind_nodes_relayout; reflexivity. Qed.

Theorem safe_math_relayout_lemma su su' pre_080 : su_relayout su su' ->
  safe_math_optimization su' pre_080 = safe_math_optimization su pre_080.
Proof.
  intros H. unfold safe_math_optimization, parse_contract_for_safe_math_functions.
  rewrite (version_relayout_lemma su su' H), (fc_nodes_relayout su su' H),
    !check_if_using_safe_math_closed, (uses_safemath_relayout su su' H). reflexivity.
Qed.

Theorem safe_math_pre_relayout_lemma su su' : su_relayout su su' ->
  safe_math_pre_080_optimization su' = safe_math_pre_080_optimization su.
Proof. apply safe_math_relayout_lemma. Qed.

Theorem safe_math_post_relayout_lemma su su' : su_relayout su su' ->
  safe_math_post_080_optimization su' = safe_math_post_080_optimization su.
Proof. apply safe_math_relayout_lemma. Qed.

Theorem short_revert_relayout_lemma su su' : su_relayout su su' ->
  short_revert_string_optimization su' = short_revert_string_optimization su.
Proof.
  intros H. unfold short_revert_string_optimization.
  rewrite (version_relayout_lemma su su' H), (fc_nodes_relayout su su' H). reflexivity.
Qed.

Theorem string_error_relayout_lemma su su' : su_relayout su su' ->
  string_error_optimization su' = string_error_optimization su.
Proof.
  intros H. unfold string_error_optimization.
  rewrite (version_relayout_lemma su su' H), (fc_nodes_relayout su su' H). reflexivity.
Qed.

Theorem floating_pragma_relayout_lemma su su' : su_relayout su su' ->
  floating_pragma_vulnerability su' = floating_pragma_vulnerability su.
Proof.
  intros H. rewrite !floating_pragma_closed. f_equal.
  destruct su as [ps], su' as [ps']. unfold su_relayout in H. unfold spec_floating_pragma, pragmas.
  induction H as [|p p' ps ps' Hp Hps IH]; [reflexivity|].
  cbn [flat_map]. rewrite !flat_map_app, IH. f_equal.
  destruct Hp as [l id ll u s t Hst | p]; [|reflexivity].
  cbn [flat_map StringLiteral_string app]. rewrite (relayout_caret s t Hst). reflexivity.
Qed.

(* the hypothesis is satisfiable by a non-trivial pair *)
Definition layout_su (v : string) : SourceUnit :=
  Mk_SourceUnit [SourceUnitPart_PragmaDirective (Loc_File 0 0 30) (Mk_Identifier (Loc_File 0 7 15) "solidity")
                   (Mk_StringLiteral (Loc_File 0 16 30) false v)].

Example layout_su_related : su_relayout (layout_su ">=0.8.0<0.9.0") (layout_su ">= 0.8.0 <0.9.0").
Proof.
  unfold su_relayout, layout_su. constructor; [|constructor]. apply part_relayout_pragma.
  apply (relayout_trans _ ">=0.8.0 <0.9.0").
  - exact (relayout_insert ">=0.8.0" " " "<0.9.0" eq_refl eq_refl).
  - exact (relayout_insert ">=" " " "0.8.0 <0.9.0" eq_refl eq_refl).
Qed.

Example layout_su_version :
  get_solidity_version_from_source_unit (layout_su ">= 0.8.0 <0.9.0") = Ok (Some (0, 9, 0)%Z).
Proof. vm_compute. reflexivity. Qed.
