(* C05: closed forms of the expression-level gas detectors and their relation to the
   specification (spec/Patterns.v). *)
From Coq Require Import List String Ascii NArith ZArith Bool.
Import ListNotations.
From Solstat Require Import Lift Pt Walk Res Nodes Utils Detectors WalkProof Patterns DetBase.
Local Open Scope string_scope.

Ltac kind_irrelevant :=
  let e := fresh "e" in let H := fresh "H" in
  intros e H; destruct e; try reflexivity; cbn in H; discriminate H.

Ltac crush_match :=
  repeat match goal with
         | |- context [match ?x with _ => _ end] => is_var x; destruct x
         end; try reflexivity.

(* ---- exact detectors *)
Theorem address_balance_closed su :
  address_balance_optimization su = Ok (spec_address_balance su).
Proof.
  unfold address_balance_optimization, spec_address_balance, all_exprs, all_nodes, root.
  rewrite each_expr_extract1; [|reflexivity|kind_irrelevant].
  f_equal. apply flat_map_ext. intros e. destruct e; try reflexivity.
  unfold sp_is_address_call, name_of, idname.
  match goal with |- context [match ?x with _ => _ end] => destruct x; try reflexivity end.
  match goal with |- context [match ?x with _ => _ end] => destruct x; try reflexivity end.
  match goal with |- context [match ?x with _ => _ end] => destruct x; try reflexivity end.
Qed.

Theorem bool_equals_bool_closed su :
  bool_equals_bool_optimization su = Ok (spec_bool_equals_bool su).
Proof.
  unfold bool_equals_bool_optimization, spec_bool_equals_bool, eqne_where, all_exprs, all_nodes, root.
  rewrite each_expr_extract; [|reflexivity|kind_irrelevant].
  f_equal. apply flat_map_ext. intros e. destruct e; reflexivity.
Qed.

Lemma flat_map_In_ext {A B} (f g : A -> list B) l :
  (forall x y, In y (f x) <-> In y (g x)) -> forall y, In y (flat_map f l) <-> In y (flat_map g l).
Proof.
  intros H y. rewrite !in_flat_map. split; intros [x [Hx Hy]]; exists x; (split; [exact Hx|]); apply H; exact Hy.
Qed.

Lemma existsb_is_and args (l : Loc) :
  In l (flat_map (fun a => if is_and a then [l] else []) args) <-> existsb sp_is_and args = true.
Proof.
  rewrite in_flat_map, existsb_exists. split.
  - intros [x [Hx Hl]]. exists x. split; [exact Hx|]. destruct x; try contradiction. reflexivity.
  - intros [x [Hx Ha]]. exists x. split; [exact Hx|]. destruct x; try discriminate Ha. left. reflexivity.
Qed.

Lemma multiple_require_pointwise e (l : Loc) :
  In l (match e with
        | Expression_FunctionCall loc (Expression_Variable id) args =>
            if String.eqb (name_of id) "require"
            then flat_map (fun a => if is_and a then [loc] else []) args
            else []
        | _ => []
        end) <->
  In l (match e with
        | Expression_FunctionCall l0 (Expression_Variable id) args =>
            if String.eqb (idname id) "require" && existsb sp_is_and args then [l0] else []
        | _ => [] end).
Proof.
  destruct e; try tauto.
  match goal with |- context [match ?x with _ => _ end] => destruct x; try tauto end.
  unfold name_of, idname.
  match goal with |- context [String.eqb ?a ?b] => destruct (String.eqb a b); [|tauto] end.
  cbn [andb]. split.
  - intros H. assert (Hl := H). apply in_flat_map in Hl. destruct Hl as [x [_ Hl]].
    destruct (is_and x); [|contradiction]. destruct Hl as [<-|[]].
    apply existsb_is_and in H. rewrite H. left. reflexivity.
  - intros H. match goal with H : context [existsb sp_is_and ?a] |- _ => destruct (existsb sp_is_and a) eqn:E end; [|contradiction].
    destruct H as [<-|[]]. apply existsb_is_and. exact E.
Qed.

(* multiple_require inserts the location once per `&&` argument; as a set it is the spec *)
Theorem multiple_require_closed su :
  exists ls : list Loc, multiple_require_optimization su = Ok ls /\ (forall l, In l ls <-> In l (spec_multiple_require su)).
Proof.
  unfold multiple_require_optimization, spec_multiple_require, all_exprs, all_nodes, root.
  rewrite each_expr_extract1; [|reflexivity|kind_irrelevant].
  eexists. split; [reflexivity|]. apply flat_map_In_ext. intros e l. apply multiple_require_pointwise.
Qed.

Theorem optimal_comparison_closed su :
  optimal_comparison_optimization su = Ok (spec_optimal_comparison su).
Proof.
  unfold optimal_comparison_optimization, spec_optimal_comparison, all_exprs, all_nodes, root.
  rewrite each_expr_extract; [|reflexivity|kind_irrelevant].
  f_equal.
Qed.

Theorem solidity_keccak256_closed su :
  solidity_keccak256_optimization su = Ok (spec_solidity_keccak256 su).
Proof.
  unfold solidity_keccak256_optimization, spec_solidity_keccak256, all_exprs, all_nodes, root.
  rewrite each_expr_extract1; [|reflexivity|kind_irrelevant].
  f_equal.
Qed.

Theorem solidity_math_closed su :
  solidity_math_optimization su = Ok (spec_solidity_math su).
Proof.
  unfold solidity_math_optimization, spec_solidity_math, all_exprs, all_nodes, root.
  rewrite each_expr_extract; [|reflexivity|kind_irrelevant].
  f_equal.
Qed.
