(* C11 / C12 for the whole report file: generate_report (model/Report.v) against
   read_full_report (spec/ReportReader.v), all 30 patterns side by side. *)
From Coq Require Import List String Ascii NArith ZArith Bool Lia Permutation.
Import ListNotations.
From Solstat Require Import Bytes Tables Sections Report ReportReader ReportSort ReportSet ReportLines
     ReportReaderProof ReportCategory ReportFinite ReportProof ReportFullFinite.
Local Open Scope list_scope.
Local Open Scope string_scope.

Definition full_base := base_facts AnyPattern any_idx any_all all_keys vul_headings any_section full_cat_ok.

Notation fshape := (shape AnyPattern all_keys vul_headings any_section).
Notation fplain_ok ls := (forallb (plain_ok AnyPattern all_keys vul_headings) ls = true /\
                          forall p, ~ In (key AnyPattern any_section p) ls).

Lemma fplain_of_okb : forall ls, plain_lines_okb AnyPattern any_all all_keys vul_headings any_section ls = true -> fplain_ok ls.
Proof. intros ls H; apply (plain_lines_facts AnyPattern any_all any_all_complete all_keys vul_headings any_section ls H). Qed.

Lemma fplain_ovw_opt : forall n, fplain_ok (ovw_lines opt_overview_prefix opt_s0 opt_mid n).
Proof.
  intro n; destruct full_finite as [Hpre [_ [Hmid _]]].
  destruct (ovw_plain AnyPattern any_all any_all_complete all_keys vul_headings any_section
              opt_overview_prefix opt_s0 opt_mid n Hpre Hmid) as [A [B _]]; split; assumption.
Qed.

Lemma fplain_ovw_vul : forall n, fplain_ok (ovw_lines vul_overview_prefix vul_s0 vul_mid n).
Proof.
  intro n; destruct full_finite as [_ [Hpre [_ [Hmid _]]]].
  destruct (ovw_plain AnyPattern any_all any_all_complete all_keys vul_headings any_section
              vul_overview_prefix vul_s0 vul_mid n Hpre Hmid) as [A [B _]]; split; assumption.
Qed.

Lemma fplain_heading : forall s, fplain_ok [heading_of s].
Proof.
  intro s; destruct full_finite as [_ [_ [_ [_ [_ [_ H]]]]]].
  rewrite forallb_forall in H; apply fplain_of_okb, H, VulnerabilitySeverity_all_complete.
Qed.

(* ------------------------------------------------------------------ the plain blocks of the three documents *)
Lemma plain_in_sec_blocks : forall (P : Type) (sec : P -> string) items ls, ~ In (BPlain ls) (sec_blocks sec items).
Proof.
  intros P sec items ls H; unfold sec_blocks in H; apply in_map_iff in H; destruct H as [x [E _]]; discriminate E.
Qed.

Lemma plain_in_doc_opt : forall F ls, In (BPlain ls) (doc_opt F) -> exists n, ls = ovw_lines opt_overview_prefix opt_s0 opt_mid n.
Proof.
  intros F ls [H|H]; [injection H as H; eexists; symmetry; exact H | exfalso; exact (plain_in_sec_blocks _ _ _ _ H)].
Qed.

Lemma plain_in_doc_qa : forall F ls, In (BPlain ls) (doc_qa F) -> ls = qa_ovw.
Proof.
  intros F ls [H|H]; [injection H as H; symmetry; exact H | exfalso; exact (plain_in_sec_blocks _ _ _ _ H)].
Qed.

Lemma plain_in_group : forall s items ls, In (BPlain ls) (group s items) -> ls = [heading_of s].
Proof.
  intros s items ls H; unfold group in H; destruct (of_severity s items); [destruct H|].
  destruct H as [H|H]; [injection H as H; symmetry; exact H | exfalso; exact (plain_in_sec_blocks _ _ _ _ H)].
Qed.

Lemma plain_in_doc_vul : forall F ls, In (BPlain ls) (doc_vul F) ->
  (exists n, ls = ovw_lines vul_overview_prefix vul_s0 vul_mid n) \/ exists s, ls = [heading_of s].
Proof.
  intros F ls [H|H]; [left; injection H as H; eexists; symmetry; exact H|].
  right; rewrite !in_app_iff in H; destruct H as [H|[H|H]]; apply plain_in_group in H; eexists; exact H.
Qed.

(* ------------------------------------------------------------------ a category document inside the whole report *)
Lemma shape_transfer : forall (A : Type) (tg : A -> AnyPattern) keysA headsA secA bs items,
  shape A keysA headsA secA bs items ->
  (forall q, any_section (tg q) = secA q) ->
  (forall ls, In (BPlain ls) bs -> fplain_ok ls) ->
  fshape (map (map_block tg) bs) (tag_findings tg items).
Proof.
  intros A tg keysA headsA secA bs items [S1 S2] Hsec Hplain; unfold tag_findings; split.
  - intros b' Hb'; apply in_map_iff in Hb'; destruct Hb' as [b [E Hb]]; subst b'.
    destruct b as [ls|q t v]; cbn [map_block].
    + apply Hplain; exact Hb.
    + specialize (S1 _ Hb); destruct S1 as [Ht Hin]; split; [rewrite Hsec; exact Ht|].
      apply in_map_iff; exists (q, v); split; [reflexivity | exact Hin].
  - intros q' v Hin; apply in_map_iff in Hin; destruct Hin as [[q w] [E Hin]]; cbn [fst snd] in E.
    injection E as <- <-.
    apply in_map_iff; exists (BSec q (secA q) w); split; [cbn [map_block]; rewrite Hsec; reflexivity | apply S2; exact Hin].
Qed.

Definition sep : block AnyPattern := BPlain [""; ""].

Definition part {A : Type} (tg : A -> AnyPattern) (present : bool) (bs : list (block A)) : list (block AnyPattern) :=
  if present then (map (map_block tg) bs ++ [sep])%list else [].

Definition doc_full (V : findings Vulnerability) (O : findings Optimization) (Q : findings QualityAssurance)
  : list (block AnyPattern) :=
  (part AnyVul (nonempty_map V) (doc_vul V) ++ part AnyOpt (nonempty_map O) (doc_opt O) ++
   part AnyQa (nonempty_map Q) (doc_qa Q))%list.

(* the rendered items of the whole report, in rendering order *)
Definition items_full (V : findings Vulnerability) (O : findings Optimization) (Q : findings QualityAssurance)
  : findings AnyPattern :=
  (tag_findings AnyVul (by_severity (rendered_items Vulnerability_idx V)) ++
   tag_findings AnyOpt (rendered_items Optimization_idx O) ++
   tag_findings AnyQa (rendered_items QualityAssurance_idx Q))%list.

Lemma part_unlines : forall (A : Type) (tg : A -> AnyPattern) (ne : bool) (bs : list (block A)) (s : string),
  s = unlines (doc_lines bs) ->
  (if ne then s ++ nl ++ nl else "") = unlines (doc_lines (part tg ne bs)).
Proof.
  intros A tg ne bs s H; unfold part; destruct ne; [|reflexivity].
  rewrite doc_lines_app, doc_lines_map_block, unlines_app, H; reflexivity.
Qed.

Lemma report_unlines : forall V O Q, generate_report V O Q = unlines (doc_lines (doc_full V O Q)).
Proof.
  intros V O Q; unfold generate_report, doc_full.
  rewrite !doc_lines_app, !unlines_app.
  rewrite <- (part_unlines _ AnyVul (nonempty_map V) (doc_vul V) _ (vul_report_unlines V)).
  rewrite <- (part_unlines _ AnyOpt (nonempty_map O) (doc_opt O) _ (opt_report_unlines O)).
  rewrite <- (part_unlines _ AnyQa (nonempty_map Q) (doc_qa Q) _ (qa_report_unlines Q)).
  reflexivity.
Qed.

Lemma sep_shape : fshape [sep] [].
Proof.
  destruct full_finite as [_ [_ [_ [_ [_ [H _]]]]]]; destruct (fplain_of_okb _ H) as [A B].
  apply (shape_plain AnyPattern all_keys vul_headings any_section); assumption.
Qed.

Lemma rendered_items_nil : forall (P : Type) (idx : P -> N), rendered_items idx [] = [].
Proof. reflexivity. Qed.

Lemma part_shape : forall (A : Type) (tg : A -> AnyPattern) keysA headsA secA (F : findings A) bs items,
  shape A keysA headsA secA bs items ->
  (forall q, any_section (tg q) = secA q) ->
  (forall ls, In (BPlain ls) bs -> fplain_ok ls) ->
  (F = [] -> items = []) ->
  fshape (part tg (nonempty_map F) bs) (tag_findings tg items).
Proof.
  intros A tg keysA headsA secA F bs items S Hsec Hplain Hnil; unfold part.
  destruct F as [|x F]; cbn [nonempty_map].
  - rewrite (Hnil eq_refl); split; [intros b [] | intros q v []].
  - rewrite <- (app_nil_r (tag_findings tg items)).
    apply (shape_app AnyPattern all_keys vul_headings any_section); [|exact sep_shape].
    eapply shape_transfer; eassumption.
Qed.

Lemma full_shape : forall V O Q, fshape (doc_full V O Q) (items_full V O Q).
Proof.
  intros V O Q; unfold doc_full, items_full.
  apply (shape_app AnyPattern all_keys vul_headings any_section); [|apply (shape_app AnyPattern all_keys vul_headings any_section)].
  - eapply part_shape; [apply (vul_shape V) | reflexivity | | intro E; subst V; reflexivity].
    intros ls H; apply plain_in_doc_vul in H; destruct H as [[n H]|[s H]]; subst ls; [apply fplain_ovw_vul | apply fplain_heading].
  - eapply part_shape; [apply (opt_shape O) | reflexivity | | intro E; subst O; reflexivity].
    intros ls H; apply plain_in_doc_opt in H; destruct H as [n H]; subst ls; apply fplain_ovw_opt.
  - eapply part_shape; [apply (qa_shape Q) | reflexivity | | intro E; subst Q; reflexivity].
    intros ls H; apply plain_in_doc_qa in H; subst ls.
    destruct full_finite as [_ [_ [_ [_ [H _]]]]]; apply fplain_of_okb; exact H.
Qed.

Lemma part_no_lf : forall (A : Type) (tg : A -> AnyPattern) ne (bs : list (block A)),
  all_no_lf (doc_lines bs) -> all_no_lf (doc_lines (part tg ne bs)).
Proof.
  intros A tg ne bs H; unfold part; destruct ne; [|constructor].
  rewrite doc_lines_app, doc_lines_map_block; apply Forall_app; split; [exact H | repeat constructor].
Qed.

Lemma full_no_lf : forall V O Q, items_no_lf V -> items_no_lf O -> items_no_lf Q -> all_no_lf (doc_lines (doc_full V O Q)).
Proof.
  intros V O Q HV HO HQ; unfold doc_full; rewrite !doc_lines_app; unfold all_no_lf; rewrite !Forall_app; repeat split;
    apply part_no_lf; [apply vul_no_lf | apply opt_no_lf | apply qa_no_lf]; assumption.
Qed.

Lemma full_lines : forall V O Q, items_no_lf V -> items_no_lf O -> items_no_lf Q ->
  split_lines (generate_report V O Q) = (doc_lines (doc_full V O Q) ++ [""])%list.
Proof. intros V O Q HV HO HQ; rewrite report_unlines; apply split_unlines_end, full_no_lf; assumption. Qed.

(* ------------------------------------------------------------------ round trip *)
Lemma sec_triples_group : forall s items, sec_triples (group s items) = triples (of_severity s items).
Proof.
  intros s items; unfold group; destruct (of_severity s items) as [|kv its]; [reflexivity|].
  change (sec_triples (BPlain [heading_of s] :: sec_blocks vulnerability_section (kv :: its)))
    with (sec_triples (sec_blocks vulnerability_section (kv :: its))).
  apply sec_triples_sec_blocks.
Qed.

Lemma sec_triples_doc_vul : forall F, sec_triples (doc_vul F) = triples (by_severity (vul_items F)).
Proof.
  intro F; unfold doc_vul, by_severity.
  match goal with |- sec_triples (BPlain ?l :: ?r) = _ => change (sec_triples (BPlain l :: r)) with (sec_triples r) end.
  rewrite !sec_triples_app, !sec_triples_group; unfold triples; rewrite !flat_map_app; reflexivity.
Qed.

Lemma sec_triples_doc_opt : forall F, sec_triples (doc_opt F) = triples (opt_items F).
Proof.
  intro F; unfold doc_opt.
  match goal with |- sec_triples (BPlain ?l :: ?r) = _ => change (sec_triples (BPlain l :: r)) with (sec_triples r) end.
  apply sec_triples_sec_blocks.
Qed.

Lemma sec_triples_doc_qa : forall F, sec_triples (doc_qa F) = triples (qa_items F).
Proof.
  intro F; unfold doc_qa.
  match goal with |- sec_triples (BPlain ?l :: ?r) = _ => change (sec_triples (BPlain l :: r)) with (sec_triples r) end.
  apply sec_triples_sec_blocks.
Qed.

Lemma triples_tag_findings : forall (A : Type) (tg : A -> AnyPattern) (F : findings A),
  triples (tag_findings tg F) = map (fun t => (tg (fst (fst t)), snd (fst t), snd t)) (triples F).
Proof.
  intros A tg F; unfold triples, tag_findings; induction F as [|kv F IH]; [reflexivity|].
  cbn [map flat_map fst snd]; rewrite map_app, IH; f_equal.
  rewrite map_flat_map_comm; apply flat_map_ext; intro fl; rewrite map_map; reflexivity.
Qed.

Lemma sec_triples_part : forall (A : Type) (tg : A -> AnyPattern) (F : findings A) bs items,
  sec_triples bs = triples items -> (F = [] -> items = []) ->
  sec_triples (part tg (nonempty_map F) bs) = triples (tag_findings tg items).
Proof.
  intros A tg F bs items H Hnil; unfold part; destruct F as [|x F]; cbn [nonempty_map].
  - rewrite (Hnil eq_refl); reflexivity.
  - rewrite sec_triples_app, sec_triples_map_block, H, triples_tag_findings.
    change (sec_triples [sep]) with (@nil (AnyPattern * string * Z)); apply app_nil_r.
Qed.

Theorem full_roundtrip : forall V O Q, items_no_lf V -> items_no_lf O -> items_no_lf Q ->
  map drop_heading (read_full_report (generate_report V O Q)) = triples (items_full V O Q).
Proof.
  intros V O Q HV HO HQ; rewrite report_unlines; unfold read_full_report.
  destruct full_base as [B1 [B2 [B3 B4]]].
  rewrite (read_doc AnyPattern all_keys vul_headings B1 B2 B3 B4).
  - rewrite drop_heading_doc_out; unfold doc_full, items_full, triples at 1.
    rewrite !sec_triples_app, !flat_map_app.
    fold (triples (tag_findings AnyVul (by_severity (rendered_items Vulnerability_idx V)))).
    fold (triples (tag_findings AnyOpt (rendered_items Optimization_idx O))).
    fold (triples (tag_findings AnyQa (rendered_items QualityAssurance_idx Q))).
    rewrite (sec_triples_part _ AnyVul V _ _ (sec_triples_doc_vul V)); [|intro E; subst V; reflexivity].
    rewrite (sec_triples_part _ AnyOpt O _ _ (sec_triples_doc_opt O)); [|intro E; subst O; reflexivity].
    rewrite (sec_triples_part _ AnyQa Q _ _ (sec_triples_doc_qa Q)); [|intro E; subst Q; reflexivity].
    reflexivity.
  - apply (shape_ok AnyPattern any_idx any_all any_all_complete any_idx_inj all_keys vul_headings any_section
             full_cat_ok _ _ (full_shape V O Q)).
  - apply full_no_lf; assumption.
Qed.

Theorem full_entries_exact : forall V O Q, items_no_lf V -> items_no_lf O -> items_no_lf Q ->
  Permutation (map drop_heading (read_full_report (generate_report V O Q)))
              (triples (tag_findings AnyVul V ++ tag_findings AnyOpt O ++ tag_findings AnyQa Q)%list).
Proof.
  intros V O Q HV HO HQ; rewrite (full_roundtrip V O Q HV HO HQ); unfold items_full, triples at 1 2.
  rewrite !flat_map_app.
  fold (triples (tag_findings AnyVul (by_severity (rendered_items Vulnerability_idx V)))).
  fold (triples (tag_findings AnyOpt (rendered_items Optimization_idx O))).
  fold (triples (tag_findings AnyQa (rendered_items QualityAssurance_idx Q))).
  fold (triples (tag_findings AnyVul V)); fold (triples (tag_findings AnyOpt O)); fold (triples (tag_findings AnyQa Q)).
  rewrite !triples_tag_findings.
  repeat apply Permutation_app; apply Permutation_map.
  - eapply perm_trans; [apply triples_perm, by_severity_perm | apply triples_rendered_items].
  - apply triples_rendered_items.
  - apply triples_rendered_items.
Qed.

(* ------------------------------------------------------------------ sections and categories *)
Lemma in_items_full : forall V O Q p v,
  In (p, v) (items_full V O Q) <->
  match p with
  | AnyVul x => In (x, v) (rendered_items Vulnerability_idx V)
  | AnyOpt x => In (x, v) (rendered_items Optimization_idx O)
  | AnyQa x => In (x, v) (rendered_items QualityAssurance_idx Q)
  end.
Proof.
  intros V O Q p v; unfold items_full, tag_findings; rewrite !in_app_iff, !in_map_iff; split.
  - intros [[[q w] [E H]]|[[[q w] [E H]]|[[q w] [E H]]]]; cbn [fst snd] in E; injection E as <- <-;
      [apply (proj1 (in_by_severity _ _)) in H|..]; exact H.
  - destruct p as [x|x|x]; intro H.
    + left; exists (x, v); split; [reflexivity | apply (proj2 (in_by_severity _ _)); exact H].
    + right; left; exists (x, v); split; [reflexivity | exact H].
    + right; right; exists (x, v); split; [reflexivity | exact H].
Qed.

Definition has_vector {P : Type} (p : P) (F : findings P) : Prop := exists v, In (p, v) F /\ v <> [].

Lemma rendered_has_vector : forall (P : Type) (idx : P -> N) (F : findings P) p,
  (exists w, In (p, w) (rendered_items idx F)) <-> has_vector p F.
Proof.
  intros P idx F p; unfold has_vector; split.
  - intros [w H]; apply in_rendered_items in H; destruct H as [v [Hin [Hne _]]]; exists v; tauto.
  - intros [v [Hin Hne]]; exists (isort entry_leb v); apply in_rendered_items; exists v; tauto.
Qed.

Theorem full_section_iff : forall V O Q p, items_no_lf V -> items_no_lf O -> items_no_lf Q ->
  (In (key_line (any_section p)) (split_lines (generate_report V O Q)) <->
   match p with
   | AnyVul x => has_vector x V
   | AnyOpt x => has_vector x O
   | AnyQa x => has_vector x Q
   end).
Proof.
  intros V O Q p HV HO HQ; rewrite (full_lines V O Q HV HO HQ).
  rewrite (shape_key_iff AnyPattern any_idx any_all any_all_complete any_idx_inj all_keys vul_headings any_section
             full_cat_ok _ _ p (full_shape V O Q)).
  destruct p as [x|x|x]; rewrite <- rendered_has_vector; split; intros [v H]; exists v; apply in_items_full in H || apply in_items_full; exact H.
Qed.

(* plain blocks of the whole document *)
Lemma plain_in_part : forall (A : Type) (tg : A -> AnyPattern) ne (bs : list (block A)) ls,
  In (BPlain ls) (part tg ne bs) -> ne = true /\ (In (BPlain ls) bs \/ ls = [""; ""]).
Proof.
  intros A tg ne bs ls H; unfold part in H; destruct ne; [|destruct H]; split; [reflexivity|].
  apply in_app_or in H; destruct H as [H|[H|[]]].
  - left; apply in_map_iff in H; destruct H as [b [E Hb]]; destruct b; [injection E as ->; exact Hb | discriminate E].
  - right; injection H as H; symmetry; exact H.
Qed.

Lemma no_prefix_line_in : forall pre ls l, no_prefix_line pre ls = true -> In l ls -> starts_with pre l = false.
Proof.
  intros pre ls l H Hin; unfold no_prefix_line in H; rewrite forallb_forall in H; specialize (H l Hin).
  destruct (starts_with pre l); [discriminate H | reflexivity].
Qed.

Lemma nonempty_map_true : forall (P : Type) (F : findings P), nonempty_map F = true <-> F <> [].
Proof. intros P F; destruct F; cbn; split; intro H; try discriminate; try reflexivity; contradiction H; reflexivity. Qed.

Theorem full_vul_block_iff : forall V O Q, items_no_lf V -> items_no_lf O -> items_no_lf Q ->
  ((exists l, In l (split_lines (generate_report V O Q)) /\ starts_with vul_overview_prefix l = true) <-> V <> []).
Proof.
  intros V O Q HV HO HQ; rewrite (full_lines V O Q HV HO HQ).
  destruct full_prefix_finite as [Hc [_ [Hd [_ [Hn _]]]]].
  assert (Hsub : forall ls, incl ls (vul_mid ++ opt_mid ++ qa_ovw ++ [""; ""] ++ vul_headings)%list ->
                            forall l, In l ls -> starts_with vul_overview_prefix l = false).
  { intros ls Hi l Hl; apply (no_prefix_line_in _ _ _ Hn), Hi, Hl. }
  split.
  - intros [l [Hin Hl]].
    destruct (shape_prefix_lines AnyPattern any_all any_all_complete all_keys vul_headings any_section
                vul_overview_prefix _ _ l Hc (full_shape V O Q) Hin Hl) as [ls [Hb Hls]].
    unfold doc_full in Hb; rewrite !in_app_iff in Hb.
    destruct Hb as [Hb|[Hb|Hb]]; apply plain_in_part in Hb; destruct Hb as [Hne Hb].
    + apply nonempty_map_true; exact Hne.
    + exfalso; destruct Hb as [Hb|Hb].
      * apply plain_in_doc_opt in Hb; destruct Hb as [n Hb]; subst ls; destruct Hls as [E|Hls].
        -- subst l; rewrite (diverge_no_prefix _ _ _ Hd) in Hl; discriminate Hl.
        -- rewrite (Hsub opt_mid) in Hl; [discriminate Hl | | exact Hls].
           intros x Hx; rewrite !in_app_iff; tauto.
      * subst ls; rewrite (Hsub [""; ""]) in Hl; [discriminate Hl | | exact Hls].
        intros x Hx; rewrite !in_app_iff; tauto.
    + exfalso; destruct Hb as [Hb|Hb].
      * apply plain_in_doc_qa in Hb; subst ls; rewrite (Hsub qa_ovw) in Hl; [discriminate Hl | | exact Hls].
        intros x Hx; rewrite !in_app_iff; tauto.
      * subst ls; rewrite (Hsub [""; ""]) in Hl; [discriminate Hl | | exact Hls].
        intros x Hx; rewrite !in_app_iff; tauto.
  - intro Hne; destruct V as [|x V]; [contradiction Hne; reflexivity|].
    eexists; split; [|apply starts_with_app].
    unfold doc_full, part; cbn [nonempty_map].
    rewrite !doc_lines_app, doc_lines_map_block; unfold doc_vul; rewrite doc_lines_cons_plain; unfold ovw_lines.
    rewrite <- !app_assoc; left; reflexivity.
Qed.

Theorem full_opt_block_iff : forall V O Q, items_no_lf V -> items_no_lf O -> items_no_lf Q ->
  ((exists l, In l (split_lines (generate_report V O Q)) /\ starts_with opt_overview_prefix l = true) <-> O <> []).
Proof.
  intros V O Q HV HO HQ; rewrite (full_lines V O Q HV HO HQ).
  destruct full_prefix_finite as [_ [Hc [_ [Hd [_ Hn]]]]].
  assert (Hsub : forall ls, incl ls (vul_mid ++ opt_mid ++ qa_ovw ++ [""; ""] ++ vul_headings)%list ->
                            forall l, In l ls -> starts_with opt_overview_prefix l = false).
  { intros ls Hi l Hl; apply (no_prefix_line_in _ _ _ Hn), Hi, Hl. }
  split.
  - intros [l [Hin Hl]].
    destruct (shape_prefix_lines AnyPattern any_all any_all_complete all_keys vul_headings any_section
                opt_overview_prefix _ _ l Hc (full_shape V O Q) Hin Hl) as [ls [Hb Hls]].
    unfold doc_full in Hb; rewrite !in_app_iff in Hb.
    destruct Hb as [Hb|[Hb|Hb]]; apply plain_in_part in Hb; destruct Hb as [Hne Hb].
    + exfalso; destruct Hb as [Hb|Hb].
      * apply plain_in_doc_vul in Hb; destruct Hb as [[n Hb]|[s Hb]]; subst ls.
        -- destruct Hls as [E|Hls].
           ++ subst l; rewrite (diverge_no_prefix _ _ _ Hd) in Hl; discriminate Hl.
           ++ rewrite (Hsub vul_mid) in Hl; [discriminate Hl | | exact Hls].
              intros x Hx; rewrite !in_app_iff; tauto.
        -- rewrite (Hsub [heading_of s]) in Hl; [discriminate Hl | | exact Hls].
           intros x [Hx|[]]; subst x; rewrite !in_app_iff; right; right; right; right.
           unfold vul_headings; apply in_map, VulnerabilitySeverity_all_complete.
      * subst ls; rewrite (Hsub [""; ""]) in Hl; [discriminate Hl | | exact Hls].
        intros x Hx; rewrite !in_app_iff; tauto.
    + apply nonempty_map_true; exact Hne.
    + exfalso; destruct Hb as [Hb|Hb].
      * apply plain_in_doc_qa in Hb; subst ls; rewrite (Hsub qa_ovw) in Hl; [discriminate Hl | | exact Hls].
        intros x Hx; rewrite !in_app_iff; tauto.
      * subst ls; rewrite (Hsub [""; ""]) in Hl; [discriminate Hl | | exact Hls].
        intros x Hx; rewrite !in_app_iff; tauto.
  - intro Hne; destruct O as [|x O]; [contradiction Hne; reflexivity|].
    exists (opt_overview_prefix ++ usize_to_string (total_entries (opt_items (x :: O))) ++ opt_s0).
    split; [|apply starts_with_app].
    unfold doc_full; rewrite !doc_lines_app; unfold part at 2; cbn [nonempty_map].
    rewrite !doc_lines_app, doc_lines_map_block; unfold doc_opt; rewrite doc_lines_cons_plain; unfold ovw_lines.
    rewrite !in_app_iff; cbn [In]; left; right; left; left; left; left; reflexivity.
Qed.

(* ================================================================== statements in terms of the specification *)
Lemma wf_nonempty : forall (P : Type) (F : findings P), wf_findings F -> (F <> [] <-> exists p, has_finding p F).
Proof.
  intros P F H; split.
  - intro Hne; destruct F as [|[p v] F]; [contradiction Hne; reflexivity|].
    exists p; apply (wf_has_finding _ _ p H); exists v; split; [left; reflexivity|].
    destruct (H p v (or_introl eq_refl)) as [Hv _]; exact Hv.
  - intros [p [v [f [ls [z [Hin _]]]]]] E; subst F; destruct Hin.
Qed.

Lemma wf_has_vector : forall (P : Type) (F : findings P) p, wf_findings F -> (has_vector p F <-> has_finding p F).
Proof. intros P F p H; unfold has_vector; apply wf_has_finding; exact H. Qed.

Theorem full_roundtrip_spec : forall V O Q, names_without_lf V -> names_without_lf O -> names_without_lf Q ->
  map drop_heading (read_full_report (generate_report V O Q)) = triples (items_full V O Q).
Proof. intros V O Q HV HO HQ; apply full_roundtrip; apply names_without_lf_items; assumption. Qed.

Theorem full_entries_exact_spec : forall V O Q, names_without_lf V -> names_without_lf O -> names_without_lf Q ->
  Permutation (map drop_heading (read_full_report (generate_report V O Q)))
              (triples (tag_findings AnyVul V ++ tag_findings AnyOpt O ++ tag_findings AnyQa Q)%list).
Proof. intros V O Q HV HO HQ; apply full_entries_exact; apply names_without_lf_items; assumption. Qed.

Theorem full_section_iff_spec : forall V O Q p, wf_findings V -> wf_findings O -> wf_findings Q ->
  (has_line (key_line (any_section p)) (generate_report V O Q) <->
   match p with
   | AnyVul x => has_finding x V
   | AnyOpt x => has_finding x O
   | AnyQa x => has_finding x Q
   end).
Proof.
  intros V O Q p HV HO HQ; unfold has_line.
  rewrite (full_section_iff V O Q p (names_without_lf_items _ _ (wf_names _ _ HV))
             (names_without_lf_items _ _ (wf_names _ _ HO)) (names_without_lf_items _ _ (wf_names _ _ HQ))).
  destruct p; apply wf_has_vector; assumption.
Qed.

Theorem category_iff_vul : forall V O Q, wf_findings V -> wf_findings O -> wf_findings Q ->
  (has_line_starting vul_overview_prefix (generate_report V O Q) <-> exists p, has_finding p V).
Proof.
  intros V O Q HV HO HQ; rewrite <- (wf_nonempty _ V HV).
  apply (full_vul_block_iff V O Q (names_without_lf_items _ _ (wf_names _ _ HV))
           (names_without_lf_items _ _ (wf_names _ _ HO)) (names_without_lf_items _ _ (wf_names _ _ HQ))).
Qed.

Theorem category_iff_opt : forall V O Q, wf_findings V -> wf_findings O -> wf_findings Q ->
  (has_line_starting opt_overview_prefix (generate_report V O Q) <-> exists p, has_finding p O).
Proof.
  intros V O Q HV HO HQ; rewrite <- (wf_nonempty _ O HO).
  apply (full_opt_block_iff V O Q (names_without_lf_items _ _ (wf_names _ _ HV))
           (names_without_lf_items _ _ (wf_names _ _ HO)) (names_without_lf_items _ _ (wf_names _ _ HQ))).
Qed.

(* the QA block has no overview text of its own (its overview is a blank line): it is present
   iff one of its sections is *)
Theorem category_iff_qa : forall V O Q, wf_findings V -> wf_findings O -> wf_findings Q ->
  ((exists q, has_line (key_line (qa_section q)) (generate_report V O Q)) <-> exists q, has_finding q Q).
Proof.
  intros V O Q HV HO HQ; split; intros [q H]; exists q;
    apply (full_section_iff_spec V O Q (AnyQa q) HV HO HQ); exact H.
Qed.

(* the structure of the file: the three blocks in the order vulnerabilities, optimizations, QA,
   each present iff its map is non-empty *)
Theorem report_blocks : forall V O Q,
  generate_report V O Q =
  (if nonempty_map V then generate_vulnerability_report V ++ nl ++ nl else "") ++
  (if nonempty_map O then generate_optimization_report O ++ nl ++ nl else "") ++
  (if nonempty_map Q then generate_qa_report Q ++ nl ++ nl else "").
Proof. reflexivity. Qed.
