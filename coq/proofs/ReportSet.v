(* C13: the (pattern, sorted vector) sequence that the generators render depends only on the
   multiset of (pattern, (file, lines)) findings of the map. *)
From Coq Require Import List String Ascii NArith ZArith Bool Lia Permutation Sorted.
Import ListNotations.
From Solstat Require Import Bytes Tables Sections Report ReportSort.
Local Open Scope list_scope.

Definition keys {P V : Type} (F : list (P * V)) : list P := map fst F.

(* the findings of a map, one item per (pattern, file, line set) *)
Definition finding_items {P : Type} (F : findings P) : list (P * (string * list Z)) :=
  flat_map (fun kv => map (fun e => (fst kv, e)) (snd kv)) F.

(* two maps hold the same set of findings *)
Definition same_finding_set {P : Type} (F F' : findings P) : Prop :=
  Permutation (finding_items F) (finding_items F').

Definition no_empty_vectors {P : Type} (F : findings P) : Prop :=
  forall p v, In (p, v) F -> v <> [].

Lemma finding_items_cons : forall (P : Type) (q : P) u (F : findings P),
  finding_items ((q, u) :: F) = map (fun e => (q, e)) u ++ finding_items F.
Proof. reflexivity. Qed.

Section SetFunction.
  Context {P : Type} (idx : P -> N).
  Hypothesis idx_inj : forall a b, idx a = idx b -> a = b.

  Definition peqb (a b : P) : bool := N.eqb (idx a) (idx b).
  Lemma peqb_eq : forall a b, peqb a b = true <-> a = b.
  Proof.
    intros a b; unfold peqb; rewrite N.eqb_eq; split; [apply idx_inj | intro; subst; reflexivity].
  Qed.

  (* the vector of pattern p, recovered from the items *)
  Definition sel (p : P) (L : list (P * (string * list Z))) : list (string * list Z) :=
    map snd (filter (fun x => peqb (fst x) p) L).

  Lemma sel_perm : forall p L L', Permutation L L' -> Permutation (sel p L) (sel p L').
  Proof.
    intros p L L' H; unfold sel; apply Permutation_map.
    induction H as [|x l l' H IH|x y l|l l' l'' H1 IH1 H2 IH2]; cbn [filter].
    - apply perm_nil.
    - destruct (peqb (fst x) p); [apply perm_skip|]; exact IH.
    - destruct (peqb (fst x) p); destruct (peqb (fst y) p); try apply Permutation_refl; apply perm_swap.
    - eapply perm_trans; eassumption.
  Qed.

  Lemma sel_app : forall p L1 L2, sel p (L1 ++ L2) = sel p L1 ++ sel p L2.
  Proof. intros; unfold sel; rewrite filter_app, map_app; reflexivity. Qed.

  Lemma sel_own : forall p (v : list (string * list Z)), sel p (map (fun e => (p, e)) v) = v.
  Proof.
    intros p v; unfold sel; induction v as [|e v IH]; cbn [map filter fst]; [reflexivity|].
    assert (H : peqb p p = true) by (apply peqb_eq; reflexivity).
    rewrite H; cbn [map snd]; f_equal; exact IH.
  Qed.

  Lemma sel_other : forall p q (v : list (string * list Z)), q <> p -> sel p (map (fun e => (q, e)) v) = [].
  Proof.
    intros p q v Hne; unfold sel; induction v as [|e v IH]; cbn [map filter fst]; [reflexivity|].
    destruct (peqb q p) eqn:H; [apply peqb_eq in H; contradiction | exact IH].
  Qed.

  Lemma sel_absent : forall p (F : findings P), ~ In p (keys F) -> sel p (finding_items F) = [].
  Proof.
    intros p F; induction F as [|[q u] F IH]; intro Hn; [reflexivity|].
    rewrite finding_items_cons, sel_app.
    rewrite sel_other.
    - apply IH; intro H; apply Hn; right; exact H.
    - intro H; apply Hn; left; exact H.
  Qed.

  Lemma sel_present : forall p v (F : findings P),
    NoDup (keys F) -> In (p, v) F -> sel p (finding_items F) = v.
  Proof.
    intros p v F; induction F as [|[q u] F IH]; intros Hnd Hin; [destruct Hin|].
    cbn [keys map fst] in Hnd; inversion Hnd as [|? ? Hnot Hnd']; subst.
    rewrite finding_items_cons, sel_app.
    destruct Hin as [Heq|Hin].
    - injection Heq as Hq Hu; subst q u.
      rewrite sel_own, (sel_absent p F Hnot), app_nil_r; reflexivity.
    - rewrite sel_other.
      + apply IH; assumption.
      + intro H; subst q; apply Hnot; change p with (fst (p, v)); apply in_map; exact Hin.
  Qed.

  Lemma in_finding_items : forall p e (F : findings P),
    In (p, e) (finding_items F) <-> exists v, In (p, v) F /\ In e v.
  Proof.
    intros p e F; unfold finding_items; rewrite in_flat_map; split.
    - intros [[q u] [Hin Hm]]; cbn [fst snd] in Hm; apply in_map_iff in Hm.
      destruct Hm as [e' [Heq He]]; injection Heq as Hq He'; subst q e'.
      exists u; split; assumption.
    - intros [v [Hin He]]; exists (p, v); split; [exact Hin|].
      cbn [fst snd]; apply in_map_iff; exists e; split; [reflexivity | exact He].
  Qed.

  (* ---------------------------------------------------------------- rendered_items *)
  Lemma in_rendered_items : forall p w (F : findings P),
    In (p, w) (rendered_items idx F) <-> exists v, In (p, v) F /\ v <> [] /\ w = isort entry_leb v.
  Proof.
    intros p w F; unfold rendered_items; rewrite in_map_iff; split.
    - intros [[q v] [Heq Hin]]; cbn [fst snd] in Heq; injection Heq as Hq Hw; subst q w.
      apply filter_In in Hin; destruct Hin as [Hin Hne].
      exists v; split; [|split].
      + apply (Permutation_in _ (isort_perm (key_leb idx) F)); exact Hin.
      + unfold nonempty_vec in Hne; cbn [snd] in Hne; intro H; subst v; discriminate Hne.
      + reflexivity.
    - intros [v [Hin [Hne Hw]]]; exists (p, v); split.
      + cbn [fst snd]; subst w; reflexivity.
      + apply filter_In; split.
        * apply (Permutation_in _ (Permutation_sym (isort_perm (key_leb idx) F))); exact Hin.
        * unfold nonempty_vec; cbn [snd]; destruct v; [contradiction Hne; reflexivity | reflexivity].
  Qed.

  Lemma filter_keys_nodup : forall (f : P * list (string * list Z) -> bool) l,
    NoDup (keys l) -> NoDup (keys (filter f l)).
  Proof.
    intros f l; induction l as [|x r IH]; intro H; cbn [filter keys map]; [constructor|].
    cbn [keys map] in H; inversion H as [|? ? Hnot Hnd]; subst.
    destruct (f x); [|apply IH; exact Hnd].
    cbn [keys map]; constructor; [|apply IH; exact Hnd].
    intro Hin; apply Hnot; unfold keys in Hin; apply in_map_iff in Hin.
    destruct Hin as [y [Hy Hin]]; apply filter_In in Hin; destruct Hin as [Hin _].
    rewrite <- Hy; apply in_map; exact Hin.
  Qed.

  Lemma keys_rendered_items : forall F : findings P,
    keys (rendered_items idx F) = keys (filter nonempty_vec (isort (key_leb idx) F)).
  Proof.
    intro F; unfold rendered_items, keys; rewrite map_map; apply map_ext; intros [p v]; reflexivity.
  Qed.

  Lemma rendered_items_nodup : forall F : findings P, NoDup (keys F) -> NoDup (keys (rendered_items idx F)).
  Proof.
    intros F H; rewrite keys_rendered_items; apply filter_keys_nodup.
    unfold keys; eapply Permutation_NoDup; [|exact H].
    apply Permutation_map, Permutation_sym, isort_perm.
  Qed.

  Lemma filter_strongly_sorted : forall (A : Type) (R : A -> A -> Prop) (f : A -> bool) l,
    StronglySorted R l -> StronglySorted R (filter f l).
  Proof.
    intros A R f l; induction l as [|x r IH]; intro H; cbn [filter]; [constructor|].
    apply StronglySorted_inv in H; destruct H as [Hr Hx].
    destruct (f x); [|apply IH; exact Hr].
    constructor; [apply IH; exact Hr|].
    rewrite Forall_forall in *; intros y Hy; apply filter_In in Hy; apply Hx; tauto.
  Qed.

  Lemma map_strongly_sorted : forall (A B : Type) (R : A -> A -> Prop) (S : B -> B -> Prop) (g : A -> B) l,
    (forall a b, R a b -> S (g a) (g b)) -> StronglySorted R l -> StronglySorted S (map g l).
  Proof.
    intros A B R S g l Hg; induction l as [|x r IH]; intro H; cbn [map]; [constructor|].
    apply StronglySorted_inv in H; destruct H as [Hr Hx].
    constructor; [apply IH; exact Hr|].
    rewrite Forall_forall in *; intros y Hy; apply in_map_iff in Hy; destruct Hy as [a [Ha Hin]]; subst y.
    apply Hg, Hx; exact Hin.
  Qed.

  Lemma rendered_items_sorted : forall F : findings P,
    StronglySorted (fun a b => key_leb idx a b = true) (rendered_items idx F).
  Proof.
    intro F; unfold rendered_items.
    apply (map_strongly_sorted _ _ (fun a b => key_leb idx a b = true)).
    - intros a b H; exact H.
    - apply filter_strongly_sorted, isort_sorted; [apply key_leb_total | apply key_leb_trans].
  Qed.

  Lemma rendered_items_incl : forall F F' : findings P,
    NoDup (keys F) -> NoDup (keys F') -> same_finding_set F F' ->
    forall x, In x (rendered_items idx F) -> In x (rendered_items idx F').
  Proof.
    intros F F' Hnd Hnd' Hsame [p w] Hin.
    apply in_rendered_items in Hin; destruct Hin as [v [Hin [Hne Hw]]].
    apply in_rendered_items.
    destruct v as [|e v0]; [contradiction Hne; reflexivity|].
    assert (He : In (p, e) (finding_items F')).
    { apply (Permutation_in _ Hsame); apply in_finding_items; exists (e :: v0); split; [exact Hin | left; reflexivity]. }
    apply in_finding_items in He; destruct He as [v' [Hin' He']].
    exists v'; split; [exact Hin' | split].
    - intro H; subst v'; destruct He'.
    - subst w; apply sort_entries_perm.
      rewrite <- (sel_present p (e :: v0) F Hnd Hin), <- (sel_present p v' F' Hnd' Hin').
      apply sel_perm; exact Hsame.
  Qed.

  (* the rendered sequence is a function of the set of findings *)
  Theorem rendered_items_set_function : forall F F' : findings P,
    NoDup (keys F) -> NoDup (keys F') -> same_finding_set F F' ->
    rendered_items idx F = rendered_items idx F'.
  Proof.
    intros F F' Hnd Hnd' Hsame.
    apply (sorted_keys_unique idx idx_inj).
    - apply rendered_items_sorted.
    - apply rendered_items_sorted.
    - apply rendered_items_nodup; exact Hnd.
    - apply NoDup_Permutation.
      + apply (NoDup_map_inv fst); apply rendered_items_nodup; exact Hnd.
      + apply (NoDup_map_inv fst); apply rendered_items_nodup; exact Hnd'.
      + intro x; split.
        * apply rendered_items_incl; assumption.
        * apply rendered_items_incl; try assumption. apply Permutation_sym; exact Hsame.
  Qed.

  Lemma perm_same_finding_set : forall F F' : findings P, Permutation F F' -> same_finding_set F F'.
  Proof. intros F F' H; unfold same_finding_set, finding_items; apply Permutation_flat_map; exact H. Qed.

  Lemma perm_keys_nodup : forall F F' : findings P, Permutation F F' -> NoDup (keys F) -> NoDup (keys F').
  Proof. intros F F' H; apply Permutation_NoDup; unfold keys; apply Permutation_map; exact H. Qed.

  Theorem rendered_items_order_independent : forall F F' : findings P,
    NoDup (keys F) -> Permutation F F' -> rendered_items idx F = rendered_items idx F'.
  Proof.
    intros F F' Hnd Hp; apply rendered_items_set_function.
    - exact Hnd.
    - eapply perm_keys_nodup; eassumption.
    - apply perm_same_finding_set; exact Hp.
  Qed.

  (* with no empty vectors, the map is empty iff it holds no finding *)
  Lemma same_set_nonempty_map : forall F F' : findings P,
    no_empty_vectors F -> no_empty_vectors F' -> same_finding_set F F' -> nonempty_map F = nonempty_map F'.
  Proof.
    assert (H : forall G : findings P, no_empty_vectors G -> (finding_items G = [] <-> G = [])).
    { intros G Hne; split; [|intro; subst; reflexivity].
      destruct G as [|[p v] G]; [reflexivity|]; intro Hf.
      destruct v as [|e v].
      - exfalso; apply (Hne p []); [left; reflexivity | reflexivity].
      - cbn in Hf; discriminate Hf. }
    intros F F' Hne Hne' Hsame.
    destruct F as [|x F]; destruct F' as [|x' F']; try reflexivity; exfalso.
    - unfold same_finding_set in Hsame; change (finding_items (@nil (P * list (string * list Z)))) with (@nil (P * (string * list Z))) in Hsame.
      apply Permutation_nil in Hsame; apply (H _ Hne') in Hsame; discriminate Hsame.
    - unfold same_finding_set in Hsame; apply Permutation_sym in Hsame; change (finding_items (@nil (P * list (string * list Z)))) with (@nil (P * (string * list Z))) in Hsame.
      apply Permutation_nil in Hsame; apply (H _ Hne) in Hsame; discriminate Hsame.
  Qed.
End SetFunction.

(* ------------------------------------------------------------------ the three generators *)
Theorem opt_set_function : forall F F', NoDup (keys F) -> NoDup (keys F') -> same_finding_set F F' ->
  generate_optimization_report F = generate_optimization_report F'.
Proof.
  intros F F' H1 H2 H3; unfold generate_optimization_report.
  rewrite (rendered_items_set_function Optimization_idx Optimization_idx_inj F F' H1 H2 H3); reflexivity.
Qed.

Theorem vul_set_function : forall F F', NoDup (keys F) -> NoDup (keys F') -> same_finding_set F F' ->
  generate_vulnerability_report F = generate_vulnerability_report F'.
Proof.
  intros F F' H1 H2 H3; unfold generate_vulnerability_report.
  rewrite (rendered_items_set_function Vulnerability_idx Vulnerability_idx_inj F F' H1 H2 H3); reflexivity.
Qed.

Theorem qa_set_function : forall F F', NoDup (keys F) -> NoDup (keys F') -> same_finding_set F F' ->
  generate_qa_report F = generate_qa_report F'.
Proof.
  intros F F' H1 H2 H3; unfold generate_qa_report.
  rewrite (rendered_items_set_function QualityAssurance_idx QualityAssurance_idx_inj F F' H1 H2 H3); reflexivity.
Qed.

Theorem report_set_function : forall V V' O O' Q Q',
  NoDup (keys V) -> NoDup (keys V') -> NoDup (keys O) -> NoDup (keys O') -> NoDup (keys Q) -> NoDup (keys Q') ->
  no_empty_vectors V -> no_empty_vectors V' -> no_empty_vectors O -> no_empty_vectors O' ->
  no_empty_vectors Q -> no_empty_vectors Q' ->
  same_finding_set V V' -> same_finding_set O O' -> same_finding_set Q Q' ->
  generate_report V O Q = generate_report V' O' Q'.
Proof.
  intros V V' O O' Q Q' nV nV' nO nO' nQ nQ' eV eV' eO eO' eQ eQ' sV sO sQ.
  unfold generate_report.
  rewrite (same_set_nonempty_map V V' eV eV' sV), (same_set_nonempty_map O O' eO eO' sO),
          (same_set_nonempty_map Q Q' eQ eQ' sQ).
  rewrite (vul_set_function V V' nV nV' sV), (opt_set_function O O' nO nO' sO), (qa_set_function Q Q' nQ nQ' sQ).
  reflexivity.
Qed.

Lemma perm_nonempty_map : forall (P : Type) (F F' : findings P), Permutation F F' -> nonempty_map F = nonempty_map F'.
Proof.
  intros P F F' H; destruct F; destruct F'; try reflexivity.
  - apply Permutation_nil in H; discriminate H.
  - apply Permutation_sym, Permutation_nil in H; discriminate H.
Qed.

Theorem report_order_independent : forall V V' O O' Q Q',
  NoDup (keys V) -> NoDup (keys O) -> NoDup (keys Q) ->
  Permutation V V' -> Permutation O O' -> Permutation Q Q' ->
  generate_report V O Q = generate_report V' O' Q'.
Proof.
  intros V V' O O' Q Q' nV nO nQ pV pO pQ; unfold generate_report.
  rewrite (perm_nonempty_map _ V V' pV), (perm_nonempty_map _ O O' pO), (perm_nonempty_map _ Q Q' pQ).
  unfold generate_vulnerability_report, generate_optimization_report, generate_qa_report.
  rewrite (rendered_items_order_independent Vulnerability_idx Vulnerability_idx_inj V V' nV pV),
          (rendered_items_order_independent Optimization_idx Optimization_idx_inj O O' nO pO),
          (rendered_items_order_independent QualityAssurance_idx QualityAssurance_idx_inj Q Q' nQ pQ).
  reflexivity.
Qed.
