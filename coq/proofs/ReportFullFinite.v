(* The 30 patterns side by side and the finite side conditions of the whole report file
   (all section texts, overviews and headings together), decided by vm_compute. *)
From Coq Require Import List String Ascii NArith ZArith Bool Lia Permutation.
Import ListNotations.
From Solstat Require Import Bytes Tables Sections Report ReportReader ReportSort ReportSet ReportLines
     ReportReaderProof ReportCategory ReportFinite ReportProof.
Local Open Scope list_scope.
Local Open Scope string_scope.

(* ------------------------------------------------------------------ the 30 patterns *)
Definition any_idx (p : AnyPattern) : N :=
  match p with
  | AnyVul v => 3 * Vulnerability_idx v
  | AnyOpt o => 3 * Optimization_idx o + 1
  | AnyQa q => 3 * QualityAssurance_idx q + 2
  end.

Lemma any_idx_inj : forall a b, any_idx a = any_idx b -> a = b.
Proof.
  intros [a|a|a] [b|b|b] H; cbn [any_idx] in H; try (exfalso; lia); f_equal.
  - apply Vulnerability_idx_inj; lia.
  - apply Optimization_idx_inj; lia.
  - apply QualityAssurance_idx_inj; lia.
Qed.

Definition any_all : list AnyPattern :=
  (map AnyVul Vulnerability_all ++ map AnyOpt Optimization_all ++ map AnyQa QualityAssurance_all)%list.

Lemma any_all_complete : forall p, In p any_all.
Proof.
  intros [v|o|q]; unfold any_all; rewrite !in_app_iff.
  - left; apply in_map, Vulnerability_all_complete.
  - right; left; apply in_map, Optimization_all_complete.
  - right; right; apply in_map, QualityAssurance_all_complete.
Qed.

Definition any_section (p : AnyPattern) : string :=
  match p with
  | AnyVul v => vulnerability_section v
  | AnyOpt o => optimization_section o
  | AnyQa q => qa_section q
  end.

(* ------------------------------------------------------------------ finite side conditions, all texts together *)
Lemma full_cat_ok : cat_okb AnyPattern any_idx any_all all_keys vul_headings any_section = true.
Proof. vm_compute; reflexivity. Qed.

Lemma full_finite :
  prefix_okb AnyPattern any_all all_keys vul_headings any_section opt_overview_prefix = true /\
  prefix_okb AnyPattern any_all all_keys vul_headings any_section vul_overview_prefix = true /\
  plain_lines_okb AnyPattern any_all all_keys vul_headings any_section opt_mid = true /\
  plain_lines_okb AnyPattern any_all all_keys vul_headings any_section vul_mid = true /\
  plain_lines_okb AnyPattern any_all all_keys vul_headings any_section qa_ovw = true /\
  plain_lines_okb AnyPattern any_all all_keys vul_headings any_section [""; ""] = true /\
  forallb (fun s => plain_lines_okb AnyPattern any_all all_keys vul_headings any_section [heading_of s])
          VulnerabilitySeverity_all = true.
Proof. vm_compute; repeat split; reflexivity. Qed.

(* lines that start with an overview prefix *)
Definition no_prefix_line (pre : string) (ls : list string) : bool := forallb (fun l => negb (starts_with pre l)) ls.

Lemma full_prefix_finite :
  prefix_const_okb AnyPattern any_all any_section vul_overview_prefix = true /\
  prefix_const_okb AnyPattern any_all any_section opt_overview_prefix = true /\
  divergeb vul_overview_prefix opt_overview_prefix = true /\
  divergeb opt_overview_prefix vul_overview_prefix = true /\
  no_prefix_line vul_overview_prefix (vul_mid ++ opt_mid ++ qa_ovw ++ [""; ""] ++ vul_headings)%list = true /\
  no_prefix_line opt_overview_prefix (vul_mid ++ opt_mid ++ qa_ovw ++ [""; ""] ++ vul_headings)%list = true.
Proof. vm_compute; repeat split; reflexivity. Qed.

