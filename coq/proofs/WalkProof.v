(* C01: the model of walk_node_for_targets equals `filter (sel T)` of the complete
   type-derived pre-order, for every root and every target set. *)
From Coq Require Import List String NArith Bool.
Import ListNotations.
From Solstat Require Import Lift Pt Walk.

Definition sel (T : Target -> bool) (n : node) : bool := T (kind_of n).

Lemma as_target_kind_of : forall n, as_target n = kind_of n.
Proof.
  destruct n as [s|e|su|p|p]; [destruct s|destruct e|idtac|destruct p|destruct p]; reflexivity.
Qed.

Lemma filter_cons_hit T n l : filter (sel T) (n :: l) = hit T n ++ filter (sel T) l.
Proof.
  unfold hit, sel. rewrite as_target_kind_of. simpl. destruct (T (kind_of n)); reflexivity.
Qed.

Lemma flat_map_filter {A B} (p : B -> bool) (f g : A -> list B) l :
  Forall (fun x => f x = filter p (g x)) l -> flat_map f l = filter p (flat_map g l).
Proof.
  induction 1 as [|x l Hx Hl IH]; simpl; [reflexivity|].
  rewrite filter_app, Hx, IH. reflexivity.
Qed.

Lemma app_eq2 {A} (a a' b b' : list A) : a = a' -> b = b' -> a ++ b = a' ++ b'.
Proof. intros; subst; reflexivity. Qed.

Ltac unf :=
  cbn [walk_Expression walk_Ty walk_Param walk_NamedArgument walk_FunctionAttribute walk_Base
       walk_VariableDeclaration walk_Statement walk_CatchClause
       pre_Expression pre_Ty pre_Param pre_NamedArgument pre_FunctionAttribute pre_Base
       pre_VariableDeclaration pre_Statement pre_CatchClause].

Ltac prep :=
  repeat match goal with
         | H : OptP _ ?o |- _ => destruct o; cbn [OptP] in H
         | H : PairP _ _ ?p |- _ => destruct p; destruct H; cbn [fst snd] in *
         | H : TrueP _ |- _ => clear H
         | H : True |- _ => clear H
         end.

Ltac leaf :=
  lazymatch goal with
  | |- _ ++ _ = _ ++ _ => apply app_eq2; leaf
  | |- [] = filter _ [] => reflexivity
  | |- flat_map _ ?l = filter _ (flat_map _ ?l) =>
      match goal with
      | H : Forall _ l |- _ =>
          apply flat_map_filter; eapply Forall_impl; [| exact H];
          let x := fresh "x" in let Hx := fresh "Hx" in
          intros x Hx; cbv beta in Hx |- *; prep; rewrite ?filter_app; leaf
      end
  | |- _ => match goal with H : ?g |- ?g => exact H | |- ?a = ?a => reflexivity end
  end.

Ltac arm := intros; unf; rewrite ?filter_cons_hit; prep; rewrite ?filter_app; leaf.

Section Exact.
  Variable T : Target -> bool.

  Theorem walk_exact_mut :
    (forall x, walk_Ty T x = filter (sel T) (pre_Ty x)) /\
    (forall x, walk_VariableDeclaration T x = filter (sel T) (pre_VariableDeclaration x)) /\
    (forall x, walk_Base T x = filter (sel T) (pre_Base x)) /\
    (forall x, walk_NamedArgument T x = filter (sel T) (pre_NamedArgument x)) /\
    (forall x, walk_Expression T x = filter (sel T) (pre_Expression x)) /\
    (forall x, walk_Param T x = filter (sel T) (pre_Param x)) /\
    (forall x, walk_FunctionAttribute T x = filter (sel T) (pre_FunctionAttribute x)) /\
    (forall x, walk_Statement T x = filter (sel T) (pre_Statement x)) /\
    (forall x, walk_CatchClause T x = filter (sel T) (pre_CatchClause x)).
  Proof.
    apply Pt_mutind; arm.
  Qed.

  Definition walk_Ty_exact := proj1 walk_exact_mut.
  Definition walk_VariableDeclaration_exact := proj1 (proj2 walk_exact_mut).
  Definition walk_Base_exact := proj1 (proj2 (proj2 walk_exact_mut)).
  Definition walk_NamedArgument_exact := proj1 (proj2 (proj2 (proj2 walk_exact_mut))).
  Definition walk_Expression_exact := proj1 (proj2 (proj2 (proj2 (proj2 walk_exact_mut)))).
  Definition walk_Param_exact := proj1 (proj2 (proj2 (proj2 (proj2 (proj2 walk_exact_mut))))).
  Definition walk_FunctionAttribute_exact := proj1 (proj2 (proj2 (proj2 (proj2 (proj2 (proj2 walk_exact_mut)))))).
  Definition walk_Statement_exact := proj1 (proj2 (proj2 (proj2 (proj2 (proj2 (proj2 (proj2 walk_exact_mut))))))).
  Definition walk_CatchClause_exact := proj2 (proj2 (proj2 (proj2 (proj2 (proj2 (proj2 (proj2 walk_exact_mut))))))).

  Lemma flat_map_filter_all {A} (f g : A -> list node) l :
    (forall x, f x = filter (sel T) (g x)) -> flat_map f l = filter (sel T) (flat_map g l).
  Proof. intros H. apply flat_map_filter. apply Forall_forall. intros x _. apply H. Qed.

  Lemma walk_params_exact ps :
    walk_params T ps =
    filter (sel T) (flat_map (fun p => match p with (_, op) => match op with Some q => pre_Param q | None => [] end end) ps).
  Proof.
    unfold walk_params. apply flat_map_filter_all. intros [l [q|]]; [apply walk_Param_exact | reflexivity].
  Qed.

  Lemma walk_FunctionDefinition_exact f :
    walk_FunctionDefinition T f = filter (sel T) (pre_FunctionDefinition f).
  Proof.
    destruct f as [l ty nm nl params attrs rnr rets body]. unfold walk_FunctionDefinition, pre_FunctionDefinition.
    rewrite !filter_app. repeat apply app_eq2.
    - apply walk_params_exact.
    - apply flat_map_filter_all. apply walk_FunctionAttribute_exact.
    - apply walk_params_exact.
    - destruct body; [apply walk_Statement_exact | reflexivity].
  Qed.

  Lemma walk_VariableDefinition_exact v :
    walk_VariableDefinition T v = filter (sel T) (pre_VariableDefinition v).
  Proof.
    destruct v as [l ty attrs nm oi]. unfold walk_VariableDefinition, pre_VariableDefinition.
    rewrite filter_app. apply app_eq2; [apply walk_Expression_exact|].
    destruct oi; [apply walk_Expression_exact | reflexivity].
  Qed.

  Lemma walk_StructDefinition_exact d :
    walk_StructDefinition T d = filter (sel T) (pre_StructDefinition d).
  Proof.
    destruct d. unfold walk_StructDefinition, pre_StructDefinition.
    apply flat_map_filter_all. apply walk_VariableDeclaration_exact.
  Qed.

  Lemma walk_EventDefinition_exact d :
    walk_EventDefinition T d = filter (sel T) (pre_EventDefinition d).
  Proof.
    destruct d. unfold walk_EventDefinition, pre_EventDefinition.
    apply flat_map_filter_all. intros [ty l i n]. unfold pre_EventParameter. apply walk_Expression_exact.
  Qed.

  Lemma walk_ErrorDefinition_exact d :
    walk_ErrorDefinition T d = filter (sel T) (pre_ErrorDefinition d).
  Proof.
    destruct d. unfold walk_ErrorDefinition, pre_ErrorDefinition.
    apply flat_map_filter_all. intros [ty l n]. unfold pre_ErrorParameter. apply walk_Expression_exact.
  Qed.

  Lemma walk_TypeDefinition_exact d :
    walk_TypeDefinition T d = filter (sel T) (pre_TypeDefinition d).
  Proof. destruct d. apply walk_Expression_exact. Qed.

  Lemma walk_Using_exact d : walk_Using T d = filter (sel T) (pre_Using d).
  Proof.
    destruct d as [l li oty g]. unfold walk_Using, pre_Using.
    destruct oty; [apply walk_Expression_exact | reflexivity].
  Qed.

  Lemma walk_ContractPart_exact p : walk_ContractPart T p = filter (sel T) (pre_ContractPart p).
  Proof.
    unfold walk_ContractPart, pre_ContractPart. rewrite filter_cons_hit.
    apply app_eq2; [reflexivity|].
    destruct p; first
      [ apply walk_StructDefinition_exact | apply walk_EventDefinition_exact
      | apply walk_ErrorDefinition_exact | apply walk_VariableDefinition_exact
      | apply walk_FunctionDefinition_exact | apply walk_TypeDefinition_exact
      | apply walk_Using_exact | reflexivity ].
  Qed.

  Lemma walk_ContractDefinition_exact c :
    walk_ContractDefinition T c = filter (sel T) (pre_ContractDefinition c).
  Proof.
    destruct c as [l ty nm bases parts]. unfold walk_ContractDefinition, pre_ContractDefinition.
    rewrite filter_app. apply app_eq2; apply flat_map_filter_all;
      [apply walk_Base_exact | apply walk_ContractPart_exact].
  Qed.

  Lemma walk_SourceUnitPart_exact p :
    walk_SourceUnitPart T p = filter (sel T) (pre_SourceUnitPart p).
  Proof.
    unfold walk_SourceUnitPart, pre_SourceUnitPart. rewrite filter_cons_hit.
    apply app_eq2; [reflexivity|].
    destruct p; first
      [ apply walk_ContractDefinition_exact
      | apply walk_StructDefinition_exact | apply walk_EventDefinition_exact
      | apply walk_ErrorDefinition_exact | apply walk_VariableDefinition_exact
      | apply walk_FunctionDefinition_exact | apply walk_TypeDefinition_exact
      | apply walk_Using_exact | reflexivity ].
  Qed.

  Lemma walk_SourceUnit_exact su : walk_SourceUnit T su = filter (sel T) (pre_SourceUnit su).
  Proof.
    destruct su as [parts]. unfold walk_SourceUnit, pre_SourceUnit. rewrite filter_cons_hit.
    apply app_eq2; [reflexivity|]. apply flat_map_filter_all. apply walk_SourceUnitPart_exact.
  Qed.

  Theorem walk_exact_lemma : forall n, walk T n = filter (sel T) (pre n).
  Proof.
    destruct n; unfold walk, pre;
      [ apply walk_Statement_exact | apply walk_Expression_exact | apply walk_SourceUnit_exact
      | apply walk_SourceUnitPart_exact | apply walk_ContractPart_exact ].
  Qed.
End Exact.

Lemma walk_only_kinds_lemma T n m : In m (walk T n) -> T (kind_of m) = true.
Proof. rewrite walk_exact_lemma. intros H. apply filter_In in H. exact (proj2 H). Qed.

Lemma walk_all_kinds_lemma T n m : In m (pre n) -> T (kind_of m) = true -> In m (walk T n).
Proof. intros H1 H2. rewrite walk_exact_lemma. apply filter_In. split; assumption. Qed.

Lemma Target_eqb_eq a b : Target_eqb a b = true <-> a = b.
Proof.
  unfold Target_eqb. split; [apply internal_Target_dec_bl | apply internal_Target_dec_lb].
Qed.

Lemma extract_single_lemma t n :
  extract_target_from_node t n = filter (fun m => Target_eqb (kind_of m) t) (pre n).
Proof. unfold extract_target_from_node. apply walk_exact_lemma. Qed.

Lemma extract_multi_lemma ts n :
  extract_targets_from_node ts n = filter (fun m => existsb (Target_eqb (kind_of m)) ts) (pre n).
Proof. unfold extract_targets_from_node. apply walk_exact_lemma. Qed.
