(* analyze_for_*: the BTreeSet of get_line_number(loc.start(), file_contents) over the
   locations a detector returns (model: DetCases.analyze_lines). *)
From Coq Require Import List String Ascii NArith ZArith Bool Lia Sorted.
Import ListNotations.
From Solstat Require Import Lift Pt Walk Res Nodes Utils Detectors Cases DetCases LineSpec LineProof DetBase.
Local Open Scope list_scope.

Lemma insert_sorted_in z l x : In x (insert_sorted z l) <-> x = z \/ In x l.
Proof.
  induction l as [|y l IH]; cbn [insert_sorted In]; [split; [intros [H|[]]; left; symmetry; exact H|intros [H|[]]; left; symmetry; exact H]|].
  destruct (z <? y)%Z; [cbn [In]; split; [intros [H|H]; [left; symmetry; exact H|right; exact H]|intros [H|H]; [left; symmetry; exact H|right; exact H]]|].
  destruct (z =? y)%Z eqn:E.
  - apply Z.eqb_eq in E. subst y. cbn [In]. split; [intros H; right; exact H|intros [H|H]; [left; symmetry; exact H|exact H]].
  - cbn [In]. rewrite IH. tauto.
Qed.

Lemma btree_of_in l x : In x (btree_of l) <-> In x l.
Proof.
  unfold btree_of. induction l as [|y l IH]; cbn [fold_right In]; [tauto|].
  rewrite insert_sorted_in, IH. split; intros [H|H]; auto.
Qed.

Lemma insert_sorted_sorted z l : StronglySorted Z.lt l -> StronglySorted Z.lt (insert_sorted z l).
Proof.
  induction l as [|y l IH]; intros H; cbn [insert_sorted]; [repeat constructor|].
  inversion H as [|? ? Hs Hf]; subst.
  destruct (z <? y)%Z eqn:E1.
  - apply Z.ltb_lt in E1. constructor; [exact H|]. constructor; [exact E1|].
    eapply Forall_impl; [|exact Hf]. intros a Ha. cbv beta in *. lia.
  - destruct (z =? y)%Z eqn:E2; [exact H|]. apply Z.ltb_ge in E1. apply Z.eqb_neq in E2.
    constructor; [apply IH; exact Hs|]. apply Forall_forall. intros a Ha. apply insert_sorted_in in Ha.
    destruct Ha as [->|Ha]; [lia|]. rewrite Forall_forall in Hf. apply Hf. exact Ha.
Qed.

Lemma btree_of_sorted l : StronglySorted Z.lt (btree_of l).
Proof. unfold btree_of. induction l as [|y l IH]; cbn [fold_right]; [constructor|]. apply insert_sorted_sorted. exact IH. Qed.

(* get_line_number is total on texts with fewer than 2^31 line feeds *)
Lemma get_line_number_total src off : lines_lt_i32 src -> exists z, get_line_number off src = Ok z.
Proof.
  intros H. destruct (N.ltb off (blen src)) eqn:E.
  - apply N.ltb_lt in E. destruct (byte_at off src) as [b|] eqn:Eb.
    + destruct (Ascii.ascii_dec b LF) as [->|Hn].
      * eexists. apply line_at_lf_lemma; assumption.
      * eexists. apply line_of_spec_lemma; try assumption. rewrite Eb. intros Hx. inversion Hx. contradiction.
    + eexists. apply line_of_spec_lemma; try assumption. rewrite Eb. discriminate.
  - apply N.ltb_ge in E. eexists. apply line_past_end_lemma; assumption.
Qed.

Lemma mapM_total {A B} (f : A -> res B) l :
  (forall x, exists y, f x = Ok y) -> exists ys, mapM f l = Ok ys /\ Forall2 (fun x y => f x = Ok y) l ys.
Proof.
  intros H. induction l as [|x l IH]; [exists []; split; [reflexivity|constructor]|].
  destruct (H x) as [y Hy]. destruct IH as [ys [Hys HF]]. exists (y :: ys). cbn. rewrite Hy, Hys. split; [reflexivity|].
  constructor; assumption.
Qed.

Theorem analyze_lines_spec (d : SourceUnit -> res (list Loc)) src su locs :
  d su = Ok locs -> lines_lt_i32 src ->
  exists ls, analyze_lines d src su = Ok ls /\ StronglySorted Z.lt ls /\
             forall z, In z ls <-> exists l, In l locs /\ get_line_number (loc_start l) src = Ok z.
Proof.
  intros Hd Hlt. unfold analyze_lines. rewrite Hd. cbn [bind].
  destruct (mapM_total (fun l => get_line_number (loc_start l) src) locs) as [zs [Hzs HF]].
  { intros l. apply get_line_number_total. exact Hlt. }
  rewrite Hzs. cbn [bind]. eexists. split; [reflexivity|]. split; [apply btree_of_sorted|].
  intros z. rewrite btree_of_in. clear Hzs Hd. induction HF as [|l z' locs zs Hlz HF IH]; [split; [intros []|intros [l [[] _]]]|].
  cbn [In]. rewrite IH. split.
  - intros [<-|[l0 [Hl0 Hz]]]; [exists l; split; [left; reflexivity|exact Hlz]|exists l0; split; [right; exact Hl0|exact Hz]].
  - intros [l0 [[->|Hl0] Hz]]; [left; rewrite Hlz in Hz; inversion Hz; reflexivity|right; exists l0; split; assumption].
Qed.

(* every reported line is the line on which a reported construct begins *)
Theorem reported_line_is_anchor_line (d : SourceUnit -> res (list Loc)) src su locs ls :
  d su = Ok locs -> analyze_lines d src su = Ok ls ->
  (forall l, In l locs -> (loc_start l < blen src)%N /\ byte_at (loc_start l) src <> Some LF) ->
  forall z, In z ls -> exists l, In l locs /\ z = line_spec src (loc_start l).
Proof.
  intros Hd Ha Hwf z Hz. unfold analyze_lines in Ha. rewrite Hd in Ha. cbn [bind] in Ha.
  destruct (mapM (fun l => get_line_number (loc_start l) src) locs) as [zs|s] eqn:E; [|discriminate Ha].
  cbn [bind] in Ha. inversion Ha; subst ls. apply (proj1 (btree_of_in _ _)) in Hz.
  clear Ha Hd. revert zs E Hz. induction locs as [|l locs IH]; intros zs E Hz.
  - cbn in E. inversion E; subst. destruct Hz.
  - cbn [mapM] in E. destruct (get_line_number (loc_start l) src) as [z0|s] eqn:El; [|discriminate E].
    cbn [bind] in E. destruct (mapM (fun l => get_line_number (loc_start l) src) locs) as [zs'|s] eqn:E'; [|discriminate E].
    cbn [bind] in E. inversion E; subst zs. destruct Hz as [<-|Hz].
    + exists l. split; [left; reflexivity|]. apply (line_never_wrong_lemma src (loc_start l)); [|exact El].
      exact (proj2 (Hwf l (or_introl eq_refl))).
    + destruct (IH (fun l0 H0 => Hwf l0 (or_intror H0)) zs' eq_refl Hz) as [l0 [Hl0 Hz0]].
      exists l0. split; [right; exact Hl0|exact Hz0].
Qed.
