(* Proofs about the directory walker model (model/Dir.v) against spec/DirSpec.v:
   C16 (name filter, inert files), C03 (exact union), C15 (independence of verdicts). *)
From Coq Require Import List String Ascii NArith ZArith Bool Permutation Lia.
Import ListNotations.
From Solstat Require Import Res Dir DirSpec.
Local Open Scope list_scope.

(* ====================================================================== strings *)
Section Strings.
  Local Open Scope string_scope.

  Lemma append_nil_r : forall s : string, s ++ "" = s.
  Proof. induction s as [|c s IH]; cbn; [reflexivity | now rewrite IH]. Qed.

  Lemma append_assoc : forall a b c : string, (a ++ b) ++ c = a ++ (b ++ c).
  Proof. induction a as [|x a IH]; intros b c; cbn; [reflexivity | now rewrite IH]. Qed.

  Lemma starts_with_iff : forall p s, starts_with p s = true <-> exists r, s = p ++ r.
  Proof.
    induction p as [|a p IH]; intros s; cbn.
    - split; [intros _; now exists s | reflexivity].
    - destruct s as [|b s].
      + split; [discriminate | intros [r Hr]; discriminate].
      + rewrite andb_true_iff, Ascii.eqb_eq, IH. split.
        * intros [-> [r ->]]. now exists r.
        * intros [r Hr]. injection Hr as -> ->. split; [reflexivity | now exists r].
  Qed.

  Lemma contains_iff : forall x s, contains x s = true <-> exists a b, s = a ++ x ++ b.
  Proof.
    intros x. induction s as [|c s IH].
    - cbn [contains]. rewrite orb_false_r, starts_with_iff. split.
      + intros [r Hr]. now exists "", r.
      + intros [a [b H]]. destruct a as [|a0 a]; [now exists b | discriminate].
    - cbn [contains]. rewrite orb_true_iff, starts_with_iff, IH. split.
      + intros [[r Hr] | [a [b H]]].
        * now exists "", r.
        * exists (String c a), b. cbn. now rewrite H.
      + intros [a [b H]]. destruct a as [|a0 a].
        * left. now exists b.
        * right. cbn in H. injection H as _ H. now exists a, b.
  Qed.

  Lemma ends_with_iff : forall suf s, ends_with suf s = true <-> exists pre, s = pre ++ suf.
  Proof.
    intros suf. induction s as [|c s IH].
    - cbn [ends_with]. rewrite orb_false_r, String.eqb_eq. split.
      + intros ->. now exists "".
      + intros [pre H]. destruct pre; [now cbn in H | discriminate].
    - cbn [ends_with]. rewrite orb_true_iff, String.eqb_eq, IH. split.
      + intros [-> | [pre ->]]; [now exists "" | now exists (String c pre)].
      + intros [pre H]. destruct pre as [|p0 pre].
        * left. now cbn in H.
        * right. cbn in H. injection H as _ H. now exists pre.
  Qed.

  Lemma lower_app : forall a b, lower (a ++ b) = lower a ++ lower b.
  Proof. induction a as [|c a IH]; intros b; cbn; [reflexivity | now rewrite IH]. Qed.

  (* a split of the lowered string comes from a split of the string *)
  Lemma lower_split : forall s a b, lower s = a ++ b ->
    exists a' b', s = a' ++ b' /\ lower a' = a /\ lower b' = b.
  Proof.
    induction s as [|c s IH]; intros a b H.
    - cbn in H. destruct a; [|discriminate]. cbn in H. subst b. now exists "", "".
    - destruct a as [|a0 a].
      + cbn in H. subst b. exists "", (String c s). auto.
      + cbn in H. injection H as H0 H. destruct (IH _ _ H) as [a' [b' [-> [Ha Hb]]]].
        exists (String c a'), b'. cbn. now rewrite Ha, H0.
  Qed.

  (* ---- one character *)
  Lemma ascii_lower_cases : forall c,
    let n := N_of_ascii c in
    ((65 <= n <= 90)%N /\ ascii_lower c = ascii_of_N (n + 32)) \/
    (~ (65 <= n <= 90)%N /\ ascii_lower c = c).
  Proof.
    intros c n. unfold ascii_lower. fold n.
    destruct (N.leb_spec 65 n) as [H1|H1]; destruct (N.leb_spec n 90) as [H2|H2]; cbn [andb];
      [left | right | right | right]; (split; [lia | reflexivity]).
  Qed.

  Lemma ci_char_lower : forall c d, ci_char c d <-> ascii_lower c = ascii_lower d.
  Proof.
    intros c d. split.
    - intros [-> | [k [Hk H]]]; [reflexivity|].
      assert (E1 : N_of_ascii (ascii_of_N (65 + k)) = (65 + k)%N) by (apply N_ascii_embedding; lia).
      assert (E2 : N_of_ascii (ascii_of_N (97 + k)) = (97 + k)%N) by (apply N_ascii_embedding; lia).
      assert (L1 : ascii_lower (ascii_of_N (65 + k)) = ascii_of_N (97 + k)).
      { destruct (ascii_lower_cases (ascii_of_N (65 + k))) as [[_ E] | [Hn _]].
        - rewrite E, E1. f_equal. lia.
        - rewrite E1 in Hn. lia. }
      assert (L2 : ascii_lower (ascii_of_N (97 + k)) = ascii_of_N (97 + k)).
      { destruct (ascii_lower_cases (ascii_of_N (97 + k))) as [[Hr _] | [_ E]].
        - rewrite E2 in Hr. lia.
        - exact E. }
      destruct H as [[-> ->] | [-> ->]]; now rewrite L1, L2.
    - intros H.
      pose proof (N_ascii_bounded c) as Bc. pose proof (N_ascii_bounded d) as Bd.
      destruct (ascii_lower_cases c) as [[Rc Ec] | [Rc Ec]];
        destruct (ascii_lower_cases d) as [[Rd Ed] | [Rd Ed]]; rewrite Ec, Ed in H.
      + left. apply (f_equal N_of_ascii) in H. rewrite !N_ascii_embedding in H by lia.
        assert (E : N_of_ascii c = N_of_ascii d) by lia.
        apply (f_equal ascii_of_N) in E. now rewrite !ascii_N_embedding in E.
      + right. exists (N_of_ascii c - 65)%N. split; [lia|]. left. split.
        * rewrite <- (ascii_N_embedding c) at 1. f_equal. lia.
        * rewrite <- H. f_equal. lia.
      + right. exists (N_of_ascii d - 65)%N. split; [lia|]. right. split.
        * rewrite H. f_equal. lia.
        * rewrite <- (ascii_N_embedding d) at 1. f_equal. lia.
      + now left.
  Qed.

  Lemma same_ci_lower : forall y x, same_ci y x <-> lower y = lower x.
  Proof.
    intros y x. split.
    - intros H. induction H as [|c d s t Hc _ IH]; [reflexivity|].
      cbn. apply ci_char_lower in Hc. now rewrite Hc, IH.
    - revert x. induction y as [|c y IH]; intros x H; destruct x as [|d x]; try discriminate.
      + constructor.
      + cbn in H. injection H as Hc H. constructor; [now apply ci_char_lower | now apply IH].
  Qed.

  (* for a needle that is already lower-case *)
  Lemma contains_lower_iff : forall x s, lower x = x ->
    (contains x (lower s) = true <-> contains_ci x s).
  Proof.
    intros x s Hx. rewrite contains_iff. unfold contains_ci. split.
    - intros [a [b H]].
      destruct (lower_split _ _ _ H) as [a' [r [-> [Ha Hr]]]].
      destruct (lower_split _ _ _ Hr) as [y [b' [-> [Hy Hb]]]].
      exists a', y, b'. split; [reflexivity|]. apply same_ci_lower. now rewrite Hx.
    - intros [a [y [b [-> Hy]]]]. apply same_ci_lower in Hy. rewrite Hx in Hy.
      exists (lower a), (lower b). now rewrite !lower_app, Hy.
  Qed.

  Lemma ends_ci_contains_ci : forall x s, ends_with_ci x s -> contains_ci x s.
  Proof.
    intros x s [pre [y [-> Hy]]]. exists pre, y, "". now rewrite append_nil_r.
  Qed.

  (* ---- C16: the filter *)
  Lemma eligible_iff_sol_source_lemma : forall n, eligible n = true <-> sol_source n.
  Proof.
    intros n. unfold eligible, sol_source, is_suffix.
    rewrite andb_true_iff, negb_true_iff, ends_with_iff.
    assert (L : lower ".t.sol" = ".t.sol") by reflexivity.
    pose proof (contains_lower_iff ".t.sol" n L) as C.
    split; intros [H1 H2]; (split; [exact H1|]).
    - intros Hc. apply C in Hc. congruence.
    - destruct (contains ".t.sol" (lower n)); [|reflexivity]. exfalso. apply H2, C. reflexivity.
  Qed.

  Lemma eligible_sound_lemma : forall n, eligible n = true ->
    is_suffix ".sol" n /\ ~ ends_with_ci ".t.sol" n.
  Proof.
    intros n H. apply eligible_iff_sol_source_lemma in H. destruct H as [H1 H2].
    split; [exact H1|]. intros He. apply H2. now apply ends_ci_contains_ci.
  Qed.

  Lemma eligible_complete_lemma : forall n,
    is_suffix ".sol" n -> ~ contains_ci ".t.sol" n -> eligible n = true.
  Proof. intros n H1 H2. apply eligible_iff_sol_source_lemma. now split. Qed.

  (* every spelling of ".t.sol" at the end of a name makes it non-eligible, whatever precedes *)
  Lemma test_files_not_eligible_lemma : forall n, ends_with_ci ".t.sol" n -> eligible n = false.
  Proof.
    intros n H. destruct (eligible n) eqn:E; [|reflexivity].
    apply eligible_sound_lemma in E. now destruct E.
  Qed.

  Lemma not_sol_not_eligible_lemma : forall n, ~ is_suffix ".sol" n -> eligible n = false.
  Proof.
    intros n H. destruct (eligible n) eqn:E; [|reflexivity].
    apply eligible_sound_lemma in E. now destruct E.
  Qed.
End Strings.

(* ====================================================================== generic list facts *)
Lemma flat_map_app' : forall {A B} (f : A -> list B) l1 l2,
  flat_map f (l1 ++ l2) = flat_map f l1 ++ flat_map f l2.
Proof. intros A B f l1 l2. induction l1 as [|x l1 IH]; cbn; [reflexivity | now rewrite IH, app_assoc]. Qed.

Lemma fold_res_app : forall {A S} (f : S -> A -> res S) l1 l2 s,
  fold_res f (l1 ++ l2) s = match fold_res f l1 s with Ok s' => fold_res f l2 s' | Panic e => Panic e end.
Proof.
  intros A S f l1. induction l1 as [|x l1 IH]; intros l2 s; cbn; [reflexivity|].
  destruct (f s x) as [s'|e]; [apply IH | reflexivity].
Qed.

(* ====================================================================== the walker *)
Section DirProofs.
  Variable pattern : Type.
  Variable eq_dec : forall a b : pattern, {a = b} + {a <> b}.
  Variable analyze : pattern -> string -> res (list Z).

  Notation fmap := (list (pattern * list (string * list Z))).
  Notation findings := (list (string * list Z)).
  Notation triple := (pattern * string * list Z)%type.
  Notation map_append := (map_append eq_dec).
  Notation map_merge := (map_merge eq_dec).
  Notation lookup := (lookup eq_dec).
  Notation analyze_file := (analyze_file eq_dec analyze).
  Notation analyze_entry := (analyze_entry eq_dec analyze).
  Notation analyze_entries := (analyze_entries eq_dec analyze).
  Notation analyze_dir := (analyze_dir eq_dec analyze).
  Notation finding_of := (finding_of analyze).

  (* all vectors of v are acceptable values: non-empty line sets *)
  Definition lines_nonempty (v : findings) : Prop := forall n ls, In (n, ls) v -> ls <> [].

  (* ------------------------------------------------------------ map_append *)
  Lemma lookup_map_append : forall m p v q,
    lookup (map_append m p v) q = if eq_dec p q then lookup m q ++ v else lookup m q.
  Proof.
    induction m as [|[k w] m IH]; intros p v q; cbn.
    - destruct (eq_dec p q); reflexivity.
    - destruct (eq_dec k p) as [->|Hkp]; cbn.
      + destruct (eq_dec p q); reflexivity.
      + rewrite IH. destruct (eq_dec k q) as [->|Hkq]; [|reflexivity].
        destruct (eq_dec p q) as [->|]; [contradiction | reflexivity].
  Qed.

  Lemma keys_map_append : forall m p v k,
    In k (keys (map_append m p v)) <-> In k (keys m) \/ k = p.
  Proof.
    unfold keys. induction m as [|[k0 w] m IH]; intros p v k; cbn.
    - intuition.
    - destruct (eq_dec k0 p) as [->|Hne]; cbn.
      + intuition.
      + rewrite IH. intuition.
  Qed.

  Lemma nodup_map_append : forall m p v, NoDup (keys m) -> NoDup (keys (map_append m p v)).
  Proof.
    induction m as [|[k0 w] m IH]; intros p v H; cbn.
    - constructor; [intros [] | constructor].
    - cbn in H. inversion H as [|? ? Hnin Hnd]; subst.
      destruct (eq_dec k0 p) as [->|Hne]; cbn.
      + now constructor.
      + constructor; [|now apply IH].
        intros Hin. apply keys_map_append in Hin. destruct Hin as [Hin | ->]; [now apply Hnin | now apply Hne].
  Qed.

  Lemma triples_of_app : forall (p : pattern) (a b : findings), triples_of p (a ++ b) = triples_of p a ++ triples_of p b.
  Proof. intros. unfold triples_of. apply map_app. Qed.

  Lemma flatten_map_append : forall m p v,
    Permutation (flatten (map_append m p v)) (flatten m ++ triples_of p v).
  Proof.
    induction m as [|[k w] m IH]; intros p v; cbn [Dir.map_append].
    - unfold flatten. cbn [flat_map fst snd]. rewrite app_nil_r. apply Permutation_refl.
    - destruct (eq_dec k p) as [->|Hne]; unfold flatten in *; cbn [flat_map fst snd].
      + rewrite triples_of_app, <- !app_assoc. apply Permutation_app_head, Permutation_app_comm.
      + rewrite <- app_assoc. apply Permutation_app_head, IH.
  Qed.

  Lemma in_map_append : forall m p v k x, In (k, x) (map_append m p v) ->
    In (k, x) m \/ (k = p /\ exists w, x = w ++ v /\ (w = [] \/ In (p, w) m)).
  Proof.
    induction m as [|[k0 w0] m IH]; intros p v k x H; cbn in H.
    - destruct H as [H|[]]. injection H as <- <-. right. split; [reflexivity|]. exists []. auto.
    - destruct (eq_dec k0 p) as [->|Hne]; cbn in H.
      + destruct H as [H|H].
        * injection H as <- <-. right. split; [reflexivity|]. exists w0. split; [reflexivity|]. right. now left.
        * left. now right.
      + destruct H as [H|H].
        * left. now left.
        * apply IH in H. destruct H as [H | [-> [w [-> Hw]]]].
          -- left. now right.
          -- right. split; [reflexivity|]. exists w. split; [reflexivity|].
             destruct Hw as [->|Hw]; [now left | right; now right].
  Qed.

  Lemma nonempty_map_append : forall m p v,
    nonempty_entries m -> v <> [] -> lines_nonempty v -> nonempty_entries (map_append m p v).
  Proof.
    intros m p v Hm Hv Hl k x Hin. apply in_map_append in Hin.
    destruct Hin as [Hin | [-> [w [-> Hw]]]]; [exact (Hm _ _ Hin)|].
    split.
    - destruct w; [exact Hv | discriminate].
    - intros n ls Hi. apply in_app_or in Hi. destruct Hi as [Hi|Hi]; [|now apply (Hl n)].
      destruct Hw as [->|Hw]; [destruct Hi|]. now apply (proj2 (Hm _ _ Hw) n).
  Qed.

  (* ------------------------------------------------------------ "m' extends m by ..." *)
  (* tr: the triples added (as a multiset); vec q: what is appended to the vector of q;
     ks: where new keys come from *)
  Definition ext (m m' : fmap) (tr : list triple) (vec : pattern -> findings) (ks : list pattern) : Prop :=
    Permutation (flatten m') (flatten m ++ tr) /\
    (forall q, lookup m' q = lookup m q ++ vec q) /\
    (NoDup (keys m) -> NoDup (keys m')) /\
    (forall k, In k (keys m') -> In k (keys m) \/ In k ks) /\
    (nonempty_entries m -> nonempty_entries m').

  Lemma ext_refl : forall m ks, ext m m [] (fun _ => []) ks.
  Proof.
    intros m ks. repeat apply conj; auto.
    - rewrite app_nil_r. apply Permutation_refl.
    - intros q. now rewrite app_nil_r.
  Qed.

  Lemma ext_trans : forall m m' m'' tr tr' vec vec' ks,
    ext m m' tr vec ks -> ext m' m'' tr' vec' ks ->
    ext m m'' (tr ++ tr') (fun q => vec q ++ vec' q) ks.
  Proof.
    intros m m' m'' tr tr' vec vec' ks (P1 & L1 & N1 & K1 & E1) (P2 & L2 & N2 & K2 & E2).
    repeat apply conj.
    - eapply Permutation_trans; [exact P2|]. rewrite app_assoc. apply Permutation_app_tail, P1.
    - intros q. now rewrite L2, L1, app_assoc.
    - auto.
    - intros k Hk. apply K2 in Hk. destruct Hk as [Hk|Hk]; [now apply K1 | now right].
    - auto.
  Qed.

  Lemma ext_weaken : forall m m' tr tr' vec vec' ks,
    ext m m' tr vec ks -> Permutation tr tr' -> (forall q, vec q = vec' q) -> ext m m' tr' vec' ks.
  Proof.
    intros m m' tr tr' vec vec' ks (P1 & L1 & N1 & K1 & E1) Hp Hv. repeat apply conj; auto.
    - eapply Permutation_trans; [exact P1|]. now apply Permutation_app_head.
    - intros q. now rewrite L1, Hv.
  Qed.

  Lemma ext_append : forall m p v ks, In p ks -> v <> [] -> lines_nonempty v ->
    ext m (map_append m p v) (triples_of p v) (fun q => if eq_dec p q then v else []) ks.
  Proof.
    intros m p v ks Hp Hv Hl. repeat apply conj.
    - apply flatten_map_append.
    - intros q. rewrite lookup_map_append. destruct (eq_dec p q); [reflexivity | now rewrite app_nil_r].
    - apply nodup_map_append.
    - intros k Hk. apply keys_map_append in Hk. destruct Hk as [Hk | ->]; auto.
    - intros Hm. now apply nonempty_map_append.
  Qed.

  (* ------------------------------------------------------------ map_merge *)
  Definition gather (sub : fmap) (q : pattern) : findings :=
    flat_map (fun kv => if eq_dec (fst kv) q then snd kv else []) sub.

  Lemma gather_cons : forall k v sub q,
    gather ((k, v) :: sub) q = (if eq_dec k q then v else []) ++ gather sub q.
  Proof. reflexivity. Qed.

  Lemma gather_notin : forall sub q, ~ In q (keys sub) -> gather sub q = [].
  Proof.
    induction sub as [|[k v] sub IH]; intros q H; [reflexivity|].
    rewrite gather_cons. unfold keys in *. cbn [map fst] in H.
    destruct (eq_dec k q) as [->|Hne]; [exfalso; apply H; now left|].
    cbn [app]. apply IH. intros Hin. apply H. now right.
  Qed.

  Lemma gather_lookup : forall sub q, NoDup (keys sub) -> gather sub q = lookup sub q.
  Proof.
    induction sub as [|[k v] sub IH]; intros q H; [reflexivity|].
    rewrite gather_cons. cbn [Dir.lookup]. unfold keys in H. cbn [map fst] in H.
    inversion H as [|? ? Hnin Hnd]; subst.
    destruct (eq_dec k q) as [->|Hne].
    - rewrite gather_notin by exact Hnin. apply app_nil_r.
    - cbn [app]. now apply IH.
  Qed.

  Lemma ext_merge : forall sub m ks,
    NoDup (keys sub) -> nonempty_entries sub -> (forall k, In k (keys sub) -> In k ks) ->
    ext m (map_merge m sub) (flatten sub) (lookup sub) ks.
  Proof.
    intros sub m ks Hnd Hne Hks.
    apply ext_weaken with (tr := flatten sub) (vec := gather sub);
      [| apply Permutation_refl | intros q; now apply gather_lookup].
    clear Hnd. revert m. unfold Dir.map_merge.
    induction sub as [|[k v] sub IH]; intros m; cbn [fold_left fst snd].
    - apply ext_refl.
    - assert (Hv : v <> [] /\ lines_nonempty v).
      { destruct (Hne k v (or_introl eq_refl)) as [A B]. split; [exact A | exact B]. }
      destruct Hv as [Hv Hl].
      eapply ext_weaken.
      + eapply ext_trans.
        * apply (ext_append m k v ks); [apply Hks; unfold keys; cbn [map fst]; now left | exact Hv | exact Hl].
        * apply IH.
          -- intros k' v' Hin. apply (Hne k' v'). now right.
          -- intros k' Hin. apply Hks. unfold keys in *. cbn [map]. now right.
      + cbn. apply Permutation_refl.
      + intros q. reflexivity.
  Qed.

  (* ------------------------------------------------------------ one file *)
  Definition file_tr (ps : list pattern) (f : file) : list triple :=
    flat_map (fun p => triples_of p (finding_of p f)) ps.
  Definition file_vec (ps : list pattern) (f : file) (q : pattern) : findings :=
    flat_map (fun p => if eq_dec p q then finding_of p f else []) ps.

  Lemma analyze_file_ext : forall name c ps0 ps m,
    (forall p, In p ps -> In p ps0) ->
    (forall p, In p ps -> exists ls, analyze p c = Ok ls) ->
    exists m', analyze_file name c ps m = Ok m' /\
               ext m m' (file_tr ps (name, Some c)) (file_vec ps (name, Some c)) ps0.
  Proof.
    intros name c ps0. unfold Dir.analyze_file.
    induction ps as [|p ps IH]; intros m Hsub Hok; cbn [foldM].
    - exists m. split; [reflexivity | apply ext_refl].
    - destruct (Hok p (or_introl eq_refl)) as [ls Hls]. rewrite Hls. cbn [bind].
      destruct (IH (match ls with [] => m | _ :: _ => map_append m p [(name, ls)] end)) as [m' [Hm' He]].
      { intros q Hq. apply Hsub. now right. }
      { intros q Hq. apply Hok. now right. }
      exists m'. split; [exact Hm'|].
      eapply ext_weaken.
      + eapply ext_trans; [|exact He].
        instantiate (1 := fun q => if eq_dec p q then finding_of p (name, Some c) else []).
        instantiate (1 := triples_of p (finding_of p (name, Some c))).
        unfold DirSpec.finding_of. cbn [fst snd]. rewrite Hls. destruct ls as [|l ls].
        * eapply ext_weaken; [apply ext_refl | apply Permutation_refl |].
          intros q. now destruct (eq_dec p q).
        * apply ext_append; [apply Hsub; now left | discriminate |].
          intros n x [H|[]]. injection H as _ <-. discriminate.
      + apply Permutation_refl.
      + intros q. reflexivity.
  Qed.

  Lemma analyze_file_ok_inv : forall name c ps m m',
    analyze_file name c ps m = Ok m' -> forall p, In p ps -> exists ls, analyze p c = Ok ls.
  Proof.
    intros name c. unfold Dir.analyze_file. induction ps as [|p ps IH]; intros m m' H q Hq; [destruct Hq|].
    cbn [foldM] in H. destruct (analyze p c) as [ls|s] eqn:E; cbn [bind] in H; [|discriminate].
    destruct Hq as [<-|Hq]; [now exists ls|]. eapply IH; eassumption.
  Qed.

  (* ------------------------------------------------------------ induction over trees *)
  Section EntryInd.
    Variable P : entry -> Prop.
    Variable Q : list entry -> Prop.
    Hypothesis HF : forall n c, P (EFile n c).
    Hypothesis HD : forall n ch, Q ch -> P (EDir n ch).
    Hypothesis HN : Q [].
    Hypothesis HC : forall e l, P e -> Q l -> Q (e :: l).
    Fixpoint entry_ind2 (e : entry) : P e :=
      match e with
      | EFile n c => HF n c
      | EDir n ch => HD n ch ((fix go (l : list entry) : Q l :=
                                 match l with [] => HN | x :: r => HC x r (entry_ind2 x) (go r) end) ch)
      end.
    Fixpoint entries_ind2 (l : list entry) : Q l :=
      match l with [] => HN | x :: r => HC x r (entry_ind2 x) (entries_ind2 r) end.
  End EntryInd.

  Variable ps : list pattern.

  Definition elig_files (e : entry) : list file := filter (fun f => eligible (fst f)) (files_of e).

  Lemma eligible_files_cons : forall e l, eligible_files_rec (e :: l) = elig_files e ++ eligible_files_rec l.
  Proof. intros. unfold eligible_files_rec, all_files_rec, elig_files. cbn. apply filter_app. Qed.

  Lemma elig_files_dir : forall n ch, elig_files (EDir n ch) = eligible_files_rec ch.
  Proof. reflexivity. Qed.

  Lemma analyze_entry_dir : forall n ch m,
    analyze_entry ps (EDir n ch) m =
    match analyze_entries ps ch [] with Ok sub => Ok (map_merge m sub) | Panic s => Panic s end.
  Proof. reflexivity. Qed.

  Lemma analyze_entries_cons : forall e l m,
    analyze_entries ps (e :: l) m =
    match analyze_entry ps e m with Ok m' => analyze_entries ps l m' | Panic s => Panic s end.
  Proof. reflexivity. Qed.

  Definition tr_of (fs : list file) : list triple := flat_map (file_tr ps) fs.
  Definition vec_of (fs : list file) (q : pattern) : findings := flat_map (fun f => file_vec ps f q) fs.

  Definition walk_P (e : entry) : Prop :=
    forall m, Forall (file_ok analyze ps) (elig_files e) ->
      exists m', analyze_entry ps e m = Ok m' /\ ext m m' (tr_of (elig_files e)) (vec_of (elig_files e)) ps.
  Definition walk_Q (l : list entry) : Prop :=
    forall m, Forall (file_ok analyze ps) (eligible_files_rec l) ->
      exists m', analyze_entries ps l m = Ok m' /\
                 ext m m' (tr_of (eligible_files_rec l)) (vec_of (eligible_files_rec l)) ps.

  Lemma walk_file : forall n c, walk_P (EFile n c).
  Proof.
    intros n c m Hok. unfold elig_files in *. cbn [files_of filter fst] in *. cbn [Dir.analyze_entry].
    destruct (eligible n) eqn:En.
    - inversion Hok as [|? ? [c' [Hc Hp]] _]; subst. cbn [snd] in Hc. subst c.
      destruct (analyze_file_ext n c' ps ps m (fun p H => H) Hp) as [m' [Hm' He]].
      exists m'. split; [exact Hm'|].
      eapply ext_weaken; [exact He | |].
      + unfold tr_of. cbn. now rewrite app_nil_r.
      + intros q. unfold vec_of. cbn. now rewrite app_nil_r.
    - exists m. split; [reflexivity | apply ext_refl].
  Qed.

  Lemma walk_dir : forall n ch, walk_Q ch -> walk_P (EDir n ch).
  Proof.
    intros n ch IH m Hok. rewrite elig_files_dir in *. rewrite analyze_entry_dir.
    destruct (IH [] Hok) as [sub [Hsub (P1 & L1 & N1 & K1 & E1)]]. rewrite Hsub.
    exists (map_merge m sub). split; [reflexivity|].
    assert (Hnd : NoDup (keys sub)) by (apply N1; constructor).
    assert (Hne : nonempty_entries sub) by (apply E1; intros k v []).
    assert (Hks : forall k, In k (keys sub) -> In k ps).
    { intros k Hk. destruct (K1 k Hk) as [[]|Hk']. exact Hk'. }
    eapply ext_weaken; [apply (ext_merge sub m ps Hnd Hne Hks) | exact P1 |].
    intros q. apply L1.
  Qed.

  Lemma walk_nil : walk_Q [].
  Proof. intros m _. exists m. split; [reflexivity | apply ext_refl]. Qed.

  Lemma walk_cons : forall e l, walk_P e -> walk_Q l -> walk_Q (e :: l).
  Proof.
    intros e l IHe IHl m Hok. rewrite eligible_files_cons in *. apply Forall_app in Hok. destruct Hok as [Ho1 Ho2].
    rewrite analyze_entries_cons.
    destruct (IHe m Ho1) as [m1 [H1 E1]]. rewrite H1.
    destruct (IHl m1 Ho2) as [m2 [H2 E2]]. exists m2. split; [exact H2|].
    eapply ext_weaken; [eapply ext_trans; eassumption | |].
    - unfold tr_of. rewrite flat_map_app'. apply Permutation_refl.
    - intros q. unfold vec_of. now rewrite flat_map_app'.
  Qed.

  Lemma walk_entries_ext : forall l, walk_Q l.
  Proof. exact (entries_ind2 walk_P walk_Q walk_file walk_dir walk_nil walk_cons). Qed.

  (* ------------------------------------------------------------ C03: the union theorem *)
  Lemma select_in : forall (g : pattern -> findings) q l, NoDup l -> In q l ->
    flat_map (fun p => if eq_dec p q then g p else []) l = g q.
  Proof.
    intros g q. induction l as [|p l IH]; intros Hnd Hin; [destruct Hin|].
    inversion Hnd as [|? ? Hnin Hnd']; subst. cbn [flat_map].
    destruct (eq_dec p q) as [->|Hne].
    - assert (E : flat_map (fun p => if eq_dec p q then g p else []) l = []).
      { clear IH Hnd Hnd' Hin. induction l as [|x l IHl]; [reflexivity|]. cbn [flat_map].
        destruct (eq_dec x q) as [->|]; [exfalso; apply Hnin; now left|]. cbn [app]. apply IHl.
        intros H. apply Hnin. now right. }
      rewrite E. apply app_nil_r.
    - cbn [app]. apply IH; [exact Hnd'|]. destruct Hin as [->|Hin]; [contradiction | exact Hin].
  Qed.

  Lemma select_notin : forall (g : pattern -> findings) q l, ~ In q l ->
    flat_map (fun p => if eq_dec p q then g p else []) l = [].
  Proof.
    intros g q. induction l as [|p l IH]; intros Hnin; [reflexivity|]. cbn [flat_map].
    destruct (eq_dec p q) as [->|Hne]; [exfalso; apply Hnin; now left|]. cbn [app]. apply IH.
    intros H. apply Hnin. now right.
  Qed.

  Lemma vec_of_in : forall fs q, NoDup ps -> In q ps -> vec_of fs q = flat_map (finding_of q) fs.
  Proof.
    intros fs q Hnd Hin. unfold vec_of, file_vec. induction fs as [|f fs IH]; [reflexivity|].
    cbn [flat_map]. rewrite IH. f_equal. exact (select_in (fun p => finding_of p f) q ps Hnd Hin).
  Qed.

  Lemma vec_of_notin : forall fs q, ~ In q ps -> vec_of fs q = [].
  Proof.
    intros fs q Hnin. unfold vec_of, file_vec. induction fs as [|f fs IH]; [reflexivity|].
    cbn [flat_map]. rewrite IH, app_nil_r. exact (select_notin (fun p => finding_of p f) q ps Hnin).
  Qed.

  (* without any assumption on duplicates in ps *)
  Lemma analyze_dir_ext : forall t, all_ok analyze ps t ->
    exists m, analyze_dir t ps = Ok m /\
      ext [] m (expected_triples analyze ps t) (vec_of (eligible_files_rec t)) ps.
  Proof. intros t Hok. exact (walk_entries_ext t [] Hok). Qed.

  Lemma analyze_dir_union_any_lemma : forall t, all_ok analyze ps t ->
    exists m, analyze_dir t ps = Ok m /\
      Permutation (flatten m) (expected_triples analyze ps t) /\ nonempty_entries m.
  Proof.
    intros t H. destruct (analyze_dir_ext t H) as [m [Hm (P & _ & _ & _ & E)]].
    exists m. split; [exact Hm|]. split; [exact P|]. apply E. intros k v [].
  Qed.

  Lemma analyze_dir_union_lemma : forall t, NoDup ps -> all_ok analyze ps t ->
    exists m, analyze_dir t ps = Ok m /\
      NoDup (keys m) /\
      Permutation (flatten m) (expected_triples analyze ps t) /\
      (forall p, In p ps -> lookup m p = expected_vector analyze p t) /\
      (forall p, ~ In p ps -> lookup m p = []) /\
      (forall k, In k (keys m) -> In k ps) /\
      nonempty_entries m.
  Proof.
    intros t Hnd Hok. destruct (analyze_dir_ext t Hok) as [m [Hm (P1 & L1 & N1 & K1 & E1)]].
    exists m. split; [exact Hm|]. repeat apply conj.
    - apply N1. constructor.
    - exact P1.
    - intros p Hp. rewrite L1. cbn [Dir.lookup app]. now apply vec_of_in.
    - intros p Hp. rewrite L1. cbn [Dir.lookup app]. now apply vec_of_notin.
    - intros k Hk. destruct (K1 k Hk) as [[]|H]. exact H.
    - apply E1. intros k v [].
  Qed.

  (* ------------------------------------------------------------ when does the run abort *)
  Definition inv_P (e : entry) : Prop :=
    forall m m', analyze_entry ps e m = Ok m' -> Forall (file_ok analyze ps) (elig_files e).
  Definition inv_Q (l : list entry) : Prop :=
    forall m m', analyze_entries ps l m = Ok m' -> Forall (file_ok analyze ps) (eligible_files_rec l).

  Lemma inv_file : forall n c, inv_P (EFile n c).
  Proof.
    intros n c m m' H. unfold elig_files. cbn [files_of filter fst]. cbn [Dir.analyze_entry] in H.
    destruct (eligible n); [|constructor].
    destruct c as [c|]; [|discriminate]. constructor; [|constructor].
    exists c. split; [reflexivity|]. exact (analyze_file_ok_inv n c ps m m' H).
  Qed.

  Lemma inv_dir : forall n ch, inv_Q ch -> inv_P (EDir n ch).
  Proof.
    intros n ch IH m m' H. rewrite elig_files_dir. rewrite analyze_entry_dir in H.
    destruct (analyze_entries ps ch []) as [sub|s] eqn:E; [|discriminate]. exact (IH _ _ E).
  Qed.

  Lemma inv_nil : inv_Q [].
  Proof. intros m m' _. constructor. Qed.

  Lemma inv_cons : forall e l, inv_P e -> inv_Q l -> inv_Q (e :: l).
  Proof.
    intros e l IHe IHl m m' H. rewrite eligible_files_cons. rewrite analyze_entries_cons in H.
    destruct (analyze_entry ps e m) as [m1|s] eqn:E; [|discriminate].
    apply Forall_app. split; [exact (IHe _ _ E) | exact (IHl _ _ H)].
  Qed.

  Lemma analyze_dir_ok_inv : forall t m, analyze_dir t ps = Ok m -> all_ok analyze ps t.
  Proof. intros t m H. exact (entries_ind2 inv_P inv_Q inv_file inv_dir inv_nil inv_cons t [] m H). Qed.

  Lemma analyze_dir_ok_iff_lemma : forall t, (exists m, analyze_dir t ps = Ok m) <-> all_ok analyze ps t.
  Proof.
    intros t. split.
    - intros [m H]. exact (analyze_dir_ok_inv t m H).
    - intros H. destruct (analyze_dir_ext t H) as [m [Hm _]]. now exists m.
  Qed.

  (* the culprit of an aborted run: an eligible file that cannot be read, or whose analysis
     panics for a selected pattern *)
  Notation file_bad := (file_bad analyze ps).

  Lemma file_ok_or_bad : forall f, file_ok analyze ps f \/ file_bad f.
  Proof.
    intros [n [c|]]; [|right; now left].
    assert (H : (forall p, In p ps -> exists ls, analyze p c = Ok ls) \/
                (exists p s, In p ps /\ analyze p c = Panic s)).
    { induction ps as [|p l IH]; [left; intros p []|].
      destruct (analyze p c) as [ls|s] eqn:E.
      - destruct IH as [IH | [q [s [Hq Hs]]]].
        + left. intros q [<-|Hq]; [now exists ls | now apply IH].
        + right. exists q, s. split; [now right | exact Hs].
      - right. exists p, s. split; [now left | exact E]. }
    destruct H as [H | [p [s [Hp Hs]]]].
    - left. exists c. split; [reflexivity | exact H].
    - right. right. exists c, p, s. auto.
  Qed.

  Lemma file_bad_not_ok : forall f, file_bad f -> ~ file_ok analyze ps f.
  Proof.
    intros f [Hn | [c [p [s [Hc [Hp Hs]]]]]] [c' [Hc' Hall]].
    - congruence.
    - rewrite Hc in Hc'. injection Hc' as <-. destruct (Hall p Hp) as [ls Hls]. congruence.
  Qed.

  Lemma analyze_dir_panic_iff_lemma : forall t,
    (exists s, analyze_dir t ps = Panic s) <-> Exists file_bad (eligible_files_rec t).
  Proof.
    intros t. split.
    - intros [s Hs].
      assert (D : Forall (file_ok analyze ps) (eligible_files_rec t) \/ Exists file_bad (eligible_files_rec t)).
      { induction (eligible_files_rec t) as [|f fs IH]; [left; constructor|].
        destruct (file_ok_or_bad f) as [Hf|Hf]; [|right; now constructor].
        destruct IH as [IH|IH]; [left; now constructor | right; now apply Exists_cons_tl]. }
      destruct D as [D|D]; [|exact D].
      destruct (analyze_dir_ext t D) as [m [Hm _]]. congruence.
    - intros He. destruct (analyze_dir t ps) as [m|s] eqn:E; [|now exists s].
      exfalso. apply analyze_dir_ok_inv in E. unfold all_ok in E.
      apply Exists_exists in He. destruct He as [f [Hin Hbad]].
      rewrite Forall_forall in E. exact (file_bad_not_ok f Hbad (E f Hin)).
  Qed.

  (* ------------------------------------------------------------ C16: inert files *)
  Lemma analyze_entries_app : forall l1 l2 m,
    analyze_entries ps (l1 ++ l2) m =
    match analyze_entries ps l1 m with Ok m' => analyze_entries ps l2 m' | Panic s => Panic s end.
  Proof. intros. unfold Dir.analyze_entries. apply fold_res_app. Qed.

  Definition prune_P (e : entry) : Prop :=
    forall m, analyze_entries ps (prune_entry e) m = analyze_entry ps e m.
  Definition prune_Q (l : list entry) : Prop :=
    forall m, analyze_entries ps (prune l) m = analyze_entries ps l m.

  Lemma analyze_entries_single : forall e m, analyze_entries ps [e] m = analyze_entry ps e m.
  Proof. intros e m. rewrite analyze_entries_cons. now destruct (analyze_entry ps e m). Qed.

  Lemma prune_file : forall n c, prune_P (EFile n c).
  Proof.
    intros n c m. cbn [prune_entry]. destruct (eligible n) eqn:E.
    - apply analyze_entries_single.
    - cbn [Dir.analyze_entry]. now rewrite E.
  Qed.

  Lemma prune_dir : forall n ch, prune_Q ch -> prune_P (EDir n ch).
  Proof.
    intros n ch IH m. cbn [prune_entry]. rewrite analyze_entries_single, !analyze_entry_dir.
    fold (prune ch). now rewrite IH.
  Qed.

  Lemma prune_nil : prune_Q [].
  Proof. intros m. reflexivity. Qed.

  Lemma prune_cons : forall e l, prune_P e -> prune_Q l -> prune_Q (e :: l).
  Proof.
    intros e l IHe IHl m. unfold prune. cbn [flat_map]. fold (prune l).
    rewrite analyze_entries_app, IHe, analyze_entries_cons.
    destruct (analyze_entry ps e m); [apply IHl | reflexivity].
  Qed.

  Lemma prune_inert_lemma : forall t, analyze_dir (prune t) ps = analyze_dir t ps.
  Proof. intros t. exact (entries_ind2 prune_P prune_Q prune_file prune_dir prune_nil prune_cons t []). Qed.

  (* ------------------------------------------------------------ C15: verdicts *)
  Lemma vec_of_sound : forall fs p n x, In (n, x) (vec_of fs p) ->
    exists c0, In (n, Some c0) fs /\ analyze p c0 = Ok x /\ x <> [].
  Proof.
    intros fs p n x H. unfold vec_of, file_vec in H.
    apply in_flat_map in H. destruct H as [[n0 c0] [Hf H]].
    apply in_flat_map in H. destruct H as [p' [Hp' H]].
    destruct (eq_dec p' p) as [->|]; [|destruct H].
    unfold DirSpec.finding_of in H. cbn [fst snd] in H.
    destruct c0 as [c0|]; [|destruct H].
    destruct (analyze p c0) as [[|l ls]|s] eqn:E.
    - destruct H.
    - destruct H as [H|[]]. injection H as -> <-. exists c0. repeat split; [exact Hf | exact E | discriminate].
    - destruct H.
  Qed.

  Lemma vec_of_complete : forall fs p n c0 l ls, In p ps -> In (n, Some c0) fs ->
    analyze p c0 = Ok (l :: ls) -> In (n, l :: ls) (vec_of fs p).
  Proof.
    intros fs p n c0 l ls Hp Hf E. unfold vec_of, file_vec.
    apply in_flat_map. exists (n, Some c0). split; [exact Hf|].
    apply in_flat_map. exists p. split; [exact Hp|].
    destruct (eq_dec p p) as [_|Hne]; [|contradiction].
    unfold DirSpec.finding_of. cbn [fst snd]. rewrite E. now left.
  Qed.

  Lemma verdict_vector_lemma : forall t m p,
    NoDup ps -> In p ps -> analyze_dir t ps = Ok m -> lookup m p = expected_vector analyze p t.
  Proof.
    intros t m p Hnd Hp Hm. pose proof (analyze_dir_ok_inv t m Hm) as Hok.
    destruct (analyze_dir_union_lemma t Hnd Hok) as [m0 [Hm0 (_ & _ & L & _)]].
    rewrite Hm in Hm0. injection Hm0 as <-. now apply L.
  Qed.

  Lemma verdict_lemma : forall t m p name c,
    In p ps -> analyze_dir t ps = Ok m ->
    In (name, Some c) (eligible_files_rec t) ->
    (forall c', In (name, c') (eligible_files_rec t) -> c' = Some c) ->
    analyze p c = Ok (verdict (lookup m p) name).
  Proof.
    intros t m p name c Hp Hm Hin Huniq.
    pose proof (analyze_dir_ok_inv t m Hm) as Hok.
    destruct (analyze_dir_ext t Hok) as [m0 [Hm0 (_ & L1 & _)]].
    rewrite Hm in Hm0. injection Hm0 as <-.
    rewrite L1. cbn [Dir.lookup app].
    unfold all_ok in Hok. rewrite Forall_forall in Hok.
    destruct (Hok _ Hin) as [c1 [Hc1 Hall]]. cbn [snd] in Hc1. injection Hc1 as <-.
    destruct (Hall p Hp) as [ls Hls].
    unfold verdict. destruct (find _ _) as [[n x]|] eqn:F.
    - apply find_some in F. destruct F as [Fin Fn]. cbn [fst] in Fn. apply String.eqb_eq in Fn. subst n.
      destruct (vec_of_sound _ _ _ _ Fin) as [c0 [Hf [E _]]].
      apply Huniq in Hf. injection Hf as ->. exact E.
    - destruct ls as [|l ls]; [exact Hls|]. exfalso.
      pose proof (vec_of_complete _ p name c l ls Hp Hin Hls) as Hv.
      pose proof (find_none _ _ F _ Hv) as Hn. cbn [fst] in Hn. now rewrite String.eqb_refl in Hn.
  Qed.
End DirProofs.

(* ====================================================================== C16: inert files, as a relation *)
Lemma prune_app : forall a b, prune (a ++ b) = prune a ++ prune b.
Proof. intros. unfold prune. apply flat_map_app'. Qed.

Lemma inert_ins_prune : forall t t', inert_ins t t' -> prune t = prune t'.
Proof.
  intros t t' H. induction H as [n c l1 l2 Hn | d ch ch' l1 l2 H IH].
  - rewrite !prune_app. f_equal. unfold prune. cbn [flat_map prune_entry]. now rewrite Hn.
  - rewrite !prune_app. f_equal. unfold prune in *. cbn [flat_map prune_entry]. now rewrite IH.
Qed.

Lemma inert_ext_prune : forall t t', inert_ext t t' -> prune t = prune t'.
Proof.
  intros t t' H. induction H as [t | t t' H | t t' H | t1 t2 t3 _ IH1 _ IH2].
  - reflexivity.
  - now apply inert_ins_prune.
  - symmetry. now apply inert_ins_prune.
  - now rewrite IH1.
Qed.

Lemma inert_files_lemma : forall (pattern : Type) (eq_dec : forall a b : pattern, {a = b} + {a <> b})
    (analyze : pattern -> string -> res (list Z)) (ps : list pattern) t t',
  inert_ext t t' -> analyze_dir eq_dec analyze t' ps = analyze_dir eq_dec analyze t ps.
Proof.
  intros pattern eq_dec analyze ps t t' H.
  rewrite <- (prune_inert_lemma pattern eq_dec analyze ps t), <- (prune_inert_lemma pattern eq_dec analyze ps t').
  now rewrite (inert_ext_prune t t' H).
Qed.

(* the pruned tree is reachable by removals only *)
Lemma eligible_files_prune : forall t, eligible_files_rec (prune t) = eligible_files_rec t.
Proof.
  apply (entries_ind2
    (fun e => eligible_files_rec (prune_entry e) = filter (fun f => eligible (fst f)) (files_of e))
    (fun l => eligible_files_rec (prune l) = eligible_files_rec l)).
  - intros n c. cbn [prune_entry files_of]. unfold eligible_files_rec, all_files_rec.
    destruct (eligible n) eqn:E; cbn; now rewrite ?E.
  - intros n ch IH. cbn [prune_entry files_of]. fold (prune ch).
    unfold eligible_files_rec, all_files_rec in *. cbn [flat_map files_of]. now rewrite app_nil_r.
  - reflexivity.
  - intros e l IHe IHl. unfold prune. cbn [flat_map]. fold (prune l).
    unfold eligible_files_rec, all_files_rec in *. rewrite flat_map_app', filter_app.
    cbn [flat_map]. rewrite filter_app. f_equal; [exact IHe | exact IHl].
Qed.


(* ====================================================================== C03: the listing order does not matter *)
Lemma Permutation_filter' : forall {A} (f : A -> bool) l l', Permutation l l' -> Permutation (filter f l) (filter f l').
Proof.
  intros A f l l' H. induction H as [|x l l' _ IH|x y l|l1 l2 l3 _ IH1 _ IH2]; cbn.
  - constructor.
  - destruct (f x); [now constructor | exact IH].
  - destruct (f x), (f y); try apply Permutation_refl. apply perm_swap.
  - eapply Permutation_trans; eassumption.
Qed.

Lemma tree_perm_files : forall t t', tree_perm t t' -> Permutation (eligible_files_rec t) (eligible_files_rec t').
Proof.
  intros t t' H. unfold eligible_files_rec. apply Permutation_filter'.
  induction H as [l l' H | d ch ch' l1 l2 _ IH | a b c _ IH1 _ IH2]; unfold all_files_rec in *.
  - now apply Permutation_flat_map.
  - rewrite !flat_map_app'. cbn [flat_map files_of]. apply Permutation_app_head, Permutation_app_tail, IH.
  - eapply Permutation_trans; eassumption.
Qed.

Lemma listing_order_lemma : forall (pattern : Type) (eq_dec : forall a b : pattern, {a = b} + {a <> b})
    (analyze : pattern -> string -> res (list Z)) (ps : list pattern) t t' m,
  tree_perm t t' -> analyze_dir eq_dec analyze t ps = Ok m ->
  exists m', analyze_dir eq_dec analyze t' ps = Ok m' /\ Permutation (flatten m) (flatten m').
Proof.
  intros pattern eq_dec analyze ps t t' m Hp Hm.
  pose proof (tree_perm_files t t' Hp) as Hf.
  pose proof (analyze_dir_ok_inv pattern eq_dec analyze ps t m Hm) as Hok.
  assert (Hok' : all_ok analyze ps t') by (unfold all_ok in *; eapply Permutation_Forall; eassumption).
  destruct (analyze_dir_ext pattern eq_dec analyze ps t Hok) as [m0 [Hm0 (P0 & _)]].
  destruct (analyze_dir_ext pattern eq_dec analyze ps t' Hok') as [m' [Hm' (P' & _)]].
  rewrite Hm in Hm0. injection Hm0 as <-. exists m'. split; [exact Hm'|].
  cbn [app] in P0, P'. eapply Permutation_trans; [exact P0|]. eapply Permutation_trans; [|apply Permutation_sym, P'].
  unfold expected_triples. now apply Permutation_flat_map.
Qed.

(* ====================================================================== C15: the same verdict in any two runs *)
Lemma verdict_two_runs_lemma : forall (pattern : Type) (eq_dec : forall a b : pattern, {a = b} + {a <> b})
    (analyze : pattern -> string -> res (list Z)) ps1 ps2 t1 t2 m1 m2 p name c,
  In p ps1 -> In p ps2 ->
  analyze_dir eq_dec analyze t1 ps1 = Ok m1 -> analyze_dir eq_dec analyze t2 ps2 = Ok m2 ->
  In (name, Some c) (eligible_files_rec t1) -> In (name, Some c) (eligible_files_rec t2) ->
  (forall c', In (name, c') (eligible_files_rec t1) -> c' = Some c) ->
  (forall c', In (name, c') (eligible_files_rec t2) -> c' = Some c) ->
  verdict (lookup eq_dec m1 p) name = verdict (lookup eq_dec m2 p) name.
Proof.
  intros pattern eq_dec analyze ps1 ps2 t1 t2 m1 m2 p name c Hp1 Hp2 H1 H2 I1 I2 U1 U2.
  pose proof (verdict_lemma pattern eq_dec analyze ps1 t1 m1 p name c Hp1 H1 I1 U1) as V1.
  pose proof (verdict_lemma pattern eq_dec analyze ps2 t2 m2 p name c Hp2 H2 I2 U2) as V2.
  rewrite V1 in V2. now injection V2.
Qed.
