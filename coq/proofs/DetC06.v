(* C06: declaration-level detectors - closed forms over the declared structure. *)
From Coq Require Import List String Ascii NArith ZArith Bool.
Import ListNotations.
From Solstat Require Import Lift Pt Walk Res Nodes Utils Detectors WalkProof Patterns DetBase DetC05 StructLemmas DetC07.
Local Open Scope string_scope.

(* ---------------------------------------------------------------- payable_function *)
Theorem payable_function_closed su :
  payable_function_optimization su = Ok (spec_payable_function su).
Proof.
  unfold payable_function_optimization, spec_payable_function, select.
  rewrite contract_function_parts_closed. cbn [bind]. f_equal.
  induction (member_functions su) as [|f fs IH]; [reflexivity|].
  cbn [map flat_map filter]. rewrite IH. unfold sp_has_body.
  destruct (FunctionDefinition_body f); cbn [andb]; [|reflexivity].
  change (is_public_or_external f) with (sp_pub_ext f).
  change (existsb attr_payable (FunctionDefinition_attributes f))
    with (existsb sp_fattr_payable (FunctionDefinition_attributes f)).
  destruct (sp_pub_ext f && negb (existsb sp_fattr_payable (FunctionDefinition_attributes f))); reflexivity.
Qed.

(* ---------------------------------------------------------------- state variables *)
Lemma unwrap_sup_list ps :
  mapM (fun n => unwrap "node.source_unit_part().unwrap()" (node_source_unit_part n)) (map N_SourceUnitPart ps) = Ok ps.
Proof.
  rewrite mapM_map. rewrite (mapM_ok_ext _ (fun p => p)); [rewrite map_id; reflexivity|]. intros p. reflexivity.
Qed.

Theorem contract_variable_definitions_closed su :
  contract_variable_definitions su = Ok (state_variables su).
Proof.
  unfold contract_variable_definitions, state_variables. rewrite contract_nodes_closed.
  rewrite <- (map_map SourceUnitPart_ContractDefinition N_SourceUnitPart).
  rewrite unwrap_sup_list. cbn [bind]. f_equal.
  induction (contracts su) as [|c cs IH]; [reflexivity|]. cbn [map flat_map]. rewrite IH. reflexivity.
Qed.

Theorem private_constant_closed su :
  private_constant_optimization su = Ok (spec_private_constant su).
Proof.
  unfold private_constant_optimization, spec_private_constant, select.
  rewrite contract_variable_definitions_closed. cbn [bind]. f_equal.
  induction (state_variables su) as [|v vs IH]; [reflexivity|].
  cbn [map flat_map filter]. rewrite IH. unfold sp_is_constant.
  change (existsb vattr_constant (VariableDefinition_attrs v)) with (existsb sp_vattr_constant (VariableDefinition_attrs v)).
  change (existsb vattr_private (VariableDefinition_attrs v)) with (existsb sp_vattr_private (VariableDefinition_attrs v)).
  destruct (existsb sp_vattr_constant (VariableDefinition_attrs v) && negb (existsb sp_vattr_private (VariableDefinition_attrs v)));
    reflexivity.
Qed.

Lemma bool_neq (a b : bool) : negb (Bool.eqb a b) = if b then negb a else a.
Proof. destruct a, b; reflexivity. Qed.

Lemma private_vars_pointwise v (l : Loc) :
  In l (let attrs := VariableDefinition_attrs v in
        let name := name_of (VariableDefinition_name v) in
        if existsb vattr_constant attrs then []
        else flat_map (fun a => match a with
                                | VariableAttribute_Visibility vis =>
                                    if vis_private_or_internal vis
                                    then (if starts_with_underscore name then [] else [VariableDefinition_loc v])
                                    else (if starts_with_underscore name then [VariableDefinition_loc v] else [])
                                | _ => [] end) attrs) <->
  In l (if negb (sp_is_constant v) && sp_var_contradiction v then [VariableDefinition_loc v] else []).
Proof.
  cbv zeta. unfold sp_is_constant.
  change (existsb vattr_constant (VariableDefinition_attrs v)) with (existsb sp_vattr_constant (VariableDefinition_attrs v)).
  destruct (existsb sp_vattr_constant (VariableDefinition_attrs v)); [cbn; tauto|]. cbn [negb andb].
  unfold sp_var_contradiction, name_of, idname.
  change starts_with_underscore with sp_underscore. change vis_private_or_internal with sp_vis_priv_int.
  set (u := sp_underscore (Identifier_name (VariableDefinition_name v))).
  induction (VariableDefinition_attrs v) as [|a attrs IH]; [cbn; tauto|].
  cbn [flat_map existsb]. rewrite in_app_iff, IH. clear IH.
  destruct a as [vis|?|?|? ?]; cbn [orb In]; try tauto.
  rewrite bool_neq.
  match goal with |- context [existsb ?g attrs] => destruct (existsb g attrs) end;
    destruct (sp_vis_priv_int vis), u; cbn; tauto.
Qed.

Theorem private_vars_closed su :
  exists ls : list Loc, private_vars_leading_underscore su = Ok ls /\ (forall l, In l ls <-> In l (spec_private_vars su)).
Proof.
  unfold private_vars_leading_underscore, spec_private_vars, select.
  rewrite contract_variable_definitions_closed. cbn [bind]. eexists. split; [reflexivity|].
  intros l. induction (state_variables su) as [|v vs IH]; [cbn; tauto|].
  cbn [flat_map filter]. rewrite in_app_iff, IH, (private_vars_pointwise v l). clear IH.
  destruct (negb (sp_is_constant v) && sp_var_contradiction v); cbn; tauto.
Qed.

(* ---------------------------------------------------------------- private_func_leading_underscore *)
Lemma fn_nodes_of_file su :
  extract_target_from_node Target_FunctionDefinition (root su) =
  match su with Mk_SourceUnit parts =>
    flat_map (fun p => match p with
                       | SourceUnitPart_FunctionDefinition _ => [N_SourceUnitPart p]
                       | SourceUnitPart_ContractDefinition c => map N_ContractPart (filter is_fn_part (ContractDefinition_parts c))
                       | _ => [] end) parts end.
Proof.
  unfold root. rewrite extract_ksel, filter_pre_skeleton by apply es_free_FunctionDefinition.
  destruct su as [parts]. unfold skeleton. cbn [filter].
  change (ksel Target_FunctionDefinition (N_SourceUnit (Mk_SourceUnit parts))) with false. cbn iota.
  rewrite filter_flat_map. apply flat_map_ext. intros p. unfold skeleton_part. cbn [filter].
  destruct p as [c|? ? ?|?|?|?|?|?|?|?|?|?|?]; cbn; try reflexivity.
  induction (ContractDefinition_parts c) as [|q qs IH]; [reflexivity|]. cbn [map filter].
  destruct q; cbn; rewrite IH; reflexivity.
Qed.

Definition private_func_of (f : FunctionDefinition) : list Loc :=
  match FunctionDefinition_ty f with
  | FunctionTy_Function =>
      flat_map (fun a =>
        match a, FunctionDefinition_name f with
        | FunctionAttribute_Visibility v, Some id =>
            if vis_public_or_external v
            then (if starts_with_underscore (name_of id) then [Identifier_loc id] else [])
            else (if starts_with_underscore (name_of id) then [] else [Identifier_loc id])
        | _, _ => []
        end) (FunctionDefinition_attributes f)
  | _ => [] end.

Lemma private_func_model_closed su :
  private_func_leading_underscore su = Ok (flat_map private_func_of (member_functions su)).
Proof.
  unfold private_func_leading_underscore. rewrite fn_nodes_of_file. f_equal.
  destruct su as [parts]. unfold member_functions, contracts.
  induction parts as [|p ps IH]; [reflexivity|].
  cbn [flat_map]. rewrite !flat_map_app, IH. f_equal. clear IH.
  destruct p as [c|? ? ?|?|?|?|?|?|?|?|?|?|?]; try reflexivity.
  cbn [flat_map app]. rewrite app_nil_r. unfold functions_of.
  induction (ContractDefinition_parts c) as [|q qs IH]; [reflexivity|].
  destruct q; cbn [filter is_fn_part map flat_map app]; rewrite ?IH; reflexivity.
Qed.

Lemma vis_pe_pi v : vis_public_or_external v = negb (sp_vis_priv_int v).
Proof. destruct v; reflexivity. Qed.

Lemma private_func_pointwise f (l : Loc) :
  In l (private_func_of f) <->
  In l (match FunctionDefinition_ty f, FunctionDefinition_name f with
        | FunctionTy_Function, Some id =>
            if existsb (fun a => match a with
                                 | FunctionAttribute_Visibility vis =>
                                     negb (Bool.eqb (sp_underscore (idname id)) (sp_vis_priv_int vis))
                                 | _ => false end) (FunctionDefinition_attributes f)
            then [Identifier_loc id] else []
        | _, _ => [] end).
Proof.
  unfold private_func_of. destruct (FunctionDefinition_ty f); try tauto.
  destruct (FunctionDefinition_name f) as [id|].
  - unfold name_of, idname. change starts_with_underscore with sp_underscore.
    set (u := sp_underscore (Identifier_name id)).
    induction (FunctionDefinition_attributes f) as [|a attrs IH]; [cbn; tauto|].
    cbn [flat_map existsb]. rewrite in_app_iff, IH. clear IH.
    destruct a; cbn [orb In]; try tauto.
    rewrite bool_neq, vis_pe_pi.
    match goal with |- context [existsb ?g attrs] => destruct (existsb g attrs) end;
      match goal with |- context [sp_vis_priv_int ?v] => destruct (sp_vis_priv_int v), u; cbn; tauto end.
  - induction (FunctionDefinition_attributes f) as [|a attrs IH]; [cbn; tauto|].
    cbn [flat_map]. rewrite in_app_iff, IH. destruct a; cbn; tauto.
Qed.

Theorem private_func_closed su :
  exists ls : list Loc, private_func_leading_underscore su = Ok ls /\ (forall l, In l ls <-> In l (spec_private_func su)).
Proof.
  rewrite private_func_model_closed. eexists. split; [reflexivity|].
  intros l. unfold spec_private_func. rewrite !in_flat_map.
  split; intros [f [Hf Hl]]; exists f; (split; [exact Hf|]); apply private_func_pointwise; exact Hl.
Qed.

(* ---------------------------------------------------------------- constructor_order *)
Lemma ctor_scan_spec before ps :
  constructor_order_scan (existsb sp_counts_as_function before) (map N_ContractPart (filter is_fn_part ps))
  = sp_ctor_order before ps.
Proof.
  revert before. induction ps as [|p ps IH]; intros before; [reflexivity|].
  cbn [filter sp_ctor_order]. destruct p as [?|?|?|?|?|f|?|?|?]; cbn [is_fn_part map app];
    try (rewrite <- IH; rewrite existsb_app; cbn; rewrite orb_false_r; reflexivity).
  cbn [constructor_order_scan]. unfold sp_is_ctor.
  destruct (FunctionDefinition_ty f) eqn:Ety; cbn [andb].
  - rewrite <- IH. rewrite existsb_app. cbn [existsb sp_counts_as_function]. rewrite Ety. rewrite !orb_false_r. reflexivity.
  - rewrite <- IH. rewrite existsb_app. cbn [existsb sp_counts_as_function]. rewrite Ety. rewrite orb_true_r. reflexivity.
  - rewrite <- IH. rewrite existsb_app. cbn [existsb sp_counts_as_function]. rewrite Ety. rewrite orb_true_r. reflexivity.
  - rewrite <- IH. rewrite existsb_app. cbn [existsb sp_counts_as_function]. rewrite Ety. rewrite orb_true_r. reflexivity.
  - rewrite <- IH. rewrite existsb_app. cbn [existsb sp_counts_as_function]. rewrite Ety. rewrite !orb_false_r. reflexivity.
Qed.

Lemma flat_map_map {A B C} (f : B -> list C) (g : A -> B) l : flat_map f (map g l) = flat_map (fun x => f (g x)) l.
Proof. induction l as [|x l IH]; [reflexivity|]. cbn. rewrite IH. reflexivity. Qed.

Theorem constructor_order_closed su :
  constructor_order_qa su = Ok (spec_constructor_order su).
Proof.
  unfold constructor_order_qa, spec_constructor_order. f_equal.
  rewrite contract_nodes_closed. rewrite flat_map_map.
  apply flat_map_ext. intros c. rewrite fn_nodes_of_contract.
  apply (ctor_scan_spec [] (ContractDefinition_parts c)).
Qed.

(* ---------------------------------------------------------------- locality *)
Lemma select_flat_map {A B} (p : B -> bool) (f : B -> Loc) (g : A -> list B) l :
  select p f (flat_map g l) = flat_map (fun x => select p f (g x)) l.
Proof.
  unfold select. induction l as [|x l IH]; [reflexivity|].
  cbn [flat_map]. rewrite filter_app, map_app, IH. reflexivity.
Qed.
