(* Proofs for property C14 (configuration).  The table facts are decided by vm_compute on the
   tables regenerated from the source (gen/Names.v) and lifted with forallb_forall: they are
   re-checked whenever a table changes. *)
From Coq Require Import List String Ascii NArith Bool Lia.
Import ListNotations.
From Solstat Require Import Res Names Opts ConfigSpec.
Local Open Scope string_scope.
Local Open Scope N_scope.
Local Open Scope list_scope.

(* ------------------------------------------------------------------ letter case *)
Lemma is_upper_iff : forall c, is_upper c = true <-> 65 <= N_of_ascii c <= 90.
Proof.
  intros c. unfold is_upper. rewrite andb_true_iff, !N.leb_le. tauto.
Qed.

Lemma N_of_ascii_lt : forall c, N_of_ascii c < 256.
Proof. intros c. apply N_ascii_bounded. Qed.

Lemma lower_char_upper : forall c, 65 <= N_of_ascii c <= 90 ->
  lower_char c = ascii_of_N (N_of_ascii c + 32) /\
  lower_char (ascii_of_N (N_of_ascii c + 32)) = ascii_of_N (N_of_ascii c + 32).
Proof.
  intros c Hc. split.
  - unfold lower_char. destruct (is_upper c) eqn:E; [reflexivity|].
    apply is_upper_iff in Hc. congruence.
  - unfold lower_char. destruct (is_upper (ascii_of_N (N_of_ascii c + 32))) eqn:E; [|reflexivity].
    apply is_upper_iff in E. rewrite N_ascii_embedding in E by lia. lia.
Qed.

Lemma same_letter_lower : forall a b, same_letter a b -> lower_char a = lower_char b.
Proof.
  intros a b H. destruct H as [c | c Hc | c Hc].
  - reflexivity.
  - destruct (lower_char_upper c Hc) as [H1 H2]. congruence.
  - destruct (lower_char_upper c Hc) as [H1 H2]. congruence.
Qed.

Lemma casing_of_lower : forall s t, casing_of s t -> ascii_lower s = ascii_lower t.
Proof.
  intros s t H. induction H as [| a b s t Hab Hst IH].
  - reflexivity.
  - cbn [ascii_lower]. rewrite IH, (same_letter_lower a b Hab). reflexivity.
Qed.

Lemma casing_of_refl : forall s, casing_of s s.
Proof. induction s as [| c s IH]; constructor; [constructor | exact IH]. Qed.

Lemma casing_of_sym : forall s t, casing_of s t -> casing_of t s.
Proof.
  intros s t H. induction H as [| a b s t Hab Hst IH]; constructor; [|exact IH].
  destruct Hab; constructor; assumption.
Qed.

(* lowering is idempotent, and a string is a re-casing of its lowering *)
Lemma same_letter_lower_char : forall c, same_letter c (lower_char c).
Proof.
  intros c. unfold lower_char. destruct (is_upper c) eqn:E.
  - apply sl_lower. apply is_upper_iff. exact E.
  - apply sl_same.
Qed.

Lemma casing_of_ascii_lower : forall s, casing_of s (ascii_lower s).
Proof.
  induction s as [| c s IH]; cbn [ascii_lower]; constructor; [apply same_letter_lower_char | exact IH].
Qed.

Lemma case_insensitive_lemma : forall c s s', ascii_lower s = ascii_lower s' -> str_to c s = str_to c s'.
Proof. intros c s s' H. unfold str_to. rewrite H. reflexivity. Qed.

Lemma casing_irrelevant_lemma : forall c s s', casing_of s s' -> str_to c s = str_to c s'.
Proof. intros c s s' H. apply case_insensitive_lemma, casing_of_lower, H. Qed.

(* ------------------------------------------------------------------ finite table facts *)
Definition documented (c : category) : list string := doc_names c ++ toml_names c.
Definition n_variants (c : category) : N := N.of_nat (List.length (variants c)).

Definition accepted_b (c : category) : bool :=
  forallb (fun n => match str_to c n with Some p => p <? n_variants c | None => false end) (documented c).

Definition injective_b (c : category) : bool :=
  forallb (fun n1 => forallb (fun n2 =>
     match str_to c n1, str_to c n2 with
     | Some p1, Some p2 => implb (p1 =? p2) (String.eqb (ascii_lower n1) (ascii_lower n2))
     | _, _ => true
     end) (documented c)) (documented c).

Definition selectable_b (c : category) : bool :=
  forallb (fun p => existsb (fun n => match str_to c n with Some q => q =? p | None => false end) (documented c))
          (get_all c).

Definition range (n : N) : list N := map N.of_nat (seq 0 (N.to_nat n)).

Definition mem (i : N) (l : list N) : bool := existsb (N.eqb i) l.

Definition defaults_all_b (c : category) : bool := forallb (fun i => mem i (get_all c)) (range (n_variants c)).
Definition dispatch_b (c : category) : bool :=
  forallb (fun i => mem i (analyze_arms c) && mem i (section_arms c)) (range (n_variants c)).
(* every arm of the table yields a declared variant, and is reachable under its own name *)
Definition table_wf_b (c : category) : bool :=
  forallb (fun kv => (snd kv <? n_variants c) && String.eqb (ascii_lower (fst kv)) (fst kv)) (str_table c).

Lemma accepted_ok : forallb accepted_b categories = true.
Proof. vm_compute. reflexivity. Qed.
Lemma injective_ok : forallb injective_b categories = true.
Proof. vm_compute. reflexivity. Qed.
Lemma selectable_ok : forallb selectable_b categories = true.
Proof. vm_compute. reflexivity. Qed.
Lemma defaults_all_ok : forallb defaults_all_b categories = true.
Proof. vm_compute. reflexivity. Qed.
Lemma dispatch_ok : forallb dispatch_b categories = true.
Proof. vm_compute. reflexivity. Qed.
Lemma table_wf_ok : forallb table_wf_b categories = true.
Proof. vm_compute. reflexivity. Qed.

Lemma in_range : forall n i, i < n -> In i (range n).
Proof.
  intros n i H. unfold range. apply in_map_iff. exists (N.to_nat i). split.
  - apply N2Nat.id.
  - apply in_seq. lia.
Qed.

Lemma mem_In : forall i l, mem i l = true -> In i l.
Proof.
  intros i l H. unfold mem in H. apply existsb_exists in H. destruct H as [x [Hx E]].
  apply N.eqb_eq in E. subst x. exact Hx.
Qed.

Lemma doc_names_accepted_lemma : forall c, In c categories -> forall n, In n (documented c) ->
  exists p, str_to c n = Some p /\ p < n_variants c.
Proof.
  intros c Hc n Hn.
  pose proof (proj1 (forallb_forall _ _) accepted_ok c Hc) as H. unfold accepted_b in H.
  pose proof (proj1 (forallb_forall _ _) H n Hn) as H2. cbv beta in H2.
  destruct (str_to c n) as [p|]; [|discriminate].
  exists p. split; [reflexivity|]. apply N.ltb_lt. exact H2.
Qed.

Lemma doc_names_any_case_lemma : forall c, In c categories -> forall n s, In n (documented c) -> casing_of n s ->
  exists p, str_to c s = Some p /\ p < n_variants c.
Proof.
  intros c Hc n s Hn Hs. rewrite <- (casing_irrelevant_lemma c n s Hs).
  apply doc_names_accepted_lemma; assumption.
Qed.

Lemma doc_names_injective_lemma : forall c, In c categories -> forall n1 n2 p,
  In n1 (documented c) -> In n2 (documented c) -> str_to c n1 = Some p -> str_to c n2 = Some p ->
  ascii_lower n1 = ascii_lower n2.
Proof.
  intros c Hc n1 n2 p H1 H2 E1 E2.
  pose proof (proj1 (forallb_forall _ _) injective_ok c Hc) as H. unfold injective_b in H.
  pose proof (proj1 (forallb_forall _ _) H n1 H1) as Ha. cbv beta in Ha.
  pose proof (proj1 (forallb_forall _ _) Ha n2 H2) as Hb. cbv beta in Hb.
  rewrite E1, E2, N.eqb_refl in Hb. cbn [implb] in Hb. apply String.eqb_eq. exact Hb.
Qed.

Lemma defaults_selectable_lemma : forall c, In c categories -> forall p, In p (get_all c) ->
  exists n, In n (documented c) /\ str_to c n = Some p.
Proof.
  intros c Hc p Hp.
  pose proof (proj1 (forallb_forall _ _) selectable_ok c Hc) as H. unfold selectable_b in H.
  pose proof (proj1 (forallb_forall _ _) H p Hp) as H2. cbv beta in H2.
  apply existsb_exists in H2. destruct H2 as [n [Hn E]]. exists n. split; [exact Hn|].
  destruct (str_to c n) as [q|]; [|discriminate]. apply N.eqb_eq in E. subst q. reflexivity.
Qed.

Lemma defaults_all_lemma : forall c, In c categories -> forall i, i < n_variants c -> In i (get_all c).
Proof.
  intros c Hc i Hi.
  pose proof (proj1 (forallb_forall _ _) defaults_all_ok c Hc) as H. unfold defaults_all_b in H.
  pose proof (proj1 (forallb_forall _ _) H i (in_range _ _ Hi)) as H2. apply mem_In. exact H2.
Qed.

Lemma dispatch_total_lemma : forall c, In c categories -> forall i, i < n_variants c ->
  In i (analyze_arms c) /\ In i (section_arms c).
Proof.
  intros c Hc i Hi.
  pose proof (proj1 (forallb_forall _ _) dispatch_ok c Hc) as H. unfold dispatch_b in H.
  pose proof (proj1 (forallb_forall _ _) H i (in_range _ _ Hi)) as H2. cbv beta in H2.
  apply andb_true_iff in H2. destruct H2 as [Ha Hb]. split; apply mem_In; assumption.
Qed.

(* whatever str_to answers is a declared variant (every category, every spelling) *)
Lemma lookup_in : forall t s v, lookup t s = Some v -> In (s, v) t.
Proof.
  induction t as [| [k w] r IH]; intros s v H; cbn [lookup] in H.
  - discriminate.
  - destruct (String.eqb k s) eqn:E.
    + apply String.eqb_eq in E. inversion H. subst. left. reflexivity.
    + right. apply IH. exact H.
Qed.

Lemma str_to_declared_lemma : forall c, In c categories -> forall s p, str_to c s = Some p -> p < n_variants c.
Proof.
  intros c Hc s p H. unfold str_to in H. apply lookup_in in H.
  pose proof (proj1 (forallb_forall _ _) table_wf_ok c Hc) as Hw. unfold table_wf_b in Hw.
  pose proof (proj1 (forallb_forall _ _) Hw _ H) as H2. cbv beta in H2. cbn [fst snd] in H2.
  apply andb_true_iff in H2. destruct H2 as [H2 _]. apply N.ltb_lt. exact H2.
Qed.

(* ------------------------------------------------------------------ option resolution *)
Definition known (c : category) (l : list string) : Prop := forall n, In n l -> str_to c n <> None.
Definition has_unknown (t : SolstatToml) : Prop :=
  (exists n, In n (t_optimizations t) /\ str_to cat_opt n = None) \/
  (exists n, In n (t_vulnerabilities t) /\ str_to cat_vul n = None) \/
  (exists n, In n (t_qa t) /\ str_to cat_qa n = None).

Lemma mapM_str_to_ok : forall c l r, mapM (str_to_res c) l = Ok r -> map (str_to c) l = map Some r.
Proof.
  intros c. induction l as [| n l IH]; intros r H; cbn [mapM] in H.
  - inversion H. reflexivity.
  - unfold str_to_res in H at 1. destruct (str_to c n) as [p|] eqn:E; cbn [bind] in H; [|discriminate].
    destruct (mapM (str_to_res c) l) as [ys|s] eqn:E2; cbn [bind] in H; [|discriminate].
    inversion H. subst r. cbn [map]. rewrite E, (IH ys eq_refl). reflexivity.
Qed.

Lemma mapM_str_to_panic : forall c l s, mapM (str_to_res c) l = Panic s ->
  s = unrecognized c /\ exists n, In n l /\ str_to c n = None.
Proof.
  intros c. induction l as [| n l IH]; intros s H; cbn [mapM] in H.
  - discriminate.
  - unfold str_to_res in H at 1. destruct (str_to c n) as [p|] eqn:E; cbn [bind] in H.
    + destruct (mapM (str_to_res c) l) as [ys|s2] eqn:E2; cbn [bind] in H; [discriminate|].
      inversion H. subst s2. destruct (IH s eq_refl) as [Hs [m [Hm Em]]].
      split; [exact Hs|]. exists m. split; [right; exact Hm | exact Em].
    + inversion H. split; [reflexivity|]. exists n. split; [left; reflexivity | exact E].
Qed.

Lemma mapM_str_to_known : forall c l, known c l -> exists r, mapM (str_to_res c) l = Ok r.
Proof.
  intros c l Hk. destruct (mapM (str_to_res c) l) as [r|s] eqn:E.
  - exists r. reflexivity.
  - apply mapM_str_to_panic in E. destruct E as [_ [n [Hn En]]]. exfalso. exact (Hk n Hn En).
Qed.

Lemma mapM_str_to_unknown : forall c l n, In n l -> str_to c n = None -> exists s, mapM (str_to_res c) l = Panic s.
Proof.
  intros c l n Hn En. destruct (mapM (str_to_res c) l) as [r|s] eqn:E.
  - apply mapM_str_to_ok in E. exfalso.
    assert (In (str_to c n) (map Some r)) as Hin by (rewrite <- E; apply in_map; exact Hn).
    rewrite En in Hin. apply in_map_iff in Hin. destruct Hin as [x [Hx _]]. discriminate.
  - exists s. reflexivity.
Qed.

(* the run fails while the options are built: nothing has been analysed or written *)
Lemma unknown_fails_early_lemma : forall a f t ce, arg_toml a = Some f -> has_unknown t ->
  exists s, resolve a (Some t) ce = PanicExit s.
Proof.
  intros a f t ce Hf Hu. unfold resolve, selection. rewrite Hf.
  destruct (mapM (str_to_res cat_opt) (t_optimizations t)) as [o|s] eqn:Eo; cbn [bind].
  2: { exists s. reflexivity. }
  destruct (mapM (str_to_res cat_vul) (t_vulnerabilities t)) as [v|s] eqn:Ev; cbn [bind].
  2: { exists s. reflexivity. }
  destruct (mapM (str_to_res cat_qa) (t_qa t)) as [q|s] eqn:Eq; cbn [bind].
  2: { exists s. reflexivity. }
  exfalso. destruct Hu as [[n [Hn En]] | [[n [Hn En]] | [n [Hn En]]]].
  - destruct (mapM_str_to_unknown _ _ _ Hn En) as [s Hs]. congruence.
  - destruct (mapM_str_to_unknown _ _ _ Hn En) as [s Hs]. congruence.
  - destruct (mapM_str_to_unknown _ _ _ Hn En) as [s Hs]. congruence.
Qed.

Lemma bad_toml_fails_early_lemma : forall a f ce, arg_toml a = Some f -> exists s, resolve a None ce = PanicExit s.
Proof. intros a f ce Hf. unfold resolve, selection. rewrite Hf. exists toml_site. reflexivity. Qed.

(* with a configuration file: exactly the listed names, in the listed order *)
Lemma selection_exact_toml_lemma : forall a f t ce p o v q, arg_toml a = Some f ->
  resolve a (Some t) ce = Run p o v q ->
  map (str_to cat_opt) (t_optimizations t) = map Some o /\
  map (str_to cat_vul) (t_vulnerabilities t) = map Some v /\
  map (str_to cat_qa) (t_qa t) = map Some q.
Proof.
  intros a f t ce p o v q Hf H. unfold resolve, selection in H. rewrite Hf in H.
  destruct (mapM (str_to_res cat_opt) (t_optimizations t)) as [o'|s] eqn:Eo; cbn [bind] in H; [|discriminate].
  destruct (mapM (str_to_res cat_vul) (t_vulnerabilities t)) as [v'|s] eqn:Ev; cbn [bind] in H; [|discriminate].
  destruct (mapM (str_to_res cat_qa) (t_qa t)) as [q'|s] eqn:Eq; cbn [bind] in H; [|discriminate].
  assert (o' = o /\ v' = v /\ q' = q) as [Ho [Hv Hq]].
  { destruct (arg_path a) as [p'|]; inversion H; auto. }
  subst. repeat split; apply mapM_str_to_ok; assumption.
Qed.

(* ... and a configuration file whose names are all known never fails in option resolution *)
Lemma selection_total_toml_lemma : forall a f t ce, arg_toml a = Some f ->
  known cat_opt (t_optimizations t) -> known cat_vul (t_vulnerabilities t) -> known cat_qa (t_qa t) ->
  exists o v q, resolve a (Some t) ce = Run (match arg_path a with Some p => p | None => t_path t end) o v q.
Proof.
  intros a f t ce Hf Ko Kv Kq. unfold resolve, selection. rewrite Hf.
  destruct (mapM_str_to_known _ _ Ko) as [o Eo]. destruct (mapM_str_to_known _ _ Kv) as [v Ev].
  destruct (mapM_str_to_known _ _ Kq) as [q Eq]. rewrite Eo, Ev, Eq. cbn [bind].
  exists o, v, q. destruct (arg_path a) as [p|]; reflexivity.
Qed.

(* without a configuration file: the default lists *)
Lemma selection_exact_default_lemma : forall a t ce p o v q, arg_toml a = None ->
  resolve a t ce = Run p o v q -> o = get_all cat_opt /\ v = get_all cat_vul /\ q = get_all cat_qa.
Proof.
  intros a t ce p o v q Hf H. unfold resolve, selection in H. rewrite Hf in H.
  destruct (arg_path a) as [p'|].
  - inversion H. auto.
  - destruct ce; inversion H. auto.
Qed.

(* the directory: --path, else the configuration file's path, else ./contracts *)
Lemma path_flag_lemma : forall a t ce p p' o v q, arg_path a = Some p -> resolve a t ce = Run p' o v q -> p' = p.
Proof.
  intros a t ce p p' o v q Hp H. unfold resolve in H.
  destruct (selection a t) as [[[[tp o'] v'] q']|s]; [|discriminate].
  rewrite Hp in H. inversion H. reflexivity.
Qed.

Lemma path_toml_lemma : forall a f t ce p' o v q, arg_path a = None -> arg_toml a = Some f ->
  resolve a (Some t) ce = Run p' o v q -> p' = t_path t.
Proof.
  intros a f t ce p' o v q Hp Hf H. unfold resolve, selection in H. rewrite Hf, Hp in H.
  destruct (mapM (str_to_res cat_opt) (t_optimizations t)) as [o'|s]; cbn [bind] in H; [|discriminate].
  destruct (mapM (str_to_res cat_vul) (t_vulnerabilities t)) as [v'|s]; cbn [bind] in H; [|discriminate].
  destruct (mapM (str_to_res cat_qa) (t_qa t)) as [q'|s]; cbn [bind] in H; [|discriminate].
  inversion H. reflexivity.
Qed.

Lemma path_default_lemma : forall a t, arg_path a = None -> arg_toml a = None ->
  resolve a t true = Run default_dir (get_all cat_opt) (get_all cat_vul) (get_all cat_qa) /\
  resolve a t false = Exit1.
Proof.
  intros a t Hp Hf. unfold resolve, selection. rewrite Hf, Hp. split; reflexivity.
Qed.

(* process::exit(1) happens only when nothing names a directory and ./contracts is missing *)
Lemma exit1_only_lemma : forall a t ce, resolve a t ce = Exit1 -> arg_path a = None /\ arg_toml a = None /\ ce = false.
Proof.
  intros a t ce H. unfold resolve, selection in H.
  destruct (arg_toml a) as [f|].
  - destruct t as [t|]; [|discriminate].
    destruct (mapM (str_to_res cat_opt) (t_optimizations t)) as [o'|s]; cbn [bind] in H; [|discriminate].
    destruct (mapM (str_to_res cat_vul) (t_vulnerabilities t)) as [v'|s]; cbn [bind] in H; [|discriminate].
    destruct (mapM (str_to_res cat_qa) (t_qa t)) as [q'|s]; cbn [bind] in H; [|discriminate].
    destruct (arg_path a); discriminate.
  - destruct (arg_path a); [discriminate|]. destruct ce; [discriminate|]. auto.
Qed.

(* a panic in option resolution has one of two causes *)
Lemma panic_only_lemma : forall a t ce s, resolve a t ce = PanicExit s ->
  exists f, arg_toml a = Some f /\ match t with None => True | Some cfg => has_unknown cfg end.
Proof.
  intros a t ce s H. unfold resolve, selection in H.
  destruct (arg_toml a) as [f|].
  - exists f. split; [reflexivity|]. destruct t as [t|]; [|exact I].
    destruct (mapM (str_to_res cat_opt) (t_optimizations t)) as [o'|s1] eqn:Eo; cbn [bind] in H.
    2: { left. apply mapM_str_to_panic in Eo. tauto. }
    destruct (mapM (str_to_res cat_vul) (t_vulnerabilities t)) as [v'|s2] eqn:Ev; cbn [bind] in H.
    2: { right. left. apply mapM_str_to_panic in Ev. tauto. }
    destruct (mapM (str_to_res cat_qa) (t_qa t)) as [q'|s3] eqn:Eq; cbn [bind] in H.
    2: { right. right. apply mapM_str_to_panic in Eq. tauto. }
    destruct (arg_path a); discriminate.
  - destruct (arg_path a); [discriminate|]. destruct ce; discriminate.
Qed.

(* ------------------------------------------------------------------ examples used by props/C14.v *)
Lemma sample_toml_resolves_lemma : exists o v q,
  resolve {| arg_path := None; arg_toml := Some "Solstat.toml" |}
          (Some {| t_path := toml_sample_path; t_optimizations := toml_names cat_opt;
                   t_vulnerabilities := toml_names cat_vul; t_qa := toml_names cat_qa |}) false
  = Run toml_sample_path o v q /\
  List.length o = List.length (toml_names cat_opt) /\ List.length v = List.length (toml_names cat_vul) /\
  List.length q = List.length (toml_names cat_qa).
Proof. vm_compute. do 3 eexists. repeat split. Qed.

Lemma flag_beats_toml_path_lemma : exists o v q,
  resolve {| arg_path := Some "src"; arg_toml := Some "cfg.toml" |}
          (Some {| t_path := "./lib"; t_optimizations := rev (doc_names cat_opt);
                   t_vulnerabilities := doc_names cat_vul ++ doc_names cat_vul; t_qa := doc_names cat_qa |}) true
  = Run "src" o v q /\ List.length v = (2 * List.length (doc_names cat_vul))%nat.
Proof. vm_compute. do 3 eexists. repeat split. Qed.

Lemma unknown_name_example_lemma :
  has_unknown {| t_path := "."; t_optimizations := []; t_vulnerabilities := [" "]; t_qa := [] |} /\
  resolve {| arg_path := Some "src"; arg_toml := Some "cfg.toml" |}
          (Some {| t_path := "."; t_optimizations := []; t_vulnerabilities := [" "]; t_qa := [] |}) true
  = PanicExit "Unrecgonized vulnerability".
Proof.
  split; [| vm_compute; reflexivity].
  right. left. exists " ". split; [left; reflexivity | vm_compute; reflexivity].
Qed.

Lemma casing_example_lemma : casing_of "sstore" "SsToRe" /\ forall c, str_to c "SsToRe" = str_to c "sstore".
Proof.
  split; [| intro c; reflexivity].
  repeat first [ apply co_nil | apply co_cons ];
    first [ apply sl_same | apply (sl_upper "S"%char); vm_compute; split; discriminate
          | apply (sl_upper "T"%char); vm_compute; split; discriminate
          | apply (sl_upper "R"%char); vm_compute; split; discriminate ].
Qed.
