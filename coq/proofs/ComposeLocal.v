(* C19, second sentence: "No item influences the verdict on another item: adding, removing or
   reordering unrelated items never adds or removes a finding inside an item."

   What a detector flags for an isolated item (spec/Compose.v `isolate`) depends only on the pragma
   directives of the file, as an ordered list, and on that item - not on the other items, nor on where
   the item stands among the pragmas or among the other items (`item_local`, all 28 detectors, no
   hypothesis on names or locations).  Together with the composition theorem (ComposeAll.v) this gives
   `unrelated_items_irrelevant`: a finding of an isolated item is a finding of EVERY file that has the
   same pragmas and contains that item. *)
From Coq Require Import List String Ascii NArith ZArith Bool Lia Arith.
Import ListNotations.
From Solstat Require Import Lift Pt Walk Res Nodes Utils Detectors Opt_pack WalkProof Patterns Patterns2
  DetBase DetC05 DetC05b StructLemmas SMapLemmas DetC07 DetC06 DetC08 DetC09 PackProof
  Compose Compose1 Compose2 ComposeAll.
Local Open Scope list_scope.

(* ================================================================== statements *)
(* the two files have the same pragma directives, in the same order *)
Definition same_pragmas (parts parts' : list SourceUnitPart) : Prop :=
  filter sp_is_pragma parts = filter sp_is_pragma parts'.

(* the verdict of d on an isolated item is a function of the pragma list and of the item *)
Definition item_local (d : SourceUnit -> res (list Loc)) : Prop :=
  forall parts parts' k k' p, same_pragmas parts parts' -> sp_is_pragma p = false ->
    nth_error parts k = Some p -> nth_error parts' k' = Some p ->
    forall locs, d (isolate parts k) = Ok locs ->
    exists locs', d (isolate parts' k') = Ok locs' /\ forall l, In l locs <-> In l locs'.

(* ================================================================== two isolated files of the same item *)
(* same members, same ordered list of pragma directives *)
Definition sim (A B : list SourceUnitPart) : Prop :=
  (forall q, In q A <-> In q B) /\ filter sp_is_pragma A = filter sp_is_pragma B.

Lemma sim_sym A B : sim A B -> sim B A.
Proof. intros [H1 H2]. split; [intros q; symmetry; apply H1 | symmetry; exact H2]. Qed.

Lemma sim_version A B : sim A B -> model_version (Mk_SourceUnit A) = model_version (Mk_SourceUnit B).
Proof.
  intros [_ H]. unfold model_version.
  rewrite <- (first_solidity_pragma_filter A), <- (first_solidity_pragma_filter B).
  change is_pragma_part with sp_is_pragma. rewrite H. reflexivity.
Qed.

Lemma iso_sim parts parts' k k' p :
  same_pragmas parts parts' -> nth_error parts k = Some p -> nth_error parts' k' = Some p ->
  sim (iso_parts parts k) (iso_parts parts' k').
Proof.
  unfold same_pragmas. intros Hs Hk Hk'. split.
  - intros q. rewrite !in_iso_parts.
    assert (Hf : forall P, (In q P /\ sp_is_pragma q = true) <-> In q (filter sp_is_pragma P)).
    { intros P. symmetry. apply filter_In. }
    rewrite !Hf, Hs, Hk, Hk'. reflexivity.
  - rewrite !iso_parts_pragmas. exact Hs.
Qed.

(* a detector whose verdict depends on the part list only through its members and its pragma list *)
Definition set_local (d : SourceUnit -> res (list Loc)) : Prop :=
  forall A B, sim A B -> forall ls, d (Mk_SourceUnit A) = Ok ls ->
  exists ls', d (Mk_SourceUnit B) = Ok ls' /\ forall l, In l ls <-> In l ls'.

Theorem item_local_of_set_local d : set_local d -> item_local d.
Proof.
  intros H parts parts' k k' p Hs _ Hk Hk' locs E. rewrite !isolate_eq in *.
  exact (H _ _ (iso_sim parts parts' k k' p Hs Hk Hk') locs E).
Qed.

(* ================================================================== generic lemmas (mirror Compose1.v) *)
Theorem set_local_base (d : SourceUnit -> res (list Loc)) (R : list SourceUnitPart -> SourceUnitPart -> Loc -> Prop) :
  (forall A B p l, sim A B -> R A p l -> R B p l) ->
  (forall parts ls, d (Mk_SourceUnit parts) = Ok ls ->
     forall l, In l ls <-> exists p, In p parts /\ R parts p l) ->
  (forall A B ls, sim A B -> d (Mk_SourceUnit A) = Ok ls -> exists ls', d (Mk_SourceUnit B) = Ok ls') ->
  set_local d.
Proof.
  intros Hctx Hchar Htot A B Hs ls E. destruct (Htot A B ls Hs E) as [ls' E']. exists ls'. split; [exact E'|].
  intros l. rewrite (Hchar A ls E l), (Hchar B ls' E' l). split; intros (p & Hp & HR); exists p; split.
  - apply (proj1 Hs). exact Hp.
  - exact (Hctx A B p l Hs HR).
  - apply (proj1 Hs). exact Hp.
  - exact (Hctx B A p l (sim_sym _ _ Hs) HR).
Qed.

Theorem set_local_local (d : SourceUnit -> res (list Loc)) (f : SourceUnitPart -> list Loc) :
  (forall parts, exists ls, d (Mk_SourceUnit parts) = Ok ls /\
                            forall l, In l ls <-> exists p, In p parts /\ In l (f p)) ->
  set_local d.
Proof.
  intros H. apply (set_local_base d (fun _ p l => In l (f p))).
  - intros A B p l _ HR. exact HR.
  - intros parts ls Hd l. destruct (H parts) as (ls0 & E & Hc). rewrite E in Hd. injection Hd as <-. apply Hc.
  - intros A B ls _ _. destruct (H B) as (ls0 & E & _). exists ls0. exact E.
Qed.

Theorem node_level_set (g : node -> list Loc) d :
  (forall su, g (N_SourceUnit su) = []) ->
  (forall su, exists ls, d su = Ok ls /\ forall l, In l ls <-> exists n, In n (all_nodes su) /\ In l (g n)) ->
  set_local d.
Proof.
  intros Hg H. apply (set_local_local d (fun p => flat_map g (pre_SourceUnitPart p))).
  intros parts. destruct (H (Mk_SourceUnit parts)) as (ls & E & Hc). exists ls. split; [exact E|].
  intros l. rewrite Hc. rewrite all_nodes_parts. split.
  - intros (n & [<-|Hn] & Hl); [rewrite Hg in Hl; contradiction|].
    apply in_flat_map in Hn. destruct Hn as (p & Hp & Hn). exists p. split; [exact Hp|].
    apply in_flat_map. exists n. split; assumption.
  - intros (p & Hp & Hl). apply in_flat_map in Hl. destruct Hl as (n & Hn & Hl). exists n. split; [|exact Hl].
    right. apply in_flat_map. exists p. split; assumption.
Qed.

Theorem expr_level_set_ex (g : Expression -> list Loc) d :
  (forall su, exists ls, d su = Ok ls /\ forall l, In l ls <-> In l (flat_map g (all_exprs su))) -> set_local d.
Proof.
  intros H. apply (node_level_set (fun n => match n with N_Expression e => g e | _ => [] end) d); [reflexivity|].
  intros su. destruct (H su) as (ls & E & Hc). exists ls. split; [exact E|]. intros l. rewrite Hc.
  apply in_flat_map_exprs_in.
Qed.

Theorem expr_level_set (g : Expression -> list Loc) d :
  (forall su, d su = Ok (flat_map g (all_exprs su))) -> set_local d.
Proof. intros H. apply (expr_level_set_ex g). intros su. eexists. split; [apply H|]. intros l. reflexivity. Qed.

Theorem stmt_level_set (g : Statement -> list Loc) d :
  (forall su, d su = Ok (flat_map g (all_stmts su))) -> set_local d.
Proof.
  intros H. apply (node_level_set (fun n => match n with N_Statement s => g s | _ => [] end) d); [reflexivity|].
  intros su. exists (flat_map g (all_stmts su)). split; [apply H|]. intros l. apply in_flat_map_stmts_in.
Qed.

Theorem contract_level_set (h : ContractDefinition -> list Loc) d :
  (forall su, exists ls, d su = Ok ls /\ forall l, In l ls <-> exists c, In c (contracts su) /\ In l (h c)) ->
  set_local d.
Proof.
  intros H. apply (set_local_local d (fun p => match p with SourceUnitPart_ContractDefinition c => h c | _ => [] end)).
  intros parts. destruct (H (Mk_SourceUnit parts)) as (ls & E & Hc). exists ls. split; [exact E|].
  intros l. rewrite Hc. split.
  - intros (c & Hin & Hl). exists (SourceUnitPart_ContractDefinition c). split; [apply in_contracts; exact Hin|exact Hl].
  - intros (p & Hp & Hl). destruct p; try contradiction Hl. eexists. split; [apply in_contracts; exact Hp|exact Hl].
Qed.

(* a closed form gated by the version of the first `pragma solidity` *)
Theorem gated_set d (gate : version -> bool) (h : SourceUnit -> list Loc) (hp : SourceUnitPart -> list Loc) :
  (forall parts l, In l (h (Mk_SourceUnit parts)) <-> exists p, In p parts /\ In l (hp p)) ->
  (forall su ls, d su = Ok ls ->
     ls = match model_version su with None => [] | Some v => gated (gate v) (h su) end) ->
  (forall A B ls, sim A B -> d (Mk_SourceUnit A) = Ok ls -> exists ls', d (Mk_SourceUnit B) = Ok ls') ->
  set_local d.
Proof.
  intros Hh Hclosed Htot.
  apply (set_local_base d (fun parts p l =>
           In l (match model_version (Mk_SourceUnit parts) with
                 | None => [] | Some v => gated (gate v) (hp p) end))).
  - intros A B p l Hs HR. rewrite <- (sim_version A B Hs). exact HR.
  - intros parts ls Hd l. rewrite (Hclosed _ _ Hd).
    destruct (model_version (Mk_SourceUnit parts)) as [v|].
    + unfold gated. destruct (gate v).
      * apply Hh.
      * split; [contradiction|]. intros (p & _ & []).
    + split; [contradiction|]. intros (p & _ & []).
  - exact Htot.
Qed.

(* ================================================================== expression / statement level *)
Theorem address_balance_set : set_local address_balance_optimization.
Proof. eapply expr_level_set. intros su. rewrite address_balance_closed. reflexivity. Qed.

Theorem address_zero_set : set_local address_zero_optimization.
Proof. eapply expr_level_set. intros su. rewrite address_zero_closed. reflexivity. Qed.

Theorem assign_update_array_set : set_local assign_update_array_optimization.
Proof. eapply expr_level_set. intros su. rewrite assign_update_closed. reflexivity. Qed.

Theorem bool_equals_bool_set : set_local bool_equals_bool_optimization.
Proof. eapply expr_level_set. intros su. rewrite bool_equals_bool_closed. reflexivity. Qed.

Theorem cache_array_length_set : set_local cache_array_length_optimization.
Proof. eapply stmt_level_set. intros su. rewrite cache_array_length_closed. reflexivity. Qed.

Theorem multiple_require_set : set_local multiple_require_optimization.
Proof. eapply expr_level_set_ex. intros su. apply multiple_require_closed. Qed.

Theorem optimal_comparison_set : set_local optimal_comparison_optimization.
Proof. eapply expr_level_set. intros su. rewrite optimal_comparison_closed. reflexivity. Qed.

Theorem shift_math_set : set_local shift_math_optimization.
Proof. eapply expr_level_set. intros su. rewrite shift_math_closed. reflexivity. Qed.

Theorem solidity_keccak256_set : set_local solidity_keccak256_optimization.
Proof. eapply expr_level_set. intros su. rewrite solidity_keccak256_closed. reflexivity. Qed.

Theorem solidity_math_set : set_local solidity_math_optimization.
Proof. eapply expr_level_set. intros su. rewrite solidity_math_closed. reflexivity. Qed.

Theorem unsafe_erc20_operation_set : set_local unsafe_erc20_operation_vulnerability.
Proof. eapply expr_level_set. intros su. rewrite unsafe_erc20_closed. reflexivity. Qed.

Theorem divide_before_multiply_set : set_local divide_before_multiply_vulnerability.
Proof. eapply expr_level_set. intros su. rewrite divide_before_multiply_closed. reflexivity. Qed.

(* ================================================================== declaration level *)
Theorem payable_function_set : set_local payable_function_optimization.
Proof.
  eapply contract_level_set. intros su. eexists. split; [apply payable_function_closed|].
  intros l. unfold spec_payable_function, member_functions. apply in_select_flat_map.
Qed.

Theorem private_constant_set : set_local private_constant_optimization.
Proof.
  eapply contract_level_set. intros su. eexists. split; [apply private_constant_closed|].
  intros l. unfold spec_private_constant, state_variables. apply in_select_flat_map.
Qed.

Theorem private_vars_leading_underscore_set : set_local private_vars_leading_underscore.
Proof.
  eapply contract_level_set. intros su. destruct (private_vars_closed su) as (ls & E & Hc).
  exists ls. split; [exact E|]. intros l. rewrite Hc.
  unfold spec_private_vars, state_variables. apply in_select_flat_map.
Qed.

Theorem private_func_leading_underscore_set : set_local private_func_leading_underscore.
Proof.
  eapply contract_level_set. intros su. destruct (private_func_closed su) as (ls & E & Hc).
  exists ls. split; [exact E|]. intros l. rewrite Hc.
  unfold spec_private_func, member_functions. apply in_flat_map_flat_map.
Qed.

Theorem constructor_order_qa_set : set_local constructor_order_qa.
Proof.
  eapply contract_level_set. intros su. eexists. split; [apply constructor_order_closed|].
  intros l. unfold spec_constructor_order. apply in_flat_map.
Qed.

Theorem unprotected_selfdestruct_set : set_local unprotected_selfdestruct_vulnerability.
Proof.
  eapply contract_level_set. intros su. eexists. split; [apply unprotected_selfdestruct_closed|].
  intros l. unfold spec_unprotected_selfdestruct, member_functions. apply in_flat_map_flat_map.
Qed.

Theorem floating_pragma_set : set_local floating_pragma_vulnerability.
Proof.
  eapply set_local_local. intros parts. eexists. split; [apply floating_pragma_closed|].
  intros l. unfold spec_floating_pragma, pragmas. apply in_flat_map_flat_map.
Qed.

Theorem memory_to_calldata_set : set_local memory_to_calldata_optimization.
Proof.
  eapply node_level_set.
  2:{ intros su. eexists. split; [apply memory_to_calldata_closed|].
      intros l. unfold all_functions. apply in_flat_map_flat_map. }
  intros su. reflexivity.
Qed.

(* ================================================================== version-gated *)
Theorem short_revert_string_set : set_local short_revert_string_optimization.
Proof.
  apply (gated_set _ (fun v => version_lt v v084)
           (fun su => select (fun p => (32 <=? sp_len (StringLiteral_string p))%N) StringLiteral_loc (require_strings su))
           (fun p => select (fun p => (32 <=? sp_len (StringLiteral_string p))%N) StringLiteral_loc (part_require_strings p))).
  - intros parts l. rewrite require_strings_parts. apply in_select_flat_map.
  - intros su ls H. rewrite short_revert_closed in H. injection H as <-. reflexivity.
  - intros A B ls _ _. eexists. apply short_revert_closed.
Qed.

Lemma sim_all_exprs A B e : sim A B -> In e (all_exprs (Mk_SourceUnit A)) -> In e (all_exprs (Mk_SourceUnit B)).
Proof.
  intros Hs. rewrite !Compose1.in_all_exprs. intros (p & Hp & He). exists p. split; [apply (proj1 Hs); exact Hp|exact He].
Qed.

Theorem string_error_set : set_local string_error_optimization.
Proof.
  apply (gated_set _ (fun v => version_ge v v084)
           (fun su => map StringLiteral_loc (require_strings su))
           (fun p => map StringLiteral_loc (part_require_strings p))).
  - intros parts l. rewrite require_strings_parts, map_flat_map. apply in_flat_map.
  - exact string_error_closed_cond.
  - intros A B ls Hs H. apply string_error_ok_of_wf. apply string_error_ok_inv in H.
    unfold string_error_gate_wf in *. rewrite <- (sim_version A B Hs).
    destruct (model_version (Mk_SourceUnit A)) as [v|]; [|exact I].
    intros G. specialize (H G). unfold wf_require_strings in *. rewrite forallb_forall in *.
    intros e He. apply H. exact (sim_all_exprs B A e (sim_sym _ _ Hs) He).
Qed.

(* ================================================================== packing *)
Theorem pack_storage_variables_set : set_local pack_storage_variables_optimization.
Proof.
  apply (set_local_base _ (fun _ p l => exists c, p = SourceUnitPart_ContractDefinition c /\ l = ContractDefinition_loc c /\
                                                  can_be_packed (contract_variable_sizes c) = Ok true)).
  - intros A B p l _ HR. exact HR.
  - intros parts ls H l. rewrite (pack_storage_exact_lemma parts ls H l). split.
    + intros (c & Hc & Hl & Hb). exists (SourceUnitPart_ContractDefinition c). split; [exact Hc|].
      exists c. repeat split; assumption.
    + intros (p & Hp & c & -> & Hl & Hb). exists c. repeat split; assumption.
  - intros A B ls Hs H. apply pack_storage_total_lemma. intros c Hc.
    apply (pack_storage_ok_inv A ls H). apply (proj1 Hs). exact Hc.
Qed.

Theorem pack_struct_variables_set : set_local pack_struct_variables_optimization.
Proof.
  apply (set_local_base _ (fun _ p l => exists s, struct_of_file [p] s /\ l = StructDefinition_loc s /\
                                                  can_be_packed (struct_variable_sizes s) = Ok true)).
  - intros A B p l _ HR. exact HR.
  - intros parts ls H l. rewrite (pack_struct_exact_lemma parts ls H l). split.
    + intros (s & Hs & Hl & Hb). apply struct_of_file_parts in Hs. destruct Hs as (p & Hp & Hs).
      exists p. split; [exact Hp|]. exists s. repeat split; assumption.
    + intros (p & Hp & s & Hs & Hl & Hb). exists s. split; [|split; assumption].
      apply struct_of_file_parts. exists p. split; assumption.
  - intros A B ls Hsim H. apply pack_struct_total_lemma. intros s Hs.
    apply (pack_struct_ok_inv A ls H). apply struct_of_file_parts in Hs. destruct Hs as (p & Hp & Hs).
    apply struct_of_file_parts. exists p. split; [apply (proj1 Hsim); exact Hp|exact Hs].
Qed.

(* ================================================================== increment_decrement *)
(* the exemption looks at the unchecked blocks of the isolated file only: those of the item *)
Theorem increment_decrement_set : set_local increment_decrement_optimization.
Proof.
  intros A B Hs ls E. rewrite increment_decrement_closed in E. injection E as <-.
  eexists. split; [apply increment_decrement_closed|]. intros l. rewrite !in_spec_incdec.
  destruct Hs as [Hs _]. split; intros [(p & Hp & Hl) Hex]; (split; [exists p; split; [apply Hs; exact Hp|exact Hl]|]).
  - intros q Hq. apply Hex. apply Hs. exact Hq.
  - intros q Hq. apply Hex. apply Hs. exact Hq.
Qed.

(* ================================================================== the three name-table detectors *)
(* their closed forms look at the file only through its expressions, its state variables (in order) and
   its member functions; in an isolated file these are those of the item *)
Lemma sstore_F_view su su' :
  all_exprs su = all_exprs su' -> state_variables su = state_variables su' ->
  forall l, In l (sstore_F su) <-> In l (sstore_F su').
Proof. intros He Hv l. rewrite !sstore_F_in. unfold sv_table. rewrite He, Hv. reflexivity. Qed.

Lemma constant_F_view su su' :
  all_exprs su = all_exprs su' -> state_variables su = state_variables su' ->
  forall l, In l (constant_F su) <-> In l (constant_F su').
Proof. intros He Hv l. rewrite !constant_F_in. unfold sv_table. rewrite He, Hv. reflexivity. Qed.

Lemma immutable_F_view su su' :
  state_variables su = state_variables su' -> member_functions su = member_functions su' ->
  forall l, In l (immutable_F su) <-> In l (immutable_F su').
Proof. intros Hv Hf l. rewrite !immutable_F_in. unfold sv_table, ctor_assigns, WO. rewrite Hv, Hf. reflexivity. Qed.

Theorem item_local_of_view (d : SourceUnit -> res (list Loc)) (F : SourceUnit -> list Loc) :
  (forall su, d su = Ok (F su)) ->
  (forall su su', all_exprs su = all_exprs su' -> state_variables su = state_variables su' ->
                  member_functions su = member_functions su' -> forall l, In l (F su) <-> In l (F su')) ->
  item_local d.
Proof.
  intros Hd HF parts parts' k k' p _ _ Hk Hk' locs E.
  apply nth_error_split in Hk. destruct Hk as (P1 & P2 & -> & <-).
  apply nth_error_split in Hk'. destruct Hk' as (P1' & P2' & -> & <-).
  rewrite isolate_split in *. rewrite Hd in E. injection E as <-.
  eexists. split; [apply Hd|]. apply HF.
  - rewrite !iso_exprs. reflexivity.
  - rewrite !iso_vars. reflexivity.
  - rewrite !iso_fns. reflexivity.
Qed.

Theorem sstore_item_local : item_local sstore_optimization.
Proof. apply (item_local_of_view _ sstore_F); [exact sstore_closed|]. intros su su' He Hv _. apply sstore_F_view; assumption. Qed.

Theorem constant_variable_item_local : item_local constant_variable_optimization.
Proof. apply (item_local_of_view _ constant_F); [exact constant_closed|]. intros su su' He Hv _. apply constant_F_view; assumption. Qed.

Theorem immutable_variables_item_local : item_local immutable_variables_optimization.
Proof. apply (item_local_of_view _ immutable_F); [exact immutable_closed|]. intros su su' _ Hv Hf. apply immutable_F_view; assumption. Qed.

(* ================================================================== all 28 *)
Theorem item_local_all : Forall item_local c19_detectors.
Proof.
  unfold c19_detectors.
  repeat match goal with |- Forall _ (_ :: _) => constructor | |- Forall _ [] => constructor end;
    first [ exact constant_variable_item_local | exact immutable_variables_item_local | exact sstore_item_local
          | apply item_local_of_set_local ].
  - exact address_balance_set.
  - exact address_zero_set.
  - exact assign_update_array_set.
  - exact bool_equals_bool_set.
  - exact cache_array_length_set.
  - exact increment_decrement_set.
  - exact memory_to_calldata_set.
  - exact multiple_require_set.
  - exact optimal_comparison_set.
  - exact pack_storage_variables_set.
  - exact pack_struct_variables_set.
  - exact payable_function_set.
  - exact private_constant_set.
  - exact shift_math_set.
  - exact short_revert_string_set.
  - exact solidity_keccak256_set.
  - exact solidity_math_set.
  - exact string_error_set.
  - exact divide_before_multiply_set.
  - exact floating_pragma_set.
  - exact unprotected_selfdestruct_set.
  - exact unsafe_erc20_operation_set.
  - exact constructor_order_qa_set.
  - exact private_func_leading_underscore_set.
  - exact private_vars_leading_underscore_set.
Qed.

(* ---- the isolated item in canonical form: the pragma list followed by the item *)
Lemma filter_idem {A} (f : A -> bool) l : filter f (filter f l) = filter f l.
Proof.
  induction l as [|x l IH]; [reflexivity|]. cbn [filter]. destruct (f x) eqn:E; [|exact IH].
  cbn [filter]. rewrite E, IH. reflexivity.
Qed.

Theorem item_local_canonical : forall d, In d c19_detectors ->
  forall parts k p, sp_is_pragma p = false -> nth_error parts k = Some p ->
  forall locs, d (isolate parts k) = Ok locs ->
  exists locs', d (Mk_SourceUnit (filter sp_is_pragma parts ++ [p])) = Ok locs' /\ forall l, In l locs <-> In l locs'.
Proof.
  intros d Hd parts k p Hp Hk locs E.
  pose proof (proj1 (Forall_forall _ _) item_local_all d Hd) as Hl.
  destruct (Hl parts (filter sp_is_pragma parts ++ [p]) k (List.length (filter sp_is_pragma parts)) p) with (locs := locs)
    as (locs' & E' & Hiff).
  - unfold same_pragmas. rewrite filter_app, filter_idem. cbn [filter]. rewrite Hp. rewrite app_nil_r. reflexivity.
  - exact Hp.
  - exact Hk.
  - apply nth_error_app_mid.
  - exact E.
  - exists locs'. split; [|exact Hiff]. rewrite isolate_split in E'. cbn [filter] in E'. rewrite filter_idem in E'. exact E'.
Qed.

(* ================================================================== with the composition theorem *)
(* every finding of a whole file is a finding of one of its isolated items, and conversely *)
Theorem whole_file_findings_by_item : forall d, In d c19_detectors ->
  forall parts, item_indices parts <> [] -> no_cross_mentions parts -> incdec_locs_separate parts ->
  forall locs, d (Mk_SourceUnit parts) = Ok locs ->
  forall l, In l locs <->
            exists j q lj, nth_error parts j = Some q /\ sp_is_pragma q = false /\
                           d (isolate parts j) = Ok lj /\ In l lj.
Proof.
  intros d Hd parts Hne Hn Hsep locs E l.
  destruct (proj1 (Forall_forall _ _) compose_all_lemma d Hd parts Hne Hn Hsep locs E) as (locss & Em & Hiff).
  rewrite Hiff, (mapM_concat_in _ _ _ Em). split.
  - intros (j & lj & Hj & Ej & Hl). apply in_item_indices in Hj. destruct Hj as (q & Hq & Hb).
    exists j, q, lj. repeat split; assumption.
  - intros (j & q & lj & Hq & Hb & Ej & Hl). exists j, lj. split; [|split; assumption].
    apply in_item_indices. exists q. split; assumption.
Qed.

Lemma item_indices_nonempty parts k p : nth_error parts k = Some p -> sp_is_pragma p = false -> item_indices parts <> [].
Proof.
  intros Hk Hp E. assert (H : In k (item_indices parts)) by (apply in_item_indices; exists p; split; assumption).
  rewrite E in H. contradiction H.
Qed.

(* adding, removing or reordering other items never removes (nor adds) a finding inside an item: what is
   flagged in the item p on its own is flagged in every file with the same pragmas that contains p *)
Theorem unrelated_items_irrelevant : forall d, In d c19_detectors ->
  forall parts parts' k k' p, same_pragmas parts parts' -> sp_is_pragma p = false ->
  nth_error parts k = Some p -> nth_error parts' k' = Some p ->
  no_cross_mentions parts -> incdec_locs_separate parts ->
  no_cross_mentions parts' -> incdec_locs_separate parts' ->
  forall locs locs' lk, d (Mk_SourceUnit parts) = Ok locs -> d (Mk_SourceUnit parts') = Ok locs' ->
  d (isolate parts k) = Ok lk ->
  forall l, In l lk -> In l locs /\ In l locs'.
Proof.
  intros d Hd parts parts' k k' p Hs Hp Hk Hk' Hn Hsep Hn' Hsep' locs locs' lk E E' Ek l Hl.
  destruct (proj1 (Forall_forall _ _) item_local_all d Hd parts parts' k k' p Hs Hp Hk Hk' lk Ek) as (lk' & Ek' & Hiff).
  split.
  - apply (whole_file_findings_by_item d Hd parts (item_indices_nonempty _ _ _ Hk Hp) Hn Hsep locs E l).
    exists k, p, lk. repeat split; assumption.
  - apply (whole_file_findings_by_item d Hd parts' (item_indices_nonempty _ _ _ Hk' Hp) Hn' Hsep' locs' E' l).
    exists k', p, lk'. repeat split; try assumption. apply Hiff. exact Hl.
Qed.

(* the same, for the findings of the two whole files: a finding of `parts` that lies in the shared item p
   (i.e. is a finding of p on its own) is a finding of `parts'`, and conversely *)
Theorem shared_item_same_findings : forall d, In d c19_detectors ->
  forall parts parts' k k' p, same_pragmas parts parts' -> sp_is_pragma p = false ->
  nth_error parts k = Some p -> nth_error parts' k' = Some p ->
  no_cross_mentions parts -> incdec_locs_separate parts ->
  no_cross_mentions parts' -> incdec_locs_separate parts' ->
  forall locs locs', d (Mk_SourceUnit parts) = Ok locs -> d (Mk_SourceUnit parts') = Ok locs' ->
  exists lk lk', d (isolate parts k) = Ok lk /\ d (isolate parts' k') = Ok lk' /\
                 (forall l, In l lk <-> In l lk') /\
                 (forall l, In l lk -> In l locs /\ In l locs').
Proof.
  intros d Hd parts parts' k k' p Hs Hp Hk Hk' Hn Hsep Hn' Hsep' locs locs' E E'.
  destruct (proj1 (Forall_forall _ _) compose_all_lemma d Hd parts (item_indices_nonempty _ _ _ Hk Hp) Hn Hsep locs E)
    as (locss & Em & _).
  destruct (mapM_ok_each _ _ _ Em k) as [lk Ek]; [apply in_item_indices; exists p; split; assumption|].
  destruct (proj1 (Forall_forall _ _) item_local_all d Hd parts parts' k k' p Hs Hp Hk Hk' lk Ek) as (lk' & Ek' & Hiff).
  exists lk, lk'. split; [exact Ek|]. split; [exact Ek'|]. split; [exact Hiff|].
  intros l Hl. exact (unrelated_items_irrelevant d Hd parts parts' k k' p Hs Hp Hk Hk' Hn Hsep Hn' Hsep' locs locs' lk E E' Ek l Hl).
Qed.

(* ---- non-vacuity: ComposeAll.ex_parts (pragma; contract A; contract B; free function fr) against the file
   in which B is removed and A and fr are swapped: same pragmas, A shared (position 1 resp. 2), both
   files meet the hypotheses, and the findings of A on its own appear in both whole files *)
Definition ex_parts' : list SourceUnitPart :=
  match ex_parts with [pr; a; b; fr] => [pr; fr; a] | _ => [] end.

Example ex_parts'_ok :
  filter sp_is_pragma ex_parts = filter sp_is_pragma ex_parts' /\
  nth_error ex_parts 1 = nth_error ex_parts' 2 /\
  option_map sp_is_pragma (nth_error ex_parts 1) = Some false /\
  no_cross_mentions_b ex_parts' = true /\ incdec_locs_separate_b ex_parts' = true /\
  solidity_math_optimization (isolate ex_parts 1) = Ok [L 71 76] /\
  solidity_math_optimization (isolate ex_parts' 2) = Ok [L 71 76] /\
  solidity_math_optimization (Mk_SourceUnit ex_parts') = Ok [L 213 218; L 71 76] /\
  sstore_optimization (isolate ex_parts 1) = Ok [L 67 76] /\
  sstore_optimization (Mk_SourceUnit ex_parts') = Ok [L 67 76].
Proof. vm_compute. repeat split. Qed.

Print Assumptions item_local_all.
Print Assumptions item_local_canonical.
Print Assumptions whole_file_findings_by_item.
Print Assumptions unrelated_items_irrelevant.
Print Assumptions shared_item_same_findings.
Print Assumptions ex_parts'_ok.
