(* A concrete, non-trivial directory tree and a toy per-file analysis, used by the
   `Example`s of props/C03.v, C15.v, C16.v to show that the hypotheses of the theorems are
   satisfiable and what the statements say on a value. *)
From Coq Require Import List String Ascii NArith ZArith Bool.
Import ListNotations.
From Solstat Require Import Res Dir DirSpec.
Local Open Scope string_scope.
Local Open Scope list_scope.

(* patterns 0, 1, 2.  A content starting with "x" has pattern 0 on line 1 and pattern 1 on
   lines 2 and 3; one starting with "y" has pattern 1 on line 7; "bad" is rejected by the
   parser; pattern 2 panics on contents starting with "z" and finds nothing elsewhere. *)
Definition toy (p : N) (c : string) : res (list Z) :=
  if String.eqb c "bad" then Panic "parse" else
  match p with
  | 0%N => Ok (if starts_with "x" c then [1%Z] else [])
  | 1%N => Ok (if starts_with "x" c then [2%Z; 3%Z] else if starts_with "y" c then [7%Z] else [])
  | _ => if starts_with "z" c then Panic "detector" else Ok []
  end.

(* nested directories, inert files (one unreadable, one that would be rejected by the parser),
   a .t.sol file, a .T.SOL file, an upper-case extension, the same name in two directories, an empty directory *)
Definition ex_tree : list entry :=
  [ EFile "A.sol" (Some "x1");
    EFile "README.md" None;
    EDir "src"
      [ EFile "B.sol" (Some "y");
        EFile "B.t.sol" (Some "bad");
        EDir "deep" [ EFile "C.T.SOL" None; EFile "D.sol" (Some "x2"); EFile "A.sol" (Some "x1") ];
        EFile "notes.SOL" (Some "bad") ];
    EFile "E.sol" (Some "x3");
    EFile "Counter.T.sol" (Some "bad");
    EDir "empty" [];
    EFile "F.sol" (Some "plain") ].

(* the same tree with the inert files removed *)
Definition ex_tree_pruned : list entry :=
  [ EFile "A.sol" (Some "x1");
    EDir "src"
      [ EFile "B.sol" (Some "y");
        EDir "deep" [ EFile "D.sol" (Some "x2"); EFile "A.sol" (Some "x1") ] ];
    EFile "E.sol" (Some "x3");
    EDir "empty" [];
    EFile "F.sol" (Some "plain") ].

(* the pruned tree listed in another order: the first two entries of the top directory
   swapped, and the two files of src/deep swapped *)
Definition ex_tree_reordered : list entry :=
  [ EDir "src"
      [ EFile "B.sol" (Some "y");
        EDir "deep" [ EFile "A.sol" (Some "x1"); EFile "D.sol" (Some "x2") ] ];
    EFile "A.sol" (Some "x1");
    EFile "E.sol" (Some "x3");
    EDir "empty" [];
    EFile "F.sol" (Some "plain") ].

(* what the pinned code did on a sub-directory: HashMap::extend replaces the stored vector *)
Fixpoint old_extend (m sub : list (N * list (string * list Z))) : list (N * list (string * list Z)) :=
  match sub with
  | [] => m
  | (k, v) :: r =>
      old_extend ((fix put (m : list (N * list (string * list Z))) :=
                     match m with
                     | [] => [(k, v)]
                     | (q, w) :: m' => if N.eqb q k then (q, v) :: m' else (q, w) :: put m'
                     end) m) r
  end.
