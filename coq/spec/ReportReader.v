(* Specification side of C11/C12/C13: an independent READER of solstat reports.

   It knows nothing about how a report is produced.  It is a line-oriented state machine
   that knows only
     - the KEY LINE of each pattern: the first non-blank line of its explanatory text,
     - the marker line `### Lines` that opens a list of entries,
     - the shape of an entry line  `- <file>:<decimal>`  (split at the LAST ':'),
     - (vulnerabilities) the severity heading lines `## High Risk`, `## Medium Risk`, `## Low Risk`.
   Reading a report yields, in order of appearance, every entry together with the pattern whose
   key line was seen last and the severity heading seen last. *)
From Coq Require Import List String Ascii NArith ZArith Bool DecimalString.
Import ListNotations.
From Solstat Require Import Bytes Tables Sections.
Local Open Scope string_scope.
Local Open Scope list_scope.

(* ---------------------------------------------------------------- lines *)
(* split at every LF: n line feeds give n+1 segments (the last one is what follows the last LF) *)
Fixpoint split_lines_aux (s : string) : string * list string :=
  match s with
  | EmptyString => (EmptyString, [])
  | String c r =>
      let (l, ls) := split_lines_aux r in
      if Ascii.eqb c LF then (EmptyString, l :: ls) else (String c l, ls)
  end.

Definition split_lines (s : string) : list string :=
  let (l, ls) := split_lines_aux s in l :: ls.

Definition is_space (c : ascii) : bool :=
  let n := N_of_ascii c in (N.eqb n 32 || N.eqb n 9 || N.eqb n 13)%bool.

Fixpoint is_blank (l : string) : bool :=
  match l with
  | EmptyString => true
  | String c r => is_space c && is_blank r
  end.

(* first non-blank line of a text ("" if there is none) *)
Definition key_line (text : string) : string :=
  match filter (fun l => negb (is_blank l)) (split_lines text) with
  | l :: _ => l
  | [] => EmptyString
  end.

Definition lines_marker : string := "### Lines".

(* ---------------------------------------------------------------- entry lines *)
(* split at the last ':' *)
Fixpoint split_last_colon (s : string) : option (string * string) :=
  match s with
  | EmptyString => None
  | String c r =>
      match split_last_colon r with
      | Some (a, b) => Some (String c a, b)
      | None => if Ascii.eqb c ":" then Some (EmptyString, r) else None
      end
  end.

(* a non-empty sequence of decimal digits *)
Definition parse_nat (s : string) : option N :=
  match s with
  | EmptyString => None
  | _ => option_map N.of_uint (NilEmpty.uint_of_string s)
  end.

(* optional '-' followed by digits *)
Definition parse_int (s : string) : option Z :=
  match s with
  | String c r => if Ascii.eqb c "-" then option_map (fun n => Z.opp (Z.of_N n)) (parse_nat r)
                  else option_map Z.of_N (parse_nat s)
  | EmptyString => None
  end.

(* `- <file>:<decimal>`, the file name being everything between "- " and the LAST ':' *)
Definition parse_entry (l : string) : option (string * Z) :=
  match l with
  | String c1 (String c2 r) =>
      if (Ascii.eqb c1 "-" && Ascii.eqb c2 " ")%bool then
        match split_last_colon r with
        | Some (f, d) => option_map (fun z => (f, z)) (parse_int d)
        | None => None
        end
      else None
  | _ => None
  end.

(* ---------------------------------------------------------------- the reader *)
Section Reader.
  Variable P : Type.
  Variable keys : list (string * P).        (* key line -> pattern *)
  Variable headings : list string.          (* heading lines *)

  (* state: heading seen last, pattern whose key line was seen last, inside a `### Lines` list? *)
  Definition rstate : Type := (option string * option P * bool)%type.
  Definition entry : Type := (option string * P * string * Z)%type.

  Definition is_some {A} (o : option A) : bool := match o with Some _ => true | None => false end.

  Definition step_plain (hd : option string) (cur : option P) (l : string) : rstate :=
    if existsb (String.eqb l) headings then (Some l, cur, false)
    else match assoc_str l keys with
         | Some p => (hd, Some p, false)
         | None => if String.eqb l lines_marker then (hd, cur, is_some cur) else (hd, cur, false)
         end.

  Definition step (st : rstate) (l : string) : rstate * list entry :=
    let '(hd, cur, inlist) := st in
    if inlist then
      match parse_entry l, cur with
      | Some (f, z), Some p => (st, [(hd, p, f, z)])
      | _, _ => (step_plain hd cur l, [])        (* the list ends at the first line that is no entry *)
      end
    else (step_plain hd cur l, []).

  Fixpoint run (st : rstate) (ls : list string) : rstate * list entry :=
    match ls with
    | [] => (st, [])
    | l :: r => let (st1, o1) := step st l in
                let (st2, o2) := run st1 r in (st2, o1 ++ o2)
    end.

  Definition read_report (s : string) : list entry :=
    snd (run (None, None, false) (split_lines s)).
End Reader.

Arguments step_plain {P}.
Arguments step {P}.
Arguments run {P}.
Arguments read_report {P}.
Arguments is_some {A}.

(* ---------------------------------------------------------------- the three categories *)
Definition opt_keys : list (string * Optimization) :=
  map (fun p => (key_line (optimization_section p), p)) Optimization_all.
Definition vul_keys : list (string * Vulnerability) :=
  map (fun p => (key_line (vulnerability_section p), p)) Vulnerability_all.
Definition qa_keys : list (string * QualityAssurance) :=
  map (fun p => (key_line (qa_section p), p)) QualityAssurance_all.

Definition heading_of (s : VulnerabilitySeverity) : string :=
  match s with
  | Sev_High => "## High Risk"
  | Sev_Medium => "## Medium Risk"
  | Sev_Low => "## Low Risk"
  end.
Definition vul_headings : list string := map heading_of VulnerabilitySeverity_all.

(* the severity a vulnerability must be listed under (properties.jsonl C12) *)
Definition required_severity (v : Vulnerability) : VulnerabilitySeverity :=
  let n := Vulnerability_name v in
  if String.eqb n "UnprotectedSelfdestruct" then Sev_High
  else if String.eqb n "DivideBeforeMultiply" then Sev_Medium
  else if String.eqb n "UnsafeERC20Operation" then Sev_Low
  else if String.eqb n "FloatingPragma" then Sev_Low
  else vul_severity v   (* a pattern the property does not mention: no requirement *).

Definition read_optimization_report : string -> list (option string * Optimization * string * Z) :=
  read_report opt_keys [].
Definition read_vulnerability_report : string -> list (option string * Vulnerability * string * Z) :=
  read_report vul_keys vul_headings.
Definition read_qa_report : string -> list (option string * QualityAssurance * string * Z) :=
  read_report qa_keys [].

(* the whole report file: patterns of the three categories side by side *)
Inductive AnyPattern : Type :=
  | AnyVul (v : Vulnerability)
  | AnyOpt (o : Optimization)
  | AnyQa (q : QualityAssurance).

Definition all_keys : list (string * AnyPattern) :=
  map (fun kp => (fst kp, AnyVul (snd kp))) vul_keys ++
  map (fun kp => (fst kp, AnyOpt (snd kp))) opt_keys ++
  map (fun kp => (fst kp, AnyQa (snd kp))) qa_keys.

Definition read_full_report : string -> list (option string * AnyPattern * string * Z) :=
  read_report all_keys vul_headings.

(* a category's map seen as a map over AnyPattern *)
Definition tag_findings {P : Type} (tag : P -> AnyPattern) (F : list (P * list (string * list Z)))
  : list (AnyPattern * list (string * list Z)) :=
  map (fun kv => (tag (fst kv), snd kv)) F.

(* forget the heading *)
Definition drop_heading {P : Type} (e : option string * P * string * Z) : P * string * Z :=
  let '(_, p, f, z) := e in (p, f, z).

(* ---------------------------------------------------------------- the findings, flattened *)
(* one (pattern, file, line) triple per finding *)
Definition triples {P : Type} (F : list (P * list (string * list Z))) : list (P * string * Z) :=
  flat_map (fun kv => flat_map (fun fl => map (fun z => (fst kv, fst fl, z)) (snd fl)) (snd kv)) F.

(* ---------------------------------------------------------------- the printed total *)
Definition is_digit (c : ascii) : bool :=
  let n := N_of_ascii c in (N.leb 48 n && N.leb n 57)%bool.

Fixpoint take_digits (s : string) : string :=
  match s with
  | String c r => if is_digit c then String c (take_digits r) else EmptyString
  | EmptyString => EmptyString
  end.

Fixpoint strip_prefix (p s : string) : option string :=
  match p, s with
  | EmptyString, _ => Some s
  | String a p', String b s' => if Ascii.eqb a b then strip_prefix p' s' else None
  | String _ _, EmptyString => None
  end.

(* the number that follows `heading` on the first line starting with it, if any line does *)
Definition printed_total (heading : string) (report : string) : option N :=
  match flat_map (fun l => match strip_prefix heading l with Some r => [r] | None => [] end) (split_lines report) with
  | r :: _ => parse_nat (take_digits r)
  | [] => None
  end.

(* some line of the report starts with `pre` *)
Definition has_line_starting (pre : string) (report : string) : Prop :=
  exists l, In l (split_lines report) /\ is_some (strip_prefix pre l) = true.

(* a line of the report *)
Definition has_line (l : string) (report : string) : Prop := In l (split_lines report).
Definition has_lineb (l : string) (report : string) : bool := existsb (String.eqb l) (split_lines report).

(* ---------------------------------------------------------------- hypotheses on a findings map *)
Fixpoint no_lfb (s : string) : bool :=
  match s with
  | EmptyString => true
  | String c r => negb (Ascii.eqb c LF) && no_lfb r
  end.

(* what analyze_dir builds: a pattern is entered only with a non-empty vector, a (file, lines)
   pair is pushed only when lines is non-empty; a file name contains no line feed *)
Definition wf_findings {P : Type} (F : list (P * list (string * list Z))) : Prop :=
  forall p v, In (p, v) F ->
    v <> [] /\ forall f ls, In (f, ls) v -> ls <> [] /\ no_lfb f = true.

(* only the part needed to cut the report into lines *)
Definition names_without_lf {P : Type} (F : list (P * list (string * list Z))) : Prop :=
  forall p v f ls, In (p, v) F -> In (f, ls) v -> no_lfb f = true.

(* pattern p has a finding: some file, some line *)
Definition has_finding {P : Type} (p : P) (F : list (P * list (string * list Z))) : Prop :=
  exists v f ls z, In (p, v) F /\ In (f, ls) v /\ In z ls.
