(* Specification of C02: the 1-based number of the line that contains byte offset `off`
   of the text `src` is one plus the number of line-feed bytes among the first `off`
   bytes.  Text is a string of bytes; offsets and lengths are byte counts in N.
   Nothing here looks at how the code computes a line number. *)
From Coq Require Import String Ascii NArith ZArith.
Local Open Scope N_scope.

Definition LF : ascii := ascii_of_N 10.
Definition CR : ascii := ascii_of_N 13.

Fixpoint count_lf (s : string) : N :=
  match s with
  | EmptyString => 0
  | String c r => (if Ascii.eqb c LF then 1 else 0) + count_lf r
  end.

(* the first n bytes of s (all of s when it is shorter) *)
Fixpoint take (n : N) (s : string) : string :=
  match s with
  | EmptyString => EmptyString
  | String c r => if n =? 0 then EmptyString else String c (take (n - 1) r)
  end.

(* s without its first n bytes *)
Fixpoint drop (n : N) (s : string) : string :=
  match s with
  | EmptyString => EmptyString
  | String c r => if n =? 0 then s else drop (n - 1) r
  end.

Fixpoint blen (s : string) : N :=
  match s with EmptyString => 0 | String _ r => 1 + blen r end.

(* the byte at offset n, if any *)
Fixpoint byte_at (n : N) (s : string) : option ascii :=
  match s with
  | EmptyString => None
  | String c r => if n =? 0 then Some c else byte_at (n - 1) r
  end.

Definition line_spec (src : string) (off : N) : Z :=
  (1 + Z.of_N (count_lf (take off src)))%Z.

(* the number of lines of the text fits the i32 counter of the code *)
Definition lines_lt_i32 (src : string) : Prop :=
  (1 + Z.of_N (count_lf src) < 2 ^ 31)%Z.
