(* Specification side of C03 / C15 / C16: what a directory run must deliver, written
   without looking at how analyze_dir folds over the listing.

   The only things taken from the model are the tree type `entry` (the input) and the
   boolean name filter `eligible`, used here as the decision procedure for "is a Solidity
   source that is not a test file"; the declarative reading of that filter is `sol_source`
   below and C16 proves the two equivalent (eligible_iff_sol_source). *)
From Coq Require Import List String Ascii NArith ZArith Bool Permutation.
Import ListNotations.
From Solstat Require Import Res Dir.
Local Open Scope string_scope.
Local Open Scope list_scope.

(* ------------------------------------------------------------------ names (C16) *)
Definition is_suffix (suf s : string) : Prop := exists pre, s = (pre ++ suf)%string.
Definition is_infix (x s : string) : Prop := exists a b, s = (a ++ x ++ b)%string.

(* the two characters are the same letter up to ASCII case, or the same byte *)
Definition ci_char (c d : ascii) : Prop :=
  c = d \/
  exists k, (k < 26)%N /\
    ((c = ascii_of_N (65 + k) /\ d = ascii_of_N (97 + k)) \/
     (c = ascii_of_N (97 + k) /\ d = ascii_of_N (65 + k))).

Inductive same_ci : string -> string -> Prop :=
  | same_ci_nil : same_ci "" ""
  | same_ci_cons : forall c d s t, ci_char c d -> same_ci s t -> same_ci (String c s) (String d t).

(* s ends with / contains some spelling of x in any letter case *)
Definition ends_with_ci (x s : string) : Prop := exists pre y, s = (pre ++ y)%string /\ same_ci y x.
Definition contains_ci (x s : string) : Prop := exists a y b, s = (a ++ y ++ b)%string /\ same_ci y x.

(* a Solidity source that is not a Foundry test file *)
Definition sol_source (n : string) : Prop := is_suffix ".sol" n /\ ~ contains_ci ".t.sol" n.

(* ------------------------------------------------------------------ files of a tree *)
Definition file : Type := string * option string.       (* name, content (None = unreadable) *)

(* every file at any depth, in listing order (a directory's files are listed where the
   directory stands in its parent's listing) *)
Fixpoint files_of (e : entry) : list file :=
  match e with
  | EFile n c => [(n, c)]
  | EDir _ ch => flat_map files_of ch
  end.
Definition all_files_rec (t : list entry) : list file := flat_map files_of t.
Definition eligible_files_rec (t : list entry) : list file :=
  filter (fun f => eligible (fst f)) (all_files_rec t).

(* the tree with every non-eligible file removed, at every depth (directories stay) *)
Fixpoint prune_entry (e : entry) : list entry :=
  match e with
  | EFile n c => if eligible n then [e] else []
  | EDir n ch => [EDir n (flat_map prune_entry ch)]
  end.
Definition prune (t : list entry) : list entry := flat_map prune_entry t.

(* t' is t with ONE non-eligible file (any name that is not eligible, any content,
   including None) inserted at any depth and any position *)
Inductive inert_ins : list entry -> list entry -> Prop :=
  | inert_here : forall n c l1 l2, eligible n = false ->
      inert_ins (l1 ++ l2) (l1 ++ EFile n c :: l2)
  | inert_deep : forall d ch ch' l1 l2, inert_ins ch ch' ->
      inert_ins (l1 ++ EDir d ch :: l2) (l1 ++ EDir d ch' :: l2).

(* any number of insertions and removals *)
Inductive inert_ext : list entry -> list entry -> Prop :=
  | inert_refl : forall t, inert_ext t t
  | inert_add : forall t t', inert_ins t t' -> inert_ext t t'
  | inert_del : forall t t', inert_ins t' t -> inert_ext t t'
  | inert_trans : forall t1 t2 t3, inert_ext t1 t2 -> inert_ext t2 t3 -> inert_ext t1 t3.

(* ------------------------------------------------------------------ expected result (C03) *)
Section Spec.
  Variable pattern : Type.
  Variable analyze : pattern -> string -> res (list Z).

  (* what analysing file f on its own for pattern p contributes: one (name, lines) pair when
     the analysis reports at least one line, nothing otherwise *)
  Definition finding_of (p : pattern) (f : file) : list (string * list Z) :=
    match snd f with
    | Some c => match analyze p c with
                | Ok (l :: ls) => [(fst f, l :: ls)]
                | _ => []
                end
    | None => []
    end.

  Definition triples_of (p : pattern) (v : list (string * list Z)) : list (pattern * string * list Z) :=
    map (fun nv => (p, fst nv, snd nv)) v.

  (* the multiset of (pattern, file name, line set) a run over t with patterns ps must deliver *)
  Definition expected_triples (ps : list pattern) (t : list entry) : list (pattern * string * list Z) :=
    flat_map (fun f => flat_map (fun p => triples_of p (finding_of p f)) ps) (eligible_files_rec t).

  (* discovery order: the findings for p, file by file in listing order *)
  Definition expected_vector (p : pattern) (t : list entry) : list (string * list Z) :=
    flat_map (finding_of p) (eligible_files_rec t).

  (* the content of a result map as a multiset of triples *)
  Definition flatten (m : list (pattern * list (string * list Z))) : list (pattern * string * list Z) :=
    flat_map (fun kv => triples_of (fst kv) (snd kv)) m.

  (* every vector and every line set in the map is non-empty (used by C11/C12) *)
  Definition nonempty_entries (m : list (pattern * list (string * list Z))) : Prop :=
    forall k v, In (k, v) m -> v <> [] /\ forall n ls, In (n, ls) v -> ls <> [].

  (* hypotheses of C03: the file is readable and every selected pattern analyses it without panic *)
  Definition file_ok (ps : list pattern) (f : file) : Prop :=
    exists c, snd f = Some c /\ forall p, In p ps -> exists ls, analyze p c = Ok ls.
  Definition all_ok (ps : list pattern) (t : list entry) : Prop :=
    Forall (file_ok ps) (eligible_files_rec t).

  (* the culprit of an aborted run: an eligible file that cannot be read, or whose analysis
     panics for a selected pattern *)
  Definition file_bad (ps : list pattern) (f : file) : Prop :=
    snd f = None \/ exists c p s, snd f = Some c /\ In p ps /\ analyze p c = Panic s.

  (* C15: the lines recorded for (file name, pattern) in a result map; [] = nothing recorded
     (line sets in a map are never empty) *)
  Definition verdict (v : list (string * list Z)) (name : string) : list Z :=
    match find (fun nv => String.eqb (fst nv) name) v with
    | Some (_, ls) => ls
    | None => []
    end.
End Spec.

Arguments finding_of {pattern} analyze p f.
Arguments triples_of {pattern} p v.
Arguments expected_triples {pattern} analyze ps t.
Arguments expected_vector {pattern} analyze p t.
Arguments flatten {pattern} m.
Arguments nonempty_entries {pattern} m.
Arguments file_ok {pattern} analyze ps f.
Arguments all_ok {pattern} analyze ps t.
Arguments file_bad {pattern} analyze ps f.

(* the same tree listed in another order: the listing of any directory, at any depth, permuted *)
Inductive tree_perm : list entry -> list entry -> Prop :=
  | tree_perm_here : forall l l', Permutation l l' -> tree_perm l l'
  | tree_perm_deep : forall d ch ch' l1 l2, tree_perm ch ch' ->
      tree_perm (l1 ++ EDir d ch :: l2) (l1 ++ EDir d ch' :: l2)
  | tree_perm_trans : forall a b c, tree_perm a b -> tree_perm b c -> tree_perm a c.
