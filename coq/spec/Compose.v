(* C19: what "the file analysed item by item" means.  Specification side only: the definitions
   below look at the list of top-level parts of a file, never at how a detector works.

   A top-level ITEM is every part of the file that is not a pragma directive (contract, library,
   interface, abstract contract, free function, struct, enum, event, error, file-level variable,
   type definition, using directive, import).  `isolate parts k` is the file reduced to its pragma
   directives and the item at position k, every part left at its original position in the
   remaining list and with its original locations ("analysed on its own at its original position
   with the file's pragmas kept"). *)
From Coq Require Import List String Ascii NArith ZArith Bool.
Import ListNotations.
From Solstat Require Import Lift Pt Res Patterns.
Local Open Scope list_scope.

Definition sp_is_pragma (p : SourceUnitPart) : bool :=
  match p with SourceUnitPart_PragmaDirective _ _ _ => true | _ => false end.

(* parts paired with their position *)
Definition indexed {A} (l : list A) : list (nat * A) := combine (seq 0 (List.length l)) l.

Definition isolate (parts : list SourceUnitPart) (k : nat) : SourceUnit :=
  Mk_SourceUnit (map snd (filter (fun ip => sp_is_pragma (snd ip) || Nat.eqb (fst ip) k) (indexed parts))).

Definition item_indices (parts : list SourceUnitPart) : list nat :=
  map fst (filter (fun ip => negb (sp_is_pragma (snd ip))) (indexed parts)).

(* names an item declares as state variables / names it mentions as a variable (an identifier used as
   an expression, at any depth: this is the only way a detector can relate code to a state variable) *)
Definition item_state_vars (p : SourceUnitPart) : list string :=
  match p with
  | SourceUnitPart_ContractDefinition c => map (fun v => idname (VariableDefinition_name v)) (variables_of c)
  | _ => []
  end.
Definition item_var_mentions (p : SourceUnitPart) : list string :=
  flat_map (fun e => match e with Expression_Variable id => [idname id] | _ => [] end)
           (exprs_in (pre_SourceUnitPart p)).

(* "top-level items that do not mention each other's state-variable names": a state-variable name of
   one item is neither used as a variable nor declared as a state variable in another item *)
Definition no_cross_mentions (parts : list SourceUnitPart) : Prop :=
  forall i j p q, i <> j -> nth_error parts i = Some p -> nth_error parts j = Some q ->
  forall x, In x (item_state_vars p) -> ~ In x (item_var_mentions q) /\ ~ In x (item_state_vars q).

(* boolean version, evaluated by the check on every generated file *)
Definition no_cross_mentions_b (parts : list SourceUnitPart) : bool :=
  forallb (fun ip =>
    forallb (fun jq =>
      Nat.eqb (fst ip) (fst jq) ||
      forallb (fun x => negb (existsb (String.eqb x) (item_var_mentions (snd jq)))
                        && negb (existsb (String.eqb x) (item_state_vars (snd jq))))
              (item_state_vars (snd ip)))
      (indexed parts))
    (indexed parts).

(* The property, for one detector d: whenever the whole file is analysed without a panic, so is every
   isolated item, and a construct is flagged in the whole file iff it is flagged in one of the
   isolated files.  (Findings are sets of locations; locations are untouched by `isolate`.) *)
Definition composes (d : SourceUnit -> res (list Loc)) : Prop :=
  forall parts, item_indices parts <> [] -> no_cross_mentions parts ->
  forall locs, d (Mk_SourceUnit parts) = Ok locs ->
  exists locss, mapM (fun k => d (isolate parts k)) (item_indices parts) = Ok locss /\
                forall l, In l locs <-> In l (List.concat locss).

(* "No item influences the verdict on another item": what is flagged inside the isolated item k is a
   function of the pragma directives and of that item alone - by construction of `isolate`; stated for
   two files that agree on their pragmas and on one item. *)
Definition same_isolated (parts parts' : list SourceUnitPart) (k k' : nat) : Prop :=
  isolate parts k = isolate parts' k'.
