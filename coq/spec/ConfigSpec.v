(* Declarative notions used by the statements of C14.  Nothing here looks at how the
   code decides anything. *)
From Coq Require Import List String Ascii NArith.
Import ListNotations.
Local Open Scope N_scope.

(* two bytes are the same letter up to case: equal, or an ASCII capital A-Z (65..90) and its
   small letter (code + 32) *)
Inductive same_letter : ascii -> ascii -> Prop :=
  | sl_same : forall c, same_letter c c
  | sl_lower : forall c, 65 <= N_of_ascii c <= 90 -> same_letter c (ascii_of_N (N_of_ascii c + 32))
  | sl_upper : forall c, 65 <= N_of_ascii c <= 90 -> same_letter (ascii_of_N (N_of_ascii c + 32)) c.

(* s' is a re-casing of s: same length, position-wise the same letter up to case *)
Inductive casing_of : string -> string -> Prop :=
  | co_nil : casing_of EmptyString EmptyString
  | co_cons : forall a b s t, same_letter a b -> casing_of s t -> casing_of (String a s) (String b t).
