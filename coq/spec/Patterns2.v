(* Specification of the mutability detectors (C08) and the version-gated detectors (C09). *)
From Coq Require Import List String Ascii NArith ZArith Bool.
Import ListNotations.
From Solstat Require Import Lift Pt Patterns.
Local Open Scope string_scope.

(* ---------------------------------------------------------------- C08 *)
Definition var_name (v : VariableDefinition) : string := idname (VariableDefinition_name v).
Definition state_var_names (su : SourceUnit) : list string := map var_name (state_variables su).

Fixpoint nodupb (l : list string) : bool :=
  match l with [] => true | x :: r => negb (existsb (String.eqb x) r) && nodupb r end.

(* the 15 write forms whose target is exactly an identifier *)
Definition sp_write_target (e : Expression) : option Expression :=
  match e with
  | Expression_Assign _ l _ | Expression_PreIncrement _ l | Expression_PostIncrement _ l
  | Expression_PreDecrement _ l | Expression_PostDecrement _ l | Expression_AssignAdd _ l _
  | Expression_AssignAnd _ l _ | Expression_AssignDivide _ l _ | Expression_AssignModulo _ l _
  | Expression_AssignMultiply _ l _ | Expression_AssignOr _ l _ | Expression_AssignShiftLeft _ l _
  | Expression_AssignShiftRight _ l _ | Expression_AssignSubtract _ l _ | Expression_AssignXor _ l _ => Some l
  | _ => None end.
Definition sp_written (e : Expression) : list string :=
  match sp_write_target e with Some (Expression_Variable id) => [idname id] | _ => [] end.
Definition written_in (ns : list node) : list string := flat_map sp_written (exprs_in ns).
Definition mem_str (x : string) (l : list string) : bool := existsb (String.eqb x) l.

(* declared with one of: bool address `address payable` string bytes uintN intN bytesN *)
Definition sp_elementary (ty : Expression) : bool :=
  match ty with
  | Expression_Type _ t =>
      match t with
      | Ty_Address | Ty_AddressPayable | Ty_Bool | Ty_String | Ty_Int _ | Ty_Uint _ | Ty_Bytes _ | Ty_DynamicBytes => true
      | _ => false end
  | _ => false end.
Definition sp_value_typed (ty : Expression) : bool :=
  match ty with
  | Expression_Type _ t =>
      match t with
      | Ty_Address | Ty_AddressPayable | Ty_Bool | Ty_Int _ | Ty_Uint _ | Ty_Bytes _ => true
      | _ => false end
  | _ => false end.
(* what MAY be treated as a candidate: any built-in type expression other than a mapping *)
Definition sp_builtin_nonmapping (ty : Expression) : bool :=
  match ty with
  | Expression_Type _ t => match t with Ty_Mapping _ _ _ => false | _ => true end
  | _ => false end.
Definition sp_type_loc (v : VariableDefinition) : Loc :=
  match VariableDefinition_ty v with Expression_Type l _ => l | _ => VariableDefinition_loc v end.
Definition sp_vattr_immutable (a : VariableAttribute) : bool :=
  match a with VariableAttribute_Immutable _ => true | _ => false end.
Definition sp_is_immutable (v : VariableDefinition) : bool := existsb sp_vattr_immutable (VariableDefinition_attrs v).

Definition vars_where (p : VariableDefinition -> bool) (su : SourceUnit) : list Loc :=
  select p sp_type_loc (state_variables su).

(* constant_variables *)
Definition canon_constant (su : SourceUnit) : list Loc :=
  vars_where (fun v => sp_elementary (VariableDefinition_ty v) && negb (sp_is_constant v)
                       && negb (mem_str (var_name v) (written_in (all_nodes su)))) su.
Definition match_constant (su : SourceUnit) : list Loc :=
  vars_where (fun v => sp_builtin_nonmapping (VariableDefinition_ty v) && negb (sp_is_constant v)
                       && negb (mem_str (var_name v) (written_in (all_nodes su)))) su.

(* immutable_variables *)
Definition ctor_parts (su : SourceUnit) : list ContractPart :=
  flat_map (fun c => filter (fun p => match p with ContractPart_FunctionDefinition f => sp_is_ctor f | _ => false end)
                            (ContractDefinition_parts c)) (contracts su).
Definition non_ctor_fn_parts (su : SourceUnit) : list ContractPart :=
  flat_map (fun c => filter (fun p => match p with ContractPart_FunctionDefinition f => negb (sp_is_ctor f) | _ => false end)
                            (ContractDefinition_parts c)) (contracts su).
Definition sp_value_looking (rhs : Expression) : bool :=
  match rhs with
  | Expression_StringLiteral _ => false
  | Expression_FunctionCall _ (Expression_MemberAccess _ (Expression_Variable id) _) _ => negb (String.eqb (idname id) "abi")
  | Expression_FunctionCall _ (Expression_Type _ Ty_DynamicBytes) _ => false
  | _ => true end.
(* names x with a plain assignment `x = rhs` (rhs satisfying p) inside a constructor *)
Definition ctor_assigned (p : Expression -> bool) (su : SourceUnit) : list string :=
  flat_map (fun cp => flat_map (fun e => match e with
                                         | Expression_Assign _ (Expression_Variable id) rhs => if p rhs then [idname id] else []
                                         | _ => [] end)
                               (exprs_in (pre_ContractPart cp))) (ctor_parts su).
Definition written_outside_ctor (su : SourceUnit) : list string :=
  flat_map (fun cp => written_in (pre_ContractPart cp)) (non_ctor_fn_parts su).
Definition canon_immutable (su : SourceUnit) : list Loc :=
  vars_where (fun v => sp_value_typed (VariableDefinition_ty v) && negb (sp_is_constant v) && negb (sp_is_immutable v)
                       && mem_str (var_name v) (ctor_assigned sp_value_looking su)
                       && negb (mem_str (var_name v) (written_outside_ctor su))) su.
Definition match_immutable (su : SourceUnit) : list Loc :=
  vars_where (fun v => sp_builtin_nonmapping (VariableDefinition_ty v) && negb (sp_is_constant v) && negb (sp_is_immutable v)
                       && mem_str (var_name v) (ctor_assigned (fun _ => true) su)
                       && negb (mem_str (var_name v) (written_outside_ctor su))) su.

(* memory_to_calldata *)
Definition all_functions (su : SourceUnit) : list FunctionDefinition :=
  flat_map (fun n => match n with
                     | N_ContractPart (ContractPart_FunctionDefinition f) => [f]
                     | N_SourceUnitPart (SourceUnitPart_FunctionDefinition f) => [f]
                     | _ => [] end) (all_nodes su).
Definition memory_params (f : FunctionDefinition) : list (string * Loc) :=
  flat_map (fun p => match p with
                     | (_, Some (Mk_Param _ _ (Some (StorageLocation_Memory l)) (Some name))) => [(idname name, l)]
                     | _ => [] end) (FunctionDefinition_params f).
Definition sp_assigned_param (e : Expression) : list string :=
  match e with
  | Expression_Assign _ (Expression_Variable id) _ => [idname id]
  | Expression_Assign _ (Expression_ArraySubscript _ (Expression_Variable id) _) _ => [idname id]
  | _ => [] end.
Definition assigned_in_body (f : FunctionDefinition) : list string :=
  match FunctionDefinition_body f with
  | Some b => flat_map sp_assigned_param (exprs_in (pre_Statement b))
  | None => [] end.
Definition m2c_where (p : FunctionDefinition -> bool) (su : SourceUnit) : list Loc :=
  flat_map (fun f => if p f && sp_has_body f && negb (sp_is_ctor f)
                     then flat_map (fun nl => if mem_str (fst nl) (assigned_in_body f) then [] else [snd nl]) (memory_params f)
                     else []) (all_functions su).
Definition canon_m2c := m2c_where sp_pub_ext.
Definition match_m2c := m2c_where (fun _ => true).
Definition m2c_hyp (su : SourceUnit) : bool :=
  forallb (fun f => nodupb (map fst (memory_params f))) (all_functions su).

(* sstore *)
Definition sstore_where (p : VariableDefinition -> bool) (su : SourceUnit) : list Loc :=
  flat_map (fun e => match e with
                     | Expression_Assign l (Expression_Variable id) _ =>
                         if existsb (fun v => String.eqb (var_name v) (idname id) && p v) (state_variables su) then [l] else []
                     | _ => [] end) (all_exprs su).
Definition canon_sstore :=
  sstore_where (fun v => sp_elementary (VariableDefinition_ty v) && negb (sp_is_constant v) && negb (sp_is_immutable v)).
Definition match_sstore :=
  sstore_where (fun v => sp_builtin_nonmapping (VariableDefinition_ty v) && negb (sp_is_constant v) && negb (sp_is_immutable v)).

(* ---------------------------------------------------------------- C09 *)
Definition sp_version : Type := (Z * Z * Z)%type.
Definition sp_is_digit (c : ascii) : bool := let n := N_of_ascii c in (48 <=? n)%N && (n <=? 57)%N.
Fixpoint sp_take_digits (s : string) : string * string :=
  match s with
  | String c r => if sp_is_digit c then let (d, t) := sp_take_digits r in (String c d, t) else (EmptyString, s)
  | EmptyString => (EmptyString, EmptyString) end.
Fixpoint sp_drop_blanks (s : string) : string :=
  match s with String " "%char r => sp_drop_blanks r | _ => s end.
Definition sp_strip_op (s : string) : string :=
  match s with
  | String ">"%char (String "="%char r) => r
  | String "^"%char r | String "~"%char r | String "="%char r | String ">"%char r => r
  | _ => s end.
(* components are i32 values (the property's quantifier enumerates 0.0.0 .. 1.2.40) *)
Definition sp_num (d : string) : option Z :=
  match dec_value d with
  | Some n => if (n <? 2147483648)%N then Some (Z.of_N n) else None
  | None => None end.
(* the value is exactly  [op][blanks] M.m.p  : the one full version the pragma names *)
Definition sp_parse_version (s : string) : option sp_version :=
  let s1 := sp_drop_blanks (sp_strip_op s) in
  let (a, r1) := sp_take_digits s1 in
  match r1 with
  | String "."%char r1' =>
      let (b, r2) := sp_take_digits r1' in
      match r2 with
      | String "."%char r2' =>
          let (c, r3) := sp_take_digits r2' in
          match r3, sp_num a, sp_num b, sp_num c with
          | EmptyString, Some x, Some y, Some z => Some (x, y, z)
          | _, _, _, _ => None end
      | _ => None end
  | _ => None end.
(* the file has exactly one `pragma solidity`, and it names one full version *)
Definition file_version (su : SourceUnit) : option sp_version :=
  match filter (fun p => match p with (_, n, _) => String.eqb n "solidity" end) (pragmas su) with
  | [(_, _, v)] => sp_parse_version v
  | _ => None end.
Definition sp_ver_lt (v w : sp_version) : bool :=
  match v, w with (a, b, c), (a', b', c') =>
    (a <? a')%Z || ((a =? a')%Z && ((b <? b')%Z || ((b =? b')%Z && (c <? c')%Z))) end.

Definition sp_using_safemath (u : Using) : bool :=
  match Using_list u with
  | UsingList_Library p => existsb (fun i => String.eqb (idname i) "SafeMath") (IdentifierPath_identifiers p)
  | _ => false end.
Definition uses_safemath (su : SourceUnit) : bool :=
  match su with Mk_SourceUnit parts =>
    existsb (fun p => match p with
                      | SourceUnitPart_Using u => sp_using_safemath u
                      | SourceUnitPart_ContractDefinition c =>
                          existsb (fun q => match q with ContractPart_Using u => sp_using_safemath u | _ => false end)
                                  (ContractDefinition_parts c)
                      | _ => false end) parts end.
Definition sp_safemath_name (s : string) : bool :=
  String.eqb s "add" || String.eqb s "sub" || String.eqb s "mul" || String.eqb s "div".
Definition safemath_sites (su : SourceUnit) : list Loc :=
  flat_map (fun e => match e with
                     | Expression_FunctionCall _ (Expression_MemberAccess l _ id) _ =>
                         if sp_safemath_name (idname id) then [l] else []
                     | _ => [] end) (all_exprs su).
Definition sp_require_string (e : Expression) : option StringLiteral :=
  match e with
  | Expression_FunctionCall _ (Expression_Variable id) args =>
      if String.eqb (idname id) "require"
      then match rev args with
           | Expression_StringLiteral (p :: _) :: _ => Some p
           | _ => None end
      else None
  | _ => None end.
Definition require_strings (su : SourceUnit) : list StringLiteral :=
  flat_map (fun e => match sp_require_string e with Some p => [p] | None => [] end) (all_exprs su).
Definition sp_len (s : string) : N := N.of_nat (String.length s).

Definition spec_safemath_pre (v : sp_version) (su : SourceUnit) : list Loc :=
  if sp_ver_lt v (0, 8, 0)%Z && uses_safemath su then safemath_sites su else [].
Definition spec_safemath_post (v : sp_version) (su : SourceUnit) : list Loc :=
  if negb (sp_ver_lt v (0, 8, 0)%Z) && uses_safemath su then safemath_sites su else [].
Definition spec_string_errors (v : sp_version) (su : SourceUnit) : list Loc :=
  if negb (sp_ver_lt v (0, 8, 4)%Z) then map StringLiteral_loc (require_strings su) else [].
Definition spec_short_revert (v : sp_version) (su : SourceUnit) : list Loc :=
  if sp_ver_lt v (0, 8, 4)%Z
  then map StringLiteral_loc (filter (fun p => (32 <=? sp_len (StringLiteral_string p))%N) (require_strings su))
  else [].
