(* Specification of C10: Solidity's storage layout rule for a sequence of member sizes
   (in bits): consecutive items share a 256-bit slot while they fit.

   Declaratively: the sequence is cut into consecutive non-empty groups (one per slot),
   every group fits into a slot, and the first item of every later group did NOT fit into
   the group before it.  The number of slots is the number of groups.  Nothing here looks
   at how the code counts. *)
From Coq Require Import List NArith.
Import ListNotations.
Local Open Scope N_scope.

Definition total (g : list N) : N := fold_right N.add 0 g.

(* R holds between every two neighbours of the list *)
Fixpoint adjacent {A} (R : A -> A -> Prop) (l : list A) : Prop :=
  match l with
  | a :: r => match r with b :: _ => R a b | [] => True end /\ adjacent R r
  | [] => True
  end.

Definition layout (l : list N) (gs : list (list N)) : Prop :=
  concat gs = l /\
  Forall (fun g => g <> []) gs /\
  Forall (fun g => total g <= 256) gs /\
  adjacent (fun g h => 256 < total g + hd 0 h) gs.

(* sizes a Solidity member type can have *)
Definition size_ok (s : N) : Prop := 0 < s <= 256.

(* The layout computed from left to right (executable; proofs/SlotProof.v shows that it
   satisfies `layout`, so the declarative rule always has a solution, and that `layout`
   determines the number of groups). `cur` is the group being filled, `used` its total. *)
Fixpoint fill (cur : list N) (used : N) (l : list N) : list (list N) :=
  match l with
  | [] => match cur with [] => [] | _ => [cur] end
  | x :: r =>
      match cur with
      | [] => fill [x] x r
      | _ => if 256 <? used + x then cur :: fill [x] x r else fill (cur ++ [x]) (used + x) r
      end
  end.

Definition layout_of (l : list N) : list (list N) := fill [] 0 l.
Definition slots_spec (l : list N) : N := N.of_nat (length (layout_of l)).
