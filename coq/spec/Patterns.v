(* Specification of the detectors (DESIGN.md section 8), stated over the COMPLETE
   type-derived pre-order `pre` (gen/Pt.v) and over the declared structure of the
   file (contracts and their members) - never over walk_node_for_targets.
   For every detector d:  canon_d su  = anchors that MUST be reported,
                          match_d su  = anchors that MAY be reported (canon ⊆ match);
   a location outside match_d must never be reported.  Where the two coincide
   only spec_d is defined.  All definitions are computable, so the same terms are
   evaluated on the implementation's actual output by the checks. *)
From Coq Require Import List String Ascii NArith ZArith Bool.
Import ListNotations.
From Solstat Require Import Lift Pt.
Local Open Scope string_scope.

Definition all_nodes (su : SourceUnit) : list node := pre (N_SourceUnit su).
Definition exprs_in (ns : list node) : list Expression :=
  flat_map (fun n => match n with N_Expression e => [e] | _ => [] end) ns.
Definition stmts_in (ns : list node) : list Statement :=
  flat_map (fun n => match n with N_Statement s => [s] | _ => [] end) ns.
Definition all_exprs (su : SourceUnit) : list Expression := exprs_in (all_nodes su).
Definition all_stmts (su : SourceUnit) : list Statement := stmts_in (all_nodes su).

Definition idname (i : Identifier) : string := Identifier_name i.
Definition select {A} (p : A -> bool) (f : A -> Loc) (l : list A) : list Loc := map f (filter p l).

(* ---------------------------------------------------------------- C05 *)
Definition sp_is_address_call (e : Expression) : bool :=
  match e with Expression_FunctionCall _ (Expression_Type _ Ty_Address) _ => true | _ => false end.

Definition spec_address_balance (su : SourceUnit) : list Loc :=
  flat_map (fun e => match e with
                     | Expression_MemberAccess loc callee id =>
                         if sp_is_address_call callee && String.eqb (idname id) "balance" then [loc] else []
                     | _ => [] end) (all_exprs su).

Fixpoint all_zero_digits (s : string) : bool :=
  match s with EmptyString => true | String c r => Ascii.eqb c "0"%char && all_zero_digits r end.
Definition denotes_zero (s : string) : bool :=
  match s with EmptyString => false | _ => all_zero_digits s end.

(* address(0): one argument, the literal 0 *)
Definition sp_address_zero_canon (e : Expression) : bool :=
  match e with
  | Expression_FunctionCall _ (Expression_Type _ Ty_Address) [Expression_NumberLiteral _ v ex] =>
      String.eqb v "0" && String.eqb ex ""
  | _ => false end.
(* first argument a number literal whose integer text denotes zero *)
Definition sp_address_zero_match (e : Expression) : bool :=
  match e with
  | Expression_FunctionCall _ (Expression_Type _ Ty_Address) (Expression_NumberLiteral _ v _ :: _) => denotes_zero v
  | _ => false end.
Definition eq_ne (e : Expression) : option (Loc * Expression * Expression) :=
  match e with
  | Expression_Equal l a b | Expression_NotEqual l a b => Some (l, a, b)
  | _ => None end.
Definition eqne_where (p : Expression -> bool) (su : SourceUnit) : list Loc :=
  flat_map (fun e => match eq_ne e with
                     | Some (l, a, b) => if p a || p b then [l] else []
                     | None => [] end) (all_exprs su).
Definition canon_address_zero := eqne_where sp_address_zero_canon.
Definition match_address_zero := eqne_where sp_address_zero_match.

Definition sp_is_bool_lit (e : Expression) : bool :=
  match e with Expression_BoolLiteral _ _ => true | _ => false end.
Definition spec_bool_equals_bool := eqne_where sp_is_bool_lit.

Definition sp_arith10 (e : Expression) : option (Expression * Expression) :=
  match e with
  | Expression_Add _ a b | Expression_Subtract _ a b | Expression_Divide _ a b
  | Expression_Multiply _ a b | Expression_Modulo _ a b | Expression_ShiftLeft _ a b
  | Expression_ShiftRight _ a b | Expression_BitwiseAnd _ a b | Expression_BitwiseOr _ a b
  | Expression_BitwiseXor _ a b => Some (a, b)
  | _ => None end.
(* x[k] with x an identifier and k a number literal: (x, text of k) *)
Definition sp_lit_subscript (e : Expression) : option (string * string) :=
  match e with
  | Expression_ArraySubscript _ (Expression_Variable id) (Some (Expression_NumberLiteral _ n _)) => Some (idname id, n)
  | _ => None end.
Definition same_sub (a b : option (string * string)) : bool :=
  match a, b with
  | Some (x, k), Some (y, j) => String.eqb x y && String.eqb k j
  | _, _ => false end.
(* a[k] = a[k] (+) e *)
Definition sp_aua_canon (e : Expression) : bool :=
  match e with
  | Expression_Assign _ lhs rhs =>
      match sp_arith10 rhs with
      | Some (l, _) => same_sub (sp_lit_subscript lhs) (sp_lit_subscript l)
      | None => false end
  | _ => false end.
(* ... or a[k] = e (+) a[k] *)
Definition sp_aua_match (e : Expression) : bool :=
  match e with
  | Expression_Assign _ lhs rhs =>
      match sp_arith10 rhs with
      | Some (l, r) => same_sub (sp_lit_subscript lhs) (sp_lit_subscript l)
                       || same_sub (sp_lit_subscript lhs) (sp_lit_subscript r)
      | None => false end
  | _ => false end.
Definition assign_locs (p : Expression -> bool) (su : SourceUnit) : list Loc :=
  flat_map (fun e => match e with Expression_Assign l _ _ => if p e then [l] else [] | _ => [] end) (all_exprs su).
Definition canon_assign_update := assign_locs sp_aua_canon.
Definition match_assign_update := assign_locs sp_aua_match.

Definition sp_length_access (e : Expression) : list Loc :=
  match e with
  | Expression_MemberAccess l _ id => if String.eqb (idname id) "length" then [l] else []
  | _ => [] end.
(* `.length` anywhere in the condition of a `for` *)
Definition spec_cache_array_length (su : SourceUnit) : list Loc :=
  flat_map (fun s => match s with
                     | Statement_For _ _ (Some cond) _ _ => flat_map sp_length_access (exprs_in (pre_Expression cond))
                     | _ => [] end) (all_stmts su).

Definition sp_prefix_loc (e : Expression) : list Loc :=
  match e with Expression_PreIncrement l _ | Expression_PreDecrement l _ => [l] | _ => [] end.
Definition sp_incdec_loc (e : Expression) : list Loc :=
  match e with
  | Expression_PreIncrement l _ | Expression_PreDecrement l _
  | Expression_PostIncrement l _ | Expression_PostDecrement l _ => [l]
  | _ => [] end.
(* locations of prefix forms at any depth inside an unchecked block *)
Definition exempt_prefix_locs (su : SourceUnit) : list Loc :=
  flat_map (fun s => match s with
                     | Statement_Block _ true stmts =>
                         flat_map (fun st => flat_map sp_prefix_loc (exprs_in (pre_Statement st))) stmts
                     | _ => [] end) (all_stmts su).
Definition sp_Loc_eqb (a b : Loc) : bool :=
  match a, b with Loc_File f1 s1 e1, Loc_File f2 s2 e2 => N.eqb f1 f2 && N.eqb s1 s2 && N.eqb e1 e2 end.
Definition spec_increment_decrement (su : SourceUnit) : list Loc :=
  filter (fun l => negb (existsb (sp_Loc_eqb l) (exempt_prefix_locs su)))
         (flat_map sp_incdec_loc (all_exprs su)).

Definition sp_is_and (e : Expression) : bool := match e with Expression_And _ _ _ => true | _ => false end.
Definition spec_multiple_require (su : SourceUnit) : list Loc :=
  flat_map (fun e => match e with
                     | Expression_FunctionCall l (Expression_Variable id) args =>
                         if String.eqb (idname id) "require" && existsb sp_is_and args then [l] else []
                     | _ => [] end) (all_exprs su).

Definition spec_optimal_comparison (su : SourceUnit) : list Loc :=
  flat_map (fun e => match e with
                     | Expression_MoreEqual l _ _ | Expression_LessEqual l _ _ => [l]
                     | _ => [] end) (all_exprs su).

(* decimal text -> value (None unless non-empty and all digits) *)
Fixpoint dec_value_acc (s : string) (acc : N) : option N :=
  match s with
  | EmptyString => Some acc
  | String c r => let n := N_of_ascii c in
                  if (48 <=? n)%N && (n <=? 57)%N then dec_value_acc r (acc * 10 + (n - 48))%N else None
  end.
Definition dec_value (s : string) : option N :=
  match s with EmptyString => None | _ => dec_value_acc s 0%N end.
Definition sp_is_pow2 (v : N) : bool := negb (v =? 0)%N && (N.land v (v - 1) =? 0)%N.

(* lit(2^k), 0 <= k <= 31: decimal literal without exponent *)
Definition sp_pow2_canon (e : Expression) : bool :=
  match e with
  | Expression_NumberLiteral _ v "" =>
      match dec_value v with Some n => sp_is_pow2 n && (n <? 4294967296)%N | None => false end
  | _ => false end.
(* may report: decimal literal with empty/zero/negative exponent whose mantissa ... (see DESIGN 8),
   or any hexadecimal literal.  Outside: literal with a positive exponent, literal whose value is
   not a power of two, anything that is not a literal. *)
Definition dec_value_plus (s : string) : option N :=
  match s with String "+"%char r => dec_value r | _ => dec_value s end.
Definition sp_pow2_match (e : Expression) : bool :=
  match e with
  | Expression_NumberLiteral _ v ex =>
      match ex with
      | String "-"%char _ => true
      | _ => (String.eqb ex "" || denotes_zero ex)
             && match dec_value_plus v with Some n => sp_is_pow2 n | None => false end
      end
  | Expression_HexNumberLiteral _ _ => true
  | _ => false end.
Definition muldiv_where (p : Expression -> bool) (su : SourceUnit) : list Loc :=
  flat_map (fun e => match e with
                     | Expression_Multiply l a b | Expression_Divide l a b => if p a || p b then [l] else []
                     | _ => [] end) (all_exprs su).
Definition canon_shift_math := muldiv_where sp_pow2_canon.
Definition match_shift_math := muldiv_where sp_pow2_match.

Definition spec_solidity_keccak256 (su : SourceUnit) : list Loc :=
  flat_map (fun e => match e with
                     | Expression_FunctionCall _ (Expression_Variable id) _ =>
                         if String.eqb (idname id) "keccak256" then [Identifier_loc id] else []
                     | _ => [] end) (all_exprs su).

Definition spec_solidity_math (su : SourceUnit) : list Loc :=
  flat_map (fun e => match e with
                     | Expression_Add l _ _ | Expression_Subtract l _ _
                     | Expression_Multiply l _ _ | Expression_Divide l _ _ => [l]
                     | _ => [] end) (all_exprs su).

(* ---------------------------------------------------------------- declared structure *)
Definition contracts (su : SourceUnit) : list ContractDefinition :=
  match su with Mk_SourceUnit parts =>
    flat_map (fun p => match p with SourceUnitPart_ContractDefinition c => [c] | _ => [] end) parts end.
Definition functions_of (c : ContractDefinition) : list FunctionDefinition :=
  flat_map (fun p => match p with ContractPart_FunctionDefinition f => [f] | _ => [] end) (ContractDefinition_parts c).
Definition variables_of (c : ContractDefinition) : list VariableDefinition :=
  flat_map (fun p => match p with ContractPart_VariableDefinition v => [v] | _ => [] end) (ContractDefinition_parts c).
Definition member_functions (su : SourceUnit) : list FunctionDefinition := flat_map functions_of (contracts su).
Definition state_variables (su : SourceUnit) : list VariableDefinition := flat_map variables_of (contracts su).

Definition sp_fattr_pub_ext (a : FunctionAttribute) : bool :=
  match a with
  | FunctionAttribute_Visibility (Visibility_Public _) | FunctionAttribute_Visibility (Visibility_External _) => true
  | _ => false end.
Definition sp_fattr_payable (a : FunctionAttribute) : bool :=
  match a with FunctionAttribute_Mutability (Mutability_Payable _) => true | _ => false end.
Definition sp_has_body (f : FunctionDefinition) : bool :=
  match FunctionDefinition_body f with Some _ => true | None => false end.
Definition sp_pub_ext (f : FunctionDefinition) : bool := existsb sp_fattr_pub_ext (FunctionDefinition_attributes f).
Definition sp_is_ctor (f : FunctionDefinition) : bool :=
  match FunctionDefinition_ty f with FunctionTy_Constructor => true | _ => false end.

(* ---------------------------------------------------------------- C06 *)
Definition spec_payable_function (su : SourceUnit) : list Loc :=
  select (fun f => sp_has_body f && sp_pub_ext f && negb (existsb sp_fattr_payable (FunctionDefinition_attributes f)))
         FunctionDefinition_loc (member_functions su).

Definition sp_vattr_constant (a : VariableAttribute) : bool :=
  match a with VariableAttribute_Constant _ => true | _ => false end.
Definition sp_vattr_private (a : VariableAttribute) : bool :=
  match a with VariableAttribute_Visibility (Visibility_Private _) => true | _ => false end.
Definition sp_is_constant (v : VariableDefinition) : bool := existsb sp_vattr_constant (VariableDefinition_attrs v).

Definition spec_private_constant (su : SourceUnit) : list Loc :=
  select (fun v => sp_is_constant v && negb (existsb sp_vattr_private (VariableDefinition_attrs v)))
         VariableDefinition_loc (state_variables su).

Definition sp_underscore (s : string) : bool :=
  match s with String c _ => Ascii.eqb c "_"%char | EmptyString => false end.
Definition sp_vis_priv_int (v : Visibility) : bool :=
  match v with Visibility_Private _ | Visibility_Internal _ => true | _ => false end.
(* some explicit visibility contradicts the leading underscore *)
Definition sp_var_contradiction (v : VariableDefinition) : bool :=
  existsb (fun a => match a with
                    | VariableAttribute_Visibility vis =>
                        negb (Bool.eqb (sp_underscore (idname (VariableDefinition_name v))) (sp_vis_priv_int vis))
                    | _ => false end) (VariableDefinition_attrs v).
Definition spec_private_vars (su : SourceUnit) : list Loc :=
  select (fun v => negb (sp_is_constant v) && sp_var_contradiction v) VariableDefinition_loc (state_variables su).

Definition spec_private_func (su : SourceUnit) : list Loc :=
  flat_map (fun f =>
    match FunctionDefinition_ty f, FunctionDefinition_name f with
    | FunctionTy_Function, Some id =>
        if existsb (fun a => match a with
                             | FunctionAttribute_Visibility vis =>
                                 negb (Bool.eqb (sp_underscore (idname id)) (sp_vis_priv_int vis))
                             | _ => false end) (FunctionDefinition_attributes f)
        then [Identifier_loc id] else []
    | _, _ => [] end) (member_functions su).

Definition sp_counts_as_function (p : ContractPart) : bool :=
  match p with
  | ContractPart_FunctionDefinition f =>
      match FunctionDefinition_ty f with
      | FunctionTy_Function | FunctionTy_Fallback | FunctionTy_Receive => true
      | _ => false end
  | _ => false end.
(* constructors of c preceded, in c, by a function other than a modifier *)
Fixpoint sp_ctor_order (before : list ContractPart) (parts : list ContractPart) : list Loc :=
  match parts with
  | [] => []
  | p :: r =>
      (match p with
       | ContractPart_FunctionDefinition f =>
           if sp_is_ctor f && existsb sp_counts_as_function before then [FunctionDefinition_loc f] else []
       | _ => [] end) ++ sp_ctor_order (before ++ [p]) r
  end.
Definition spec_constructor_order (su : SourceUnit) : list Loc :=
  flat_map (fun c => sp_ctor_order [] (ContractDefinition_parts c)) (contracts su).

(* ---------------------------------------------------------------- C07 *)
Definition sp_erc20_name (s : string) : bool :=
  String.eqb s "transfer" || String.eqb s "transferFrom" || String.eqb s "approve".
Definition spec_unsafe_erc20 (su : SourceUnit) : list Loc :=
  flat_map (fun e => match e with
                     | Expression_MemberAccess l _ id => if sp_erc20_name (idname id) then [l] else []
                     | _ => [] end) (all_exprs su).

(* left spine through * and parentheses reaches a / *)
Inductive MulChainDiv : Expression -> Prop :=
  | MCD_div l a b : MulChainDiv (Expression_Divide l a b)
  | MCD_mul l a b : MulChainDiv a -> MulChainDiv (Expression_Multiply l a b)
  | MCD_par l a : MulChainDiv a -> MulChainDiv (Expression_Parenthesis l a).
(* left spine through / + - % & | ^ << >> and parentheses reaches a * *)
Inductive ArithChainMul : Expression -> Prop :=
  | ACM_mul l a b : ArithChainMul (Expression_Multiply l a b)
  | ACM_div l a b : ArithChainMul a -> ArithChainMul (Expression_Divide l a b)
  | ACM_add l a b : ArithChainMul a -> ArithChainMul (Expression_Add l a b)
  | ACM_sub l a b : ArithChainMul a -> ArithChainMul (Expression_Subtract l a b)
  | ACM_mod l a b : ArithChainMul a -> ArithChainMul (Expression_Modulo l a b)
  | ACM_and l a b : ArithChainMul a -> ArithChainMul (Expression_BitwiseAnd l a b)
  | ACM_or l a b : ArithChainMul a -> ArithChainMul (Expression_BitwiseOr l a b)
  | ACM_xor l a b : ArithChainMul a -> ArithChainMul (Expression_BitwiseXor l a b)
  | ACM_shl l a b : ArithChainMul a -> ArithChainMul (Expression_ShiftLeft l a b)
  | ACM_shr l a b : ArithChainMul a -> ArithChainMul (Expression_ShiftRight l a b)
  | ACM_par l a : ArithChainMul a -> ArithChainMul (Expression_Parenthesis l a).
(* boolean deciders of the two chains (proved equivalent in proofs/) used for evaluation *)
Fixpoint sp_mul_chain_div (e : Expression) : bool :=
  match e with
  | Expression_Divide _ _ _ => true
  | Expression_Multiply _ a _ | Expression_Parenthesis _ a => sp_mul_chain_div a
  | _ => false end.
Fixpoint sp_arith_chain_mul (e : Expression) : bool :=
  match e with
  | Expression_Multiply _ _ _ => true
  | Expression_Divide _ a _ | Expression_Add _ a _ | Expression_Subtract _ a _ | Expression_Modulo _ a _
  | Expression_BitwiseAnd _ a _ | Expression_BitwiseOr _ a _ | Expression_BitwiseXor _ a _
  | Expression_ShiftLeft _ a _ | Expression_ShiftRight _ a _ | Expression_Parenthesis _ a => sp_arith_chain_mul a
  | _ => false end.
Definition spec_divide_before_multiply (su : SourceUnit) : list Loc :=
  flat_map (fun e => match e with
                     | Expression_Multiply l a _ => if sp_mul_chain_div a then [l] else []
                     | Expression_AssignDivide l _ r => if sp_arith_chain_mul r then [l] else []
                     | _ => [] end) (all_exprs su).

Fixpoint sp_has_char (c : ascii) (s : string) : bool :=
  match s with EmptyString => false | String d r => Ascii.eqb c d || sp_has_char c r end.
Definition pragmas (su : SourceUnit) : list (Loc * string * string) :=
  match su with Mk_SourceUnit parts =>
    flat_map (fun p => match p with
                       | SourceUnitPart_PragmaDirective l id lit => [(l, idname id, StringLiteral_string lit)]
                       | _ => [] end) parts end.
(* reported iff the value contains '^' *)
Definition spec_floating_pragma (su : SourceUnit) : list Loc :=
  flat_map (fun p => match p with (l, _, v) => if sp_has_char "^"%char v then [l] else [] end) (pragmas su).

Definition sp_is_selfdestruct_callee (e : Expression) : bool :=
  match e with
  | Expression_Variable id => String.eqb (idname id) "selfdestruct" || String.eqb (idname id) "suicide"
  | _ => false end.
Definition sp_msg_sender (e : Expression) : bool :=
  match e with
  | Expression_MemberAccess _ (Expression_Variable l) r => String.eqb (idname l) "msg" && String.eqb (idname r) "sender"
  | _ => false end.
Fixpoint sp_prefix (p s : string) : bool :=
  match p, s with
  | EmptyString, _ => true
  | String a p', String b s' => Ascii.eqb a b && sp_prefix p' s'
  | _, _ => false end.
Fixpoint sp_substring (p s : string) : bool :=
  sp_prefix p s || match s with EmptyString => false | String _ r => sp_substring p r end.
Definition sp_only_modifier (f : FunctionDefinition) : bool :=
  existsb (fun a => match a with
                    | FunctionAttribute_BaseOrModifier _ b =>
                        existsb (fun i => sp_substring "only" (idname i)) (IdentifierPath_identifiers (Base_name b))
                    | _ => false end) (FunctionDefinition_attributes f).
(* a call, other than selfdestruct/suicide and elementary type conversions, that receives
   msg.sender itself or an ==/!= comparison with msg.sender on either side *)
Definition sp_sender_arg (a : Expression) : bool :=
  sp_msg_sender a ||
  match a with
  | Expression_Equal _ l r | Expression_NotEqual _ l r => sp_msg_sender l || sp_msg_sender r
  | _ => false end.
Definition sp_sender_check (e : Expression) : bool :=
  match e with
  | Expression_FunctionCall _ callee args =>
      negb (sp_is_selfdestruct_callee callee)
      && negb (match callee with Expression_Type _ _ => true | _ => false end)
      && existsb sp_sender_arg args
  | _ => false end.
Definition sp_selfdestruct_calls (body : Statement) : list Loc :=
  flat_map (fun e => match e with
                     | Expression_FunctionCall l callee _ => if sp_is_selfdestruct_callee callee then [l] else []
                     | _ => [] end) (exprs_in (pre_Statement body)).
Definition spec_unprotected_selfdestruct (su : SourceUnit) : list Loc :=
  flat_map (fun f =>
    match FunctionDefinition_body f with
    | Some body =>
        if negb (sp_is_ctor f) && sp_pub_ext f && negb (sp_only_modifier f)
           && negb (existsb sp_sender_check (exprs_in (pre_Statement body)))
        then sp_selfdestruct_calls body else []
    | None => [] end) (member_functions su).
