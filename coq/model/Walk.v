(* Hand-written model of /repo/src/analyzer/ast.rs:
     statement_as_target, expression_as_target, source_unit_part_as_target,
     contract_part_as_target, Node::as_target, walk_node_for_targets,
     extract_target_from_node, extract_targets_from_node.
   One arm per arm of the Rust `match`; recursion order = order of the
   `matches.append(..)` calls. *)
From Coq Require Import List String NArith Bool.
Import ListNotations.
From Solstat Require Import Lift Pt.

Definition statement_as_target (s : Statement) : Target :=
  match s with
  | Statement_Args _ _ => Target_Args
  | Statement_Return _ _ => Target_Return
  | Statement_Revert _ _ _ => Target_Revert
  | Statement_Emit _ _ => Target_Emit
  | Statement_RevertNamedArgs _ _ _ => Target_RevertNamedArgs
  | Statement_Expression _ _ => Target_Expression
  | Statement_VariableDefinition _ _ _ => Target_VariableDefinition
  | Statement_Block _ _ _ => Target_Block
  | Statement_If _ _ _ _ => Target_If
  | Statement_While _ _ _ => Target_While
  | Statement_For _ _ _ _ _ => Target_For
  | Statement_DoWhile _ _ _ => Target_DoWhile
  | Statement_Try _ _ _ _ => Target_Try
  | _ => Target_None
  end.

Definition expression_as_target (e : Expression) : Target :=
  match e with
  | Expression_Add _ _ _ => Target_Add
  | Expression_And _ _ _ => Target_And
  | Expression_ArrayLiteral _ _ => Target_ArrayLiteral
  | Expression_ArraySlice _ _ _ _ => Target_ArraySlice
  | Expression_ArraySubscript _ _ _ => Target_ArraySubscript
  | Expression_Assign _ _ _ => Target_Assign
  | Expression_AssignAdd _ _ _ => Target_AssignAdd
  | Expression_AssignAnd _ _ _ => Target_AssignAnd
  | Expression_AssignDivide _ _ _ => Target_AssignDivide
  | Expression_AssignModulo _ _ _ => Target_AssignModulo
  | Expression_AssignMultiply _ _ _ => Target_AssignMultiply
  | Expression_AssignOr _ _ _ => Target_AssignOr
  | Expression_AssignShiftLeft _ _ _ => Target_AssignShiftLeft
  | Expression_AssignShiftRight _ _ _ => Target_AssignShiftRight
  | Expression_AssignSubtract _ _ _ => Target_AssignSubtract
  | Expression_AssignXor _ _ _ => Target_AssignXor
  | Expression_BitwiseAnd _ _ _ => Target_BitwiseAnd
  | Expression_BitwiseOr _ _ _ => Target_BitwiseOr
  | Expression_BitwiseXor _ _ _ => Target_BitwiseXor
  | Expression_Complement _ _ => Target_Complement
  | Expression_Delete _ _ => Target_Delete
  | Expression_Divide _ _ _ => Target_Divide
  | Expression_Equal _ _ _ => Target_Equal
  | Expression_FunctionCall _ _ _ => Target_FunctionCall
  | Expression_FunctionCallBlock _ _ _ => Target_FunctionCallBlock
  | Expression_Less _ _ _ => Target_Less
  | Expression_LessEqual _ _ _ => Target_LessEqual
  | Expression_List _ _ => Target_List
  | Expression_MemberAccess _ _ _ => Target_MemberAccess
  | Expression_Modulo _ _ _ => Target_Modulo
  | Expression_More _ _ _ => Target_More
  | Expression_MoreEqual _ _ _ => Target_MoreEqual
  | Expression_Multiply _ _ _ => Target_Multiply
  | Expression_NamedFunctionCall _ _ _ => Target_NamedFunctionCall
  | Expression_New _ _ => Target_New
  | Expression_Not _ _ => Target_Not
  | Expression_NotEqual _ _ _ => Target_NotEqual
  | Expression_Or _ _ _ => Target_Or
  | Expression_Parenthesis _ _ => Target_Parenthesis
  | Expression_PostDecrement _ _ => Target_PostDecrement
  | Expression_PostIncrement _ _ => Target_PostIncrement
  | Expression_ShiftLeft _ _ _ => Target_ShiftLeft
  | Expression_ShiftRight _ _ _ => Target_ShiftRight
  | Expression_Subtract _ _ _ => Target_Subtract
  | Expression_Ternary _ _ _ _ => Target_Ternary
  | Expression_Type _ _ => Target_Type
  | Expression_UnaryMinus _ _ => Target_UnaryMinus
  | Expression_UnaryPlus _ _ => Target_UnaryPlus
  | Expression_Unit _ _ _ => Target_Unit
  | Expression_PreIncrement _ _ => Target_PreIncrement
  | Expression_PreDecrement _ _ => Target_PreDecrement
  | Expression_Power _ _ _ => Target_Power
  | Expression_BoolLiteral _ _ => Target_BoolLiteral
  | Expression_NumberLiteral _ _ _ => Target_NumberLiteral
  | Expression_RationalNumberLiteral _ _ _ _ => Target_RationalNumberLiteral
  | Expression_HexNumberLiteral _ _ => Target_HexNumberLiteral
  | Expression_HexLiteral _ => Target_HexLiteral
  | Expression_StringLiteral _ => Target_StringLiteral
  | Expression_AddressLiteral _ _ => Target_AddressLiteral
  | Expression_Variable _ => Target_Variable
  | Expression_This _ => Target_This
  end.

Definition source_unit_part_as_target (p : SourceUnitPart) : Target :=
  match p with
  | SourceUnitPart_ContractDefinition _ => Target_ContractDefinition
  | SourceUnitPart_EnumDefinition _ => Target_EnumDefinition
  | SourceUnitPart_ErrorDefinition _ => Target_ErrorDefinition
  | SourceUnitPart_EventDefinition _ => Target_EventDefinition
  | SourceUnitPart_FunctionDefinition _ => Target_FunctionDefinition
  | SourceUnitPart_ImportDirective _ => Target_ImportDirective
  | SourceUnitPart_PragmaDirective _ _ _ => Target_PragmaDirective
  | SourceUnitPart_StraySemicolon _ => Target_StraySemicolon
  | SourceUnitPart_StructDefinition _ => Target_StructDefinition
  | SourceUnitPart_TypeDefinition _ => Target_TypeDefinition
  | SourceUnitPart_Using _ => Target_Using
  | SourceUnitPart_VariableDefinition _ => Target_VariableDefinition
  end.

Definition contract_part_as_target (p : ContractPart) : Target :=
  match p with
  | ContractPart_EnumDefinition _ => Target_EnumDefinition
  | ContractPart_ErrorDefinition _ => Target_ErrorDefinition
  | ContractPart_EventDefinition _ => Target_EventDefinition
  | ContractPart_FunctionDefinition _ => Target_FunctionDefinition
  | ContractPart_StraySemicolon _ => Target_StraySemicolon
  | ContractPart_StructDefinition _ => Target_StructDefinition
  | ContractPart_TypeDefinition _ => Target_TypeDefinition
  | ContractPart_Using _ => Target_Using
  | ContractPart_VariableDefinition _ => Target_VariableDefinition
  end.

(* Node::as_target *)
Definition as_target (n : node) : Target :=
  match n with
  | N_Expression e => expression_as_target e
  | N_Statement s => statement_as_target s
  | N_SourceUnit _ => Target_SourceUnit
  | N_SourceUnitPart p => source_unit_part_as_target p
  | N_ContractPart p => contract_part_as_target p
  end.

Section Walk.
  (* targets.contains(..) *)
  Variable T : Target -> bool.

  Definition hit (n : node) : list node := if T (as_target n) then [n] else [].

  (* `for (_, option_parameter) in params { if option_parameter.is_some() { walk(parameter.ty) } }` *)
  Fixpoint walk_Expression (e : Expression) {struct e} : list node :=
    hit (N_Expression e) ++
    match e with
    | Expression_PostIncrement _ a => walk_Expression a
    | Expression_PostDecrement _ a => walk_Expression a
    | Expression_New _ a => walk_Expression a
    | Expression_ArraySubscript _ a ob =>
        walk_Expression a ++ match ob with Some b => walk_Expression b | None => [] end
    | Expression_ArraySlice _ a ob oc =>
        walk_Expression a ++ match ob with Some b => walk_Expression b | None => [] end
                          ++ match oc with Some c => walk_Expression c | None => [] end
    | Expression_Parenthesis _ a => walk_Expression a
    | Expression_MemberAccess _ a _ => walk_Expression a
    | Expression_FunctionCall _ a args => walk_Expression a ++ flat_map (fun x => walk_Expression x) args
    | Expression_FunctionCallBlock _ a s => walk_Expression a ++ walk_Statement s
    | Expression_NamedFunctionCall _ a nargs =>
        walk_Expression a ++ flat_map (fun x => walk_NamedArgument x) nargs
    | Expression_Not _ a => walk_Expression a
    | Expression_Complement _ a => walk_Expression a
    | Expression_Delete _ a => walk_Expression a
    | Expression_PreIncrement _ a => walk_Expression a
    | Expression_PreDecrement _ a => walk_Expression a
    | Expression_UnaryPlus _ a => walk_Expression a
    | Expression_UnaryMinus _ a => walk_Expression a
    | Expression_Power _ a b => walk_Expression a ++ walk_Expression b
    | Expression_Multiply _ a b => walk_Expression a ++ walk_Expression b
    | Expression_Divide _ a b => walk_Expression a ++ walk_Expression b
    | Expression_Modulo _ a b => walk_Expression a ++ walk_Expression b
    | Expression_Add _ a b => walk_Expression a ++ walk_Expression b
    | Expression_Subtract _ a b => walk_Expression a ++ walk_Expression b
    | Expression_ShiftLeft _ a b => walk_Expression a ++ walk_Expression b
    | Expression_ShiftRight _ a b => walk_Expression a ++ walk_Expression b
    | Expression_BitwiseAnd _ a b => walk_Expression a ++ walk_Expression b
    | Expression_BitwiseXor _ a b => walk_Expression a ++ walk_Expression b
    | Expression_BitwiseOr _ a b => walk_Expression a ++ walk_Expression b
    | Expression_Less _ a b => walk_Expression a ++ walk_Expression b
    | Expression_More _ a b => walk_Expression a ++ walk_Expression b
    | Expression_LessEqual _ a b => walk_Expression a ++ walk_Expression b
    | Expression_MoreEqual _ a b => walk_Expression a ++ walk_Expression b
    | Expression_Equal _ a b => walk_Expression a ++ walk_Expression b
    | Expression_NotEqual _ a b => walk_Expression a ++ walk_Expression b
    | Expression_And _ a b => walk_Expression a ++ walk_Expression b
    | Expression_Or _ a b => walk_Expression a ++ walk_Expression b
    | Expression_Ternary _ a b c => walk_Expression a ++ walk_Expression b ++ walk_Expression c
    | Expression_Assign _ a b => walk_Expression a ++ walk_Expression b
    | Expression_AssignOr _ a b => walk_Expression a ++ walk_Expression b
    | Expression_AssignAnd _ a b => walk_Expression a ++ walk_Expression b
    | Expression_AssignXor _ a b => walk_Expression a ++ walk_Expression b
    | Expression_AssignShiftLeft _ a b => walk_Expression a ++ walk_Expression b
    | Expression_AssignShiftRight _ a b => walk_Expression a ++ walk_Expression b
    | Expression_AssignAdd _ a b => walk_Expression a ++ walk_Expression b
    | Expression_AssignSubtract _ a b => walk_Expression a ++ walk_Expression b
    | Expression_AssignMultiply _ a b => walk_Expression a ++ walk_Expression b
    | Expression_AssignDivide _ a b => walk_Expression a ++ walk_Expression b
    | Expression_AssignModulo _ a b => walk_Expression a ++ walk_Expression b
    | Expression_BoolLiteral _ _ => []
    | Expression_NumberLiteral _ _ _ => []
    | Expression_RationalNumberLiteral _ _ _ _ => []
    | Expression_HexNumberLiteral _ _ => []
    | Expression_StringLiteral _ => []
    | Expression_Type _ ty => walk_Ty ty
    | Expression_HexLiteral _ => []
    | Expression_AddressLiteral _ _ => []
    | Expression_Variable _ => []
    | Expression_List _ params =>
        flat_map (fun p => match p with (_, op) => match op with Some q => walk_Param q | None => [] end end) params
    | Expression_ArrayLiteral _ xs => flat_map (fun x => walk_Expression x) xs
    | Expression_Unit _ a _ => walk_Expression a
    | Expression_This _ => []
    end
  (* the `pt::Expression::Type(_, ty) => match ty { .. }` arm *)
  with walk_Ty (t : Ty) {struct t} : list node :=
    match t with
    | Ty_Mapping _ k v => walk_Expression k ++ walk_Expression v
    | Ty_Function params attrs rets =>
        flat_map (fun p => match p with (_, op) => match op with Some q => walk_Param q | None => [] end end) params
        ++ flat_map (fun a => walk_FunctionAttribute a) attrs
        ++ match rets with
           | Some pr => match pr with (rps, rattrs) =>
               flat_map (fun p => match p with (_, op) => match op with Some q => walk_Param q | None => [] end end) rps
               ++ flat_map (fun a => walk_FunctionAttribute a) rattrs end
           | None => []
           end
    | _ => []
    end
  (* `parameter.ty.into()` *)
  with walk_Param (p : Param) {struct p} : list node :=
    match p with Mk_Param _ ty _ _ => walk_Expression ty end
  (* `named_argument.expr.into()` *)
  with walk_NamedArgument (a : NamedArgument) {struct a} : list node :=
    match a with Mk_NamedArgument _ _ e => walk_Expression e end
  with walk_FunctionAttribute (a : FunctionAttribute) {struct a} : list node :=
    match a with
    | FunctionAttribute_BaseOrModifier _ b => walk_Base b
    | FunctionAttribute_NameValue _ _ e => walk_Expression e
    | _ => []
    end
  (* `if base.args.is_some() { for arg in args { walk(arg) } }` *)
  with walk_Base (b : Base) {struct b} : list node :=
    match b with Mk_Base _ _ oargs =>
      match oargs with Some args => flat_map (fun x => walk_Expression x) args | None => [] end end
  with walk_VariableDeclaration (d : VariableDeclaration) {struct d} : list node :=
    match d with Mk_VariableDeclaration _ ty _ _ => walk_Expression ty end
  with walk_Statement (s : Statement) {struct s} : list node :=
    hit (N_Statement s) ++
    match s with
    | Statement_Block _ _ stmts => flat_map (fun x => walk_Statement x) stmts
    | Statement_Assembly _ _ _ _ => []
    | Statement_Args _ nargs => flat_map (fun x => walk_NamedArgument x) nargs
    | Statement_If _ c t oe =>
        walk_Expression c ++ walk_Statement t ++ match oe with Some e => walk_Statement e | None => [] end
    | Statement_While _ c b => walk_Expression c ++ walk_Statement b
    | Statement_Expression _ e => walk_Expression e
    | Statement_VariableDefinition _ d oi =>
        walk_VariableDeclaration d ++ match oi with Some i => walk_Expression i | None => [] end
    | Statement_For _ oi oc on ob =>
        match oi with Some i => walk_Statement i | None => [] end
        ++ match oc with Some c => walk_Expression c | None => [] end
        ++ match on with Some n => walk_Statement n | None => [] end
        ++ match ob with Some b => walk_Statement b | None => [] end
    | Statement_DoWhile _ b c => walk_Statement b ++ walk_Expression c
    | Statement_Continue _ => []
    | Statement_Break _ => []
    | Statement_Return _ oe => match oe with Some e => walk_Expression e | None => [] end
    | Statement_Revert _ _ args => flat_map (fun x => walk_Expression x) args
    | Statement_RevertNamedArgs _ _ nargs => flat_map (fun x => walk_NamedArgument x) nargs
    | Statement_Emit _ e => walk_Expression e
    | Statement_Try _ e orets catches =>
        walk_Expression e
        ++ match orets with
           | Some pr => match pr with (rps, body) =>
               flat_map (fun p => match p with (_, op) => match op with Some q => walk_Param q | None => [] end end) rps
               ++ walk_Statement body end
           | None => []
           end
        ++ flat_map (fun c => walk_CatchClause c) catches
    end
  with walk_CatchClause (c : CatchClause) {struct c} : list node :=
    match c with
    | CatchClause_Simple _ op body =>
        match op with Some q => walk_Param q | None => [] end ++ walk_Statement body
    | CatchClause_Named _ _ q body => walk_Param q ++ walk_Statement body
    end.

  Definition walk_params (ps : list (Loc * option Param)) : list node :=
    flat_map (fun p => match p with (_, op) => match op with Some q => walk_Param q | None => [] end end) ps.

  Definition walk_FunctionDefinition (f : FunctionDefinition) : list node :=
    match f with Mk_FunctionDefinition _ _ _ _ params attrs _ rets body =>
      walk_params params
      ++ flat_map walk_FunctionAttribute attrs
      ++ walk_params rets
      ++ match body with Some b => walk_Statement b | None => [] end
    end.

  Definition walk_VariableDefinition (v : VariableDefinition) : list node :=
    match v with Mk_VariableDefinition _ ty _ _ oi =>
      walk_Expression ty ++ match oi with Some i => walk_Expression i | None => [] end end.

  Definition walk_StructDefinition (s : StructDefinition) : list node :=
    match s with Mk_StructDefinition _ _ fields => flat_map walk_VariableDeclaration fields end.

  Definition walk_EventDefinition (d : EventDefinition) : list node :=
    match d with Mk_EventDefinition _ _ fields _ =>
      flat_map (fun p => walk_Expression (EventParameter_ty p)) fields end.

  Definition walk_ErrorDefinition (d : ErrorDefinition) : list node :=
    match d with Mk_ErrorDefinition _ _ fields =>
      flat_map (fun p => walk_Expression (ErrorParameter_ty p)) fields end.

  Definition walk_TypeDefinition (d : TypeDefinition) : list node :=
    match d with Mk_TypeDefinition _ _ ty => walk_Expression ty end.

  Definition walk_Using (u : Using) : list node :=
    match u with Mk_Using _ _ oty _ => match oty with Some ty => walk_Expression ty | None => [] end end.

  Definition walk_ContractPart (p : ContractPart) : list node :=
    hit (N_ContractPart p) ++
    match p with
    | ContractPart_ErrorDefinition d => walk_ErrorDefinition d
    | ContractPart_EventDefinition d => walk_EventDefinition d
    | ContractPart_FunctionDefinition f => walk_FunctionDefinition f
    | ContractPart_StructDefinition s => walk_StructDefinition s
    | ContractPart_TypeDefinition d => walk_TypeDefinition d
    | ContractPart_Using u => walk_Using u
    | ContractPart_VariableDefinition v => walk_VariableDefinition v
    | ContractPart_StraySemicolon _ => []
    | ContractPart_EnumDefinition _ => []
    end.

  Definition walk_ContractDefinition (c : ContractDefinition) : list node :=
    match c with Mk_ContractDefinition _ _ _ bases parts =>
      flat_map walk_Base bases ++ flat_map walk_ContractPart parts end.

  Definition walk_SourceUnitPart (p : SourceUnitPart) : list node :=
    hit (N_SourceUnitPart p) ++
    match p with
    | SourceUnitPart_ContractDefinition c => walk_ContractDefinition c
    | SourceUnitPart_ErrorDefinition d => walk_ErrorDefinition d
    | SourceUnitPart_EventDefinition d => walk_EventDefinition d
    | SourceUnitPart_FunctionDefinition f => walk_FunctionDefinition f
    | SourceUnitPart_StructDefinition s => walk_StructDefinition s
    | SourceUnitPart_TypeDefinition d => walk_TypeDefinition d
    | SourceUnitPart_Using u => walk_Using u
    | SourceUnitPart_VariableDefinition v => walk_VariableDefinition v
    | SourceUnitPart_PragmaDirective _ _ _ => []
    | SourceUnitPart_StraySemicolon _ => []
    | SourceUnitPart_EnumDefinition _ => []
    | SourceUnitPart_ImportDirective _ => []
    end.

  Definition walk_SourceUnit (su : SourceUnit) : list node :=
    hit (N_SourceUnit su) ++
    match su with Mk_SourceUnit parts => flat_map walk_SourceUnitPart parts end.

  (* walk_node_for_targets *)
  Definition walk (n : node) : list node :=
    match n with
    | N_Statement s => walk_Statement s
    | N_Expression e => walk_Expression e
    | N_SourceUnit su => walk_SourceUnit su
    | N_SourceUnitPart p => walk_SourceUnitPart p
    | N_ContractPart p => walk_ContractPart p
    end.
End Walk.

(* extract_target_from_node / extract_targets_from_node: a HashSet<Target> built
   from the argument(s); membership = Target equality with some element. *)
Definition extract_target_from_node (t : Target) (n : node) : list node :=
  walk (fun k => Target_eqb k t) n.
Definition extract_targets_from_node (ts : list Target) (n : node) : list node :=
  walk (fun k => existsb (Target_eqb k) ts) n.
