(* Model of the numeric / text functions of /repo/src/analyzer/utils.rs
   (get_line_number, storage_slots_used, get_solidity_major_minor_patch_version) and of
   `str::parse::<i32>()` as used on the pieces of a version string.
   Depends on the Coq standard library and Res only (get_type_size, which needs the
   parse-tree types, lives in Opt_pack.v).  No proofs here. *)
From Coq Require Import List String Ascii NArith ZArith Bool Orders Mergesort.
Import ListNotations.
From Solstat Require Import Res.
Local Open Scope string_scope.
Local Open Scope N_scope.

(* ------------------------------------------------------------------ fixed-width bounds *)
Definition u16_max : N := 65535.
Definition u32_max : N := 4294967295.
Definition i32_max : Z := 2147483647.
Definition i32_min : Z := (-2147483648)%Z.

(* ------------------------------------------------------------------ get_line_number

   pub fn get_line_number(char_number: usize, file_contents: &str) -> i32 {
       let re = Regex::new(r"\n").unwrap();
       let mut i = 1;
       for capture in re.captures_iter(file_contents).into_iter() {
           for c in capture.iter() {                 // one group (group 0) per match
               if c.unwrap().start() > char_number { return i; } else { i = i + 1; }
           }
       }
       return i;     // after the repair of D2 (pinned tree: `return 0;`)
   }

   The successive matches of the regex `\n` are the positions of the byte 0x0A in
   increasing order (in UTF-8 the byte 0x0A occurs only as the character LF). *)
Definition is_lf (c : ascii) : bool := N_of_ascii c =? 10.

Fixpoint lf_positions_from (pos : N) (s : string) : list N :=
  match s with
  | EmptyString => []
  | String c r => if is_lf c then pos :: lf_positions_from (pos + 1) r
                  else lf_positions_from (pos + 1) r
  end.
Definition lf_positions (s : string) : list N := lf_positions_from 0 s.

(* the loop over the matches; `i` is an i32: `i = i + 1` panics (debug build) at i32::MAX *)
Fixpoint line_loop (char_number : N) (starts : list N) (i : Z) : res Z :=
  match starts with
  | [] => Ok i
  | start :: rest =>
      if char_number <? start then Ok i
      else if (i <? i32_max)%Z then line_loop char_number rest (i + 1)%Z
      else Panic "get_line_number: i = i + 1 overflows i32"
  end.

Definition get_line_number (char_number : N) (file_contents : string) : res Z :=
  line_loop char_number (lf_positions file_contents) 1%Z.

(* ------------------------------------------------------------------ storage_slots_used

   pub fn storage_slots_used(variables: Vec<u16>) -> u32 {
       let mut bytes_used_in_slot = 0;                         // u16
       let mut slots_used = 0;                                 // u32
       for variable_size in variables {
           if bytes_used_in_slot + variable_size > 256 {       // u16 addition: may overflow
               slots_used += 1;
               bytes_used_in_slot = variable_size;
           } else {
               bytes_used_in_slot += variable_size;            // the same sum again: <= 256
           }
       }
       if bytes_used_in_slot > 0 { slots_used += 1; }
       slots_used
   }
   The elements are u16 values (< 2^16). *)
Definition slot_incr (slots_used : N) : res N :=
  if u32_max <? slots_used + 1 then Panic "storage_slots_used: slots_used += 1 overflows u32"
  else Ok (slots_used + 1).

Definition slot_step (st : N * N) (variable_size : N) : res (N * N) :=
  let (bytes_used_in_slot, slots_used) := st in
  if u16_max <? bytes_used_in_slot + variable_size
  then Panic "storage_slots_used: bytes_used_in_slot + variable_size overflows u16"
  else if 256 <? bytes_used_in_slot + variable_size
       then do s <- slot_incr slots_used ;; Ok (variable_size, s)
       else Ok (bytes_used_in_slot + variable_size, slots_used).

Definition storage_slots_used (variables : list N) : res N :=
  do st <- foldM slot_step variables (0, 0) ;;
  let (bytes_used_in_slot, slots_used) := st in
  if 0 <? bytes_used_in_slot then slot_incr slots_used else Ok slots_used.

(* ------------------------------------------------------------------ Vec<u16>::sort()
   Ascending sort.  Any sorting function will do: the theorems only use that the result is
   a sorted permutation of the argument (which determines it, <= on N being a total order). *)
Module NOrder <: TotalLeBool.
  Definition t := N.
  Definition leb := N.leb.
  Theorem leb_total : forall a1 a2, leb a1 a2 = true \/ leb a2 a1 = true.
  Proof.
    intros a1 a2. unfold leb. destruct (N.leb a1 a2) eqn:E; [left; reflexivity|].
    right. apply N.leb_le. apply N.leb_gt in E. apply N.lt_le_incl. exact E.
  Qed.
End NOrder.
Module NSort := Sort NOrder.
Definition sort_u16 (l : list N) : list N := NSort.sort l.

(* the comparison made by both packing detectors:
       utils::storage_slots_used(unordered) > utils::storage_slots_used(sorted)      *)
Definition can_be_packed (variable_sizes : list N) : res bool :=
  do unordered <- storage_slots_used variable_sizes ;;
  do ordered <- storage_slots_used (sort_u16 variable_sizes) ;;
  Ok (ordered <? unordered).

(* ------------------------------------------------------------------ version text

   pub fn get_solidity_major_minor_patch_version(s: &str) -> Vec<&str> {
       let mut v = "0.0.0";
       let re = Regex::new(r"\d+\.\d+\.+\d+").unwrap();
       for capture in re.captures_iter(s) { for m in capture.iter() { v = m.unwrap().as_str(); } }
       v.split(".").collect()
   }

   Explicit scanner for the regex.  ASCII digits only (the `\d` of the regex crate also
   accepts the other Unicode decimal digits: stated gap, see tools/checks/version_common.py).
   Semantics modelled: leftmost-first; an attempt anchored at a position takes all digits,
   one dot, all digits, all dots, all digits (the classes of adjacent atoms are disjoint, so
   giving back characters of a greedy run can never make the following atom succeed);
   after a failed attempt at position p the next attempt is at p + 1; after a match the
   search resumes at its end (matches are non-empty and do not overlap); the last match wins. *)
Definition is_digit (c : ascii) : bool := let n := N_of_ascii c in (48 <=? n) && (n <=? 57).
Definition is_dot (c : ascii) : bool := N_of_ascii c =? 46.

(* longest prefix whose characters satisfy p, and the rest *)
Fixpoint span (p : ascii -> bool) (s : string) : string * string :=
  match s with
  | EmptyString => (EmptyString, EmptyString)
  | String c r => if p c then let (a, b) := span p r in (String c a, b) else (EmptyString, s)
  end.

Definition is_empty (s : string) : bool := match s with EmptyString => true | _ => false end.

(* one attempt anchored at the beginning of s: the matched text *)
Definition match_here (s : string) : option string :=
  let (d1, r1) := span is_digit s in
  if is_empty d1 then None else
  match r1 with
  | EmptyString => None
  | String c r2 =>
      if negb (is_dot c) then None else
      let (d2, r3) := span is_digit r2 in
      if is_empty d2 then None else
      let (dots, r4) := span is_dot r3 in
      if is_empty dots then None else
      let (d3, _) := span is_digit r4 in
      if is_empty d3 then None else Some (d1 ++ String c (d2 ++ dots ++ d3))
  end.

Fixpoint slen (s : string) : N :=
  match s with EmptyString => 0 | String _ r => 1 + slen r end.

(* all attempts from left to right; `skip` = number of characters still covered by the
   previous match; `last` = text of the last match so far *)
Fixpoint scan_version (s : string) (skip : N) (last : string) : string :=
  match s with
  | EmptyString => last
  | String _ r =>
      if 0 <? skip then scan_version r (skip - 1) last
      else match match_here s with
           | Some m => scan_version r (slen m - 1) m
           | None => scan_version r 0 last
           end
  end.

(* str::split("."): never empty; consecutive dots give empty pieces *)
Fixpoint split_dot (s : string) : list string :=
  match s with
  | EmptyString => [EmptyString]
  | String c r =>
      if is_dot c then EmptyString :: split_dot r
      else match split_dot r with
           | h :: t => String c h :: t
           | [] => [String c EmptyString]
           end
  end.

Definition get_solidity_major_minor_patch_version (solidity_version_str : string) : list string :=
  split_dot (scan_version solidity_version_str 0 "0.0.0").

(* ------------------------------------------------------------------ str::parse::<i32>().unwrap()
   Ok v for an optional sign followed by one or more ASCII digits whose value lies in
   [-2^31, 2^31-1]; every Err(..) of Rust (empty, sign only, non-digit, overflow) is the
   Panic of the `.unwrap()` that follows in utils.rs.  The scanner above only produces
   digit strings and "" (between consecutive dots), so the sign cases never arise there. *)
Fixpoint digits_val (s : string) (acc : N) : option N :=
  match s with
  | EmptyString => Some acc
  | String c r =>
      if is_digit c then digits_val r (10 * acc + (N_of_ascii c - 48)) else None
  end.

Definition parse_i32 (s : string) : res Z :=
  match s with
  | EmptyString => Panic "parse::<i32>: empty string"
  | String c r =>
      let n := N_of_ascii c in
      let neg := n =? 45 in
      let ds := if (n =? 45) || (n =? 43) then r else s in
      if is_empty ds then Panic "parse::<i32>: sign without digits" else
      match digits_val ds 0 with
      | None => Panic "parse::<i32>: invalid digit"
      | Some v =>
          let v' := if neg then (- Z.of_N v)%Z else Z.of_N v in
          if ((i32_min <=? v') && (v' <=? i32_max))%Z then Ok v'
          else Panic "parse::<i32>: number out of range"
      end
  end.
