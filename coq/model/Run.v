(* Model of a whole run of the solstat binary over an abstract file system (property C18):
     main                (src/main.rs)
     Opts::new           (src/opts.rs; model/Opts.v)
     generate_report     (src/report/generation.rs: the single fs::write("solstat_report.md", ..))

   The file system is a partial map from (normalised, absolute) paths to nodes.  A directory
   carries no stored listing: what `read_dir` returns is derived from the map (the names n such
   that dir/n is mapped), so creating a file is ONE update of the map.

   Oracles (Section variables; nothing is assumed about them here):
     parse_toml   toml::from_str::<SolstatToml>  (None = Err)
     analyse_all  the three analyze_dir (vulnerabilities, optimizations, qa - every read_dir and
                  read_to_string of the analysed tree) followed by the rendering of the report
                  text in generate_report; `Panic` = any panic on the way (unreadable directory,
                  unreadable file, parser rejection, detector panic).  It READS the file system
                  and returns a text; being a Gallina function it cannot change the file system.
                  Their models are Dir.v / Report.v; they stay abstract here.

   Order of effects in main: Opts::new (reads the toml file, probes ./contracts) -> analyze_dir x3
   (reads) -> generate_report renders -> fs::write(cwd/solstat_report.md) as the last action.
   A panic anywhere before the write ends the process with status 101 and nothing written;
   process::exit(1) happens in Opts::new only.

   Not modelled: permissions and I/O errors other than "the report path is a directory"
   (fs::write fails -> `expect` panic), symbolic links, concurrent modification of the tree
   by other processes, the directory's own metadata (mtime), stdout/stderr. *)
From Coq Require Import List String Ascii NArith Bool.
Import ListNotations.
From Solstat Require Import Res Names Opts.
From Solstat Require Dir.
Local Open Scope string_scope.
Local Open Scope N_scope.

Definition path := string.

Inductive fnode : Type :=
  | FileN (content : string)
  | DirN.

Definition fs := path -> option fnode.

Definition report_name : string := "solstat_report.md".

(* a relative path is taken from the working directory; an absolute one as it is *)
Definition join (cwd p : path) : path :=
  if Dir.starts_with "/" p then p else cwd ++ "/" ++ p.

Definition report_path (cwd : path) : path := cwd ++ "/" ++ report_name.

Definition is_dir (f : fs) (p : path) : bool :=
  match f p with Some DirN => true | _ => false end.

(* fs::read_to_string *)
Definition read_file (f : fs) (p : path) : option string :=
  match f p with Some (FileN c) => Some c | _ => None end.

(* fs::write(p, c): create or truncate, then write all of c *)
Definition write_file (f : fs) (p : path) (c : string) : fs :=
  fun q => if String.eqb q p then Some (FileN c) else f q.

Section Run.
  Variable parse_toml : string -> option SolstatToml.
  Variable analyse_all : fs -> path -> path -> list N -> list N -> list N -> res string.
                       (* fs, cwd, directory as given, optimizations, vulnerabilities, qa *)

  (* what Opts::new gets out of --toml *)
  Definition toml_of (f : fs) (cwd : path) (a : Args) : option SolstatToml :=
    match arg_toml a with
    | None => None
    | Some file => match read_file f (join cwd file) with
                   | None => None
                   | Some txt => parse_toml txt
                   end
    end.

  Definition exit_panic : N := 101.

  (* main: the file system after the run and the exit status *)
  Definition run (f : fs) (cwd : path) (a : Args) : fs * N :=
    match resolve a (toml_of f cwd a) (is_dir f (join cwd default_dir)) with
    | PanicExit _ => (f, exit_panic)
    | Exit1 => (f, 1)
    | Run p o v q =>
        match analyse_all f cwd p o v q with
        | Panic _ => (f, exit_panic)
        | Ok text =>
            if is_dir f (report_path cwd) then (f, exit_panic)     (* fs::write fails: expect panics *)
            else (write_file f (report_path cwd) text, 0)
        end
    end.

  (* the text a successful run writes *)
  Definition report_of (f : fs) (cwd : path) (a : Args) : option string :=
    match resolve a (toml_of f cwd a) (is_dir f (join cwd default_dir)) with
    | Run p o v q => match analyse_all f cwd p o v q with Ok text => Some text | Panic _ => None end
    | _ => None
    end.
End Run.

(* two file systems that agree everywhere except (possibly) at p, where neither has a directory *)
Definition agree_except (p : path) (f1 f2 : fs) : Prop :=
  (forall q, q <> p -> f1 q = f2 q) /\ is_dir f1 p = false /\ is_dir f2 p = false.

(* the property of the analysis that C16 (inert_files) establishes for the model of analyze_dir:
   a file whose NAME is not eligible is never opened, so its presence and its content are
   irrelevant.  Used as a hypothesis of `old_report_inert` only. *)
Definition ignores_ineligible (analyse_all : fs -> path -> path -> list N -> list N -> list N -> res string) : Prop :=
  forall (f1 f2 : fs) (d name : string), Dir.eligible name = false ->
    agree_except (d ++ "/" ++ name) f1 f2 ->
    forall cwd p o v q, analyse_all f1 cwd p o v q = analyse_all f2 cwd p o v q.
