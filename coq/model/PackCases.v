(* Program-level helpers of the C10 correspondence check (tools/checks/c10.py):
   the implementation's location sets for pack_storage_variables / pack_struct_variables
   (as recorded by `vharness prog`) are compared with the model (Opt_pack.v) and with the
   clauses of the property evaluated with the specification's slot count. *)
From Coq Require Import List String NArith Bool.
Import ListNotations.
From Solstat Require Import Res Lift Pt Walk Cases Utils SlotSpec UtilCases Opt_pack.
Local Open Scope N_scope.

Definition mem_pair (x : N * N) (l : list (N * N)) : bool := existsb (pair_eqb x) l.
Definition subset (a b : list (N * N)) : bool := forallb (fun x => mem_pair x b) a.
Definition same_set (a b : list (N * N)) : bool := subset a b && subset b a.

Definition model_set (r : res (list Loc)) : option (list (N * N)) :=
  match r with Ok l => Some (map loc_pair l) | Panic _ => None end.

Definition opt_same (m i : option (list (N * N))) : bool :=
  match m, i with
  | Some a, Some b => same_set a b
  | None, None => true
  | _, _ => false
  end.

(* the candidates by the text of the property: top-level contracts; structs at file level
   and directly inside a contract.  (location, member sizes) *)
Definition contracts_of (su : SourceUnit) : list ((N * N) * list N) :=
  flat_map (fun p => match p with
                     | SourceUnitPart_ContractDefinition c =>
                         [(loc_pair (ContractDefinition_loc c), contract_variable_sizes c)]
                     | _ => []
                     end) (SourceUnit_f0 su).

Definition structs_of (su : SourceUnit) : list ((N * N) * list N) :=
  flat_map (fun p => match p with
                     | SourceUnitPart_StructDefinition s =>
                         [(loc_pair (StructDefinition_loc s), struct_variable_sizes s)]
                     | SourceUnitPart_ContractDefinition c =>
                         flat_map (fun q => match q with
                                            | ContractPart_StructDefinition s =>
                                                [(loc_pair (StructDefinition_loc s), struct_variable_sizes s)]
                                            | _ => []
                                            end) (ContractDefinition_parts c)
                     | _ => []
                     end) (SourceUnit_f0 su).

(* the verdict `reported` for the sizes l respects the three clauses of the property *)
Definition clause_ok (l : list N) (reported : bool) : bool :=
  if negb (all_size_ok l) then true else clause_check l reported.

Definition cands_ok (cands : list ((N * N) * list N)) (impl : list (N * N)) : bool :=
  forallb (fun c => clause_ok (snd c) (mem_pair (fst c) impl)) cands &&
  forallb (fun x => existsb (fun c => pair_eqb x (fst c)) cands) impl.

(* failed sub-checks: 1 / 2 model differs (contract / struct detector);
   3 / 4 the implementation's verdicts violate the property (contract / struct) *)
Definition check_pack (su : SourceUnit) (ic it : option (list (N * N))) : list N :=
  (if opt_same (model_set (pack_storage_variables_optimization su)) ic then [] else [1]) ++
  (if opt_same (model_set (pack_struct_variables_optimization su)) it then [] else [2]) ++
  (match ic with Some l => if cands_ok (contracts_of su) l then [] else [3] | None => [3] end) ++
  (match it with Some l => if cands_ok (structs_of su) l then [] else [4] | None => [4] end).

(* statistics: (contracts, contracts with >= 2 sized members, contracts the model reports,
                structs, structs with >= 2 members, structs the model reports) *)
Definition stats_pack (su : SourceUnit) : N * N * N * N * N * N :=
  let cs := contracts_of su in let ss := structs_of su in
  let big := fun c : (N * N) * list N => Nat.leb 2 (List.length (snd c)) in
  let rep := fun c : (N * N) * list N => match can_be_packed (snd c) with Ok true => true | _ => false end in
  (len cs, len (filter big cs), len (filter rep cs), len ss, len (filter big ss), len (filter rep ss)).

(* ------------------------------------------------------------------ type sizes: the list of
   type expressions of `vh_digest types`, in the same order *)
Definition L0 : Loc := Loc_File 0 0 0.
Definition type_ns : list N := map N.of_nat (seq 0 265) ++ [65535].
Definition type_cases : list Expression :=
  map (Expression_Type L0) [Ty_Bool; Ty_Address; Ty_AddressPayable; Ty_Payable; Ty_String; Ty_DynamicBytes; Ty_Rational] ++
  map (fun n => Expression_Type L0 (Ty_Uint n)) type_ns ++
  map (fun n => Expression_Type L0 (Ty_Int n)) type_ns ++
  map (fun n => Expression_Type L0 (Ty_Bytes (N.of_nat n))) (seq 0 256) ++
  [Expression_Type L0 (Ty_Mapping L0 (Expression_Type L0 (Ty_Uint 8)) (Expression_Type L0 Ty_Bool));
   Expression_Type L0 (Ty_Function [] [] None);
   Expression_Variable (Mk_Identifier L0 "v0"%string)].
Definition type_size_answers : list N := map get_type_size type_cases.
