(* Model of src/report/{optimization_report,vulnerability_report,qa_report,generation}.rs
   (after the repairs D11 and D12; see DESIGN 9).

   A findings map  HashMap<Pattern, Vec<(String, BTreeSet<i32>)>>  is an association list
       list (Pattern * list (string * list Z))
   whose order is the iteration order of the HashMap (arbitrary: the theorems quantify over
   every permutation; keys of a HashMap are pairwise distinct).  A BTreeSet<i32> is a strictly
   increasing list Z.  i32::to_string is the decimal rendering with '-' for negatives. *)
From Coq Require Import List String Ascii NArith ZArith Bool DecimalString DecimalN.
Import ListNotations.
From Solstat Require Import Bytes Tables Sections.
Local Open Scope string_scope.
Local Open Scope list_scope.

Definition findings (P : Type) : Type := list (P * list (string * list Z)).

(* ---- integer rendering: usize::to_string / i32::to_string *)
Definition usize_to_string (n : N) : string := NilEmpty.string_of_uint (N.to_uint n).

Definition i32_to_string (z : Z) : string :=
  match z with
  | Z0 => "0"
  | Zpos p => usize_to_string (Npos p)
  | Zneg p => "-" ++ usize_to_string (Npos p)
  end.

(* ---- slice::sort / sort_by_key: a stable sort (insertion sort) *)
Section Sort.
  Context {A : Type} (leb : A -> A -> bool).
  Fixpoint insert (x : A) (l : list A) : list A :=
    match l with
    | [] => [x]
    | y :: r => if leb x y then x :: l else y :: insert x r
    end.
  Definition isort (l : list A) : list A := fold_right insert [] l.
End Sort.

(* ---- Ord of (String, BTreeSet<i32>): strings by bytes, sets by their ascending element
        sequence, both lexicographic, the pair lexicographic *)
Fixpoint lex_compare {A : Type} (c : A -> A -> comparison) (a b : list A) : comparison :=
  match a, b with
  | [], [] => Eq
  | [], _ :: _ => Lt
  | _ :: _, [] => Gt
  | x :: a', y :: b' => match c x y with Eq => lex_compare c a' b' | r => r end
  end.

Definition str_compare (a b : string) : comparison :=
  lex_compare N.compare (string_to_bytes a) (string_to_bytes b).

Definition entry_compare (a b : string * list Z) : comparison :=
  match str_compare (fst a) (fst b) with
  | Eq => lex_compare Z.compare (snd a) (snd b)
  | r => r
  end.

Definition entry_leb (a b : string * list Z) : bool :=
  match entry_compare a b with Gt => false | _ => true end.

(* sort_by_key(|x| x.0 as usize) *)
Definition key_leb {P V : Type} (idx : P -> N) (a b : P * V) : bool := N.leb (idx (fst a)) (idx (fst b)).

(* ---- one section *)
(* for line in lines { push "- " + file + ":" + line.to_string(); push "\n" } *)
Definition render_entry (file : string) (z : Z) : string :=
  "- " ++ file ++ ":" ++ i32_to_string z ++ nl.

Definition render_file_lines (fl : string * list Z) : string :=
  sconcat (map (render_entry (fst fl)) (snd fl)).

Definition matches_section (v : list (string * list Z)) : string :=
  "### Lines" ++ nl ++ sconcat (map render_file_lines v) ++ nl ++ nl.

(* the counter incremented once per entry *)
Definition count_matches (v : list (string * list Z)) : N :=
  fold_left (fun n fl => (n + N.of_nat (List.length (snd fl)))%N) v 0%N.

(* report_section + "\n" + matches_section *)
Definition completed_report_section (text : string) (v : list (string * list Z)) : string :=
  text ++ nl ++ matches_section v.

(* `if x.1.len() > 0` *)
Definition nonempty_vec {P : Type} (kv : P * list (string * list Z)) : bool :=
  match snd kv with [] => false | _ :: _ => true end.

(* the loop `for x in <map sorted by discriminant> { if x.1.len() > 0 { ..sort x.1.. } }`:
   the (pattern, sorted vector) pairs that are rendered, in rendering order *)
Definition rendered_items {P : Type} (idx : P -> N) (F : findings P) : findings P :=
  map (fun kv => (fst kv, isort entry_leb (snd kv))) (filter nonempty_vec (isort (key_leb idx) F)).

Definition total_entries {P : Type} (items : findings P) : N :=
  fold_left (fun n kv => (n + count_matches (snd kv))%N) items 0%N.

(* ---- optimization_report.rs *)
Definition opt_overview (total : N) : string :=
  opt_overview_prefix ++ usize_to_string total ++ opt_overview_suffix.

Definition generate_optimization_report (F : findings Optimization) : string :=
  let items := rendered_items Optimization_idx F in
  let optimization_report :=
    sconcat (map (fun kv => completed_report_section (optimization_section (fst kv)) (snd kv)) items) in
  opt_overview (total_entries items) ++ optimization_report.

(* ---- vulnerability_report.rs *)
Definition vul_overview (total : N) : string :=
  vul_overview_prefix ++ usize_to_string total ++ vul_overview_suffix.

Definition high_heading : string := "## High Risk" ++ nl.
Definition medium_heading : string := "## Medium Risk" ++ nl.
Definition low_heading : string := "## Low Risk" ++ nl.

Definition severity_heading (s : VulnerabilitySeverity) : string :=
  match s with Sev_High => high_heading | Sev_Medium => medium_heading | Sev_Low => low_heading end.

(* the buffer of one severity after the loop: heading, then the sections pushed to it *)
Definition severity_buffer (s : VulnerabilitySeverity) (items : findings Vulnerability) : string :=
  severity_heading s ++
  sconcat (map (fun kv => completed_report_section (vulnerability_section (fst kv)) (snd kv))
               (filter (fun kv => VulnerabilitySeverity_eqb (vul_severity (fst kv)) s) items)).

(* `if buffer != String::from(heading) { push buffer }` *)
Definition emit_buffer (s : VulnerabilitySeverity) (items : findings Vulnerability) : string :=
  let b := severity_buffer s items in
  if String.eqb b (severity_heading s) then "" else b.

Definition generate_vulnerability_report (F : findings Vulnerability) : string :=
  let items := rendered_items Vulnerability_idx F in
  vul_overview (total_entries items) ++
  (emit_buffer Sev_High items ++ emit_buffer Sev_Medium items ++ emit_buffer Sev_Low items).

(* ---- qa_report.rs *)
Definition generate_qa_report (F : findings QualityAssurance) : string :=
  let items := rendered_items QualityAssurance_idx F in
  (qa_overview ++ nl) ++
  sconcat (map (fun kv => completed_report_section (qa_section (fst kv)) (snd kv)) items).

(* ---- generation.rs: the string written to solstat_report.md *)
Definition nonempty_map {P : Type} (F : findings P) : bool :=
  match F with [] => false | _ :: _ => true end.

Definition generate_report (V : findings Vulnerability) (O : findings Optimization)
           (Q : findings QualityAssurance) : string :=
  (if nonempty_map V then generate_vulnerability_report V ++ nl ++ nl else "") ++
  (if nonempty_map O then generate_optimization_report O ++ nl ++ nl else "") ++
  (if nonempty_map Q then generate_qa_report Q ++ nl ++ nl else "").
