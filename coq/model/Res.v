(* Result type of model functions: a value, or the panic the Rust code would raise. *)
From Coq Require Import String List.
Import ListNotations.

Inductive res (A : Type) : Type :=
  | Ok (a : A)
  | Panic (site : string).
Arguments Ok {A} a.
Arguments Panic {A} site.

Definition bind {A B} (r : res A) (f : A -> res B) : res B :=
  match r with Ok a => f a | Panic s => Panic s end.
Definition rmap {A B} (f : A -> B) (r : res A) : res B :=
  match r with Ok a => Ok (f a) | Panic s => Panic s end.
Definition is_ok {A} (r : res A) : bool := match r with Ok _ => true | Panic _ => false end.

Notation "'do' x <- r ;; k" := (bind r (fun x => k)) (at level 200, x name, r at level 100, k at level 200).

(* monadic map / fold over lists (first panic wins, as in a Rust loop) *)
Fixpoint mapM {A B} (f : A -> res B) (l : list A) : res (list B) :=
  match l with
  | [] => Ok []
  | x :: r => do y <- f x ;; do ys <- mapM f r ;; Ok (y :: ys)
  end.

Fixpoint foldM {A S} (f : S -> A -> res S) (l : list A) (s : S) : res S :=
  match l with
  | [] => Ok s
  | x :: r => do s' <- f s x ;; foldM f r s'
  end.
