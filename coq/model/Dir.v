(* Model of the three directory walkers
     solstat::analyzer::optimizations::analyze_dir
     solstat::analyzer::vulnerabilities::analyze_dir
     solstat::analyzer::qa::analyze_dir
   (src/analyzer/{optimizations,vulnerabilities,qa}/mod.rs).  The three Rust functions are
   copies of each other up to the pattern enum and the per-file analysis function
   (analyze_for_optimization / analyze_for_vulnerability / analyze_for_qa); they are the
   three instances of the ONE generic definition below (Section variables `pattern`,
   `analyze`).

   The model is that of the code AFTER the repair of defect D3 (DESIGN section 9): on a
   sub-directory the returned map is merged by APPENDING each of its vectors to the vector
   already stored under the same pattern
       for (k, v) in analyze_dir(sub, ..) { map.entry(k).or_insert(vec![]).extend(v) }
   (the pinned tree had `map.extend(analyze_dir(sub, ..))`, which replaces the stored
   vector).

   What is abstracted, and how:
   * the file system below the target directory is a list of `entry`; the ORDER OF THE
     LIST IS THE ORDER IN WHICH `fs::read_dir` LISTS THE DIRECTORY (arbitrary; every
     theorem quantifies over it);
   * `content = None` is a file for which `fs::read_to_string(..).expect("Unable to read
     file")` panics (bytes that are not UTF-8, unreadable file);
   * `HashMap<Pattern, Vec<(String, BTreeSet<LineNumber>)>>` is an association list with
     unique keys; every value vector is kept in push order; a BTreeSet<i32> is a strictly
     increasing `list Z`.  The order of the KEYS in the association list is an artefact of
     the model (a HashMap has no key order; new keys are put at the end here): results are
     compared with the implementation after sorting by key, and the theorems speak about
     `lookup`, the key set and the multiset of entries only;
   * `analyze p content` is the per-file analysis `analyze_for_*(content, i, p)`:
     `Panic` when the parser rejects the file (`solang_parser::parse(..).unwrap()`) or a
     detector panics, otherwise the strictly increasing list of reported lines;
   * the index `i` of the entry in the listing (`.enumerate()`), which the code passes on
     as the parser's file number, is DROPPED: it only ends up in the first component of
     every `Loc::File(i, start, end)`, and the reported lines are computed from `start`
     alone (`utils::get_line_number(loc.start(), file_contents)`).  The correspondence
     check confirms it (per-file oracle computed with file numbers 0, 7 and 1000, which must
     agree; directory runs use whatever position the file has);
   * `str::to_lowercase` is modelled as ASCII lowering (bytes 'A'..'Z' + 32, every other
     byte unchanged).  The two differ on non-ASCII letters only, and no non-ASCII character
     has an ASCII character among `.`, `t`, `s`, `o`, `l` in its lower-case expansion
     (checked exhaustively over all Unicode scalar values by `vh_dir lowercheck`), so
     whether the lowered name contains ".t.sol" is the same for both;
   * outside the model: names that are not valid Unicode (`to_str().expect(..)` panics in
     the code for ANY such entry, eligible or not), symbolic links (`is_dir` follows them),
     a target path that is not a readable directory, I/O errors of `read_dir`. *)
From Coq Require Import List String Ascii NArith ZArith Bool.
Import ListNotations.
From Solstat Require Import Res.
Local Open Scope string_scope.
Local Open Scope list_scope.

(* ------------------------------------------------------------------ directory trees *)
Inductive entry : Type :=
  | EFile (name : string) (content : option string)
  | EDir (name : string) (children : list entry).

(* ------------------------------------------------------------------ the name filter *)
(* u8::to_ascii_lowercase *)
Definition ascii_lower (c : ascii) : ascii :=
  let n := N_of_ascii c in
  if (N.leb 65 n && N.leb n 90)%bool then ascii_of_N (n + 32) else c.

Fixpoint lower (s : string) : string :=
  match s with
  | EmptyString => EmptyString
  | String c r => String (ascii_lower c) (lower r)
  end.

(* str::starts_with *)
Fixpoint starts_with (p s : string) : bool :=
  match p, s with
  | EmptyString, _ => true
  | String a p', String b s' => Ascii.eqb a b && starts_with p' s'
  | String _ _, EmptyString => false
  end.

(* str::contains(&str) *)
Fixpoint contains (x s : string) : bool :=
  starts_with x s || match s with EmptyString => false | String _ r => contains x r end.

(* str::ends_with(&str) *)
Fixpoint ends_with (suf s : string) : bool :=
  String.eqb suf s || match s with EmptyString => false | String _ r => ends_with suf r end.

(* file_name.ends_with(".sol") && !file_name.to_lowercase().contains(".t.sol") *)
Definition eligible (file_name : string) : bool :=
  ends_with ".sol" file_name && negb (contains ".t.sol" (lower file_name)).

(* ------------------------------------------------------------------ the walker *)
(* A Rust `for x in l { s = f(s, x)? }` loop (first panic wins).  Same function as
   Res.foldM, but with `f` bound outside the `fix`, which is what lets Coq's guard checker
   accept the recursion of analyze_entry through the list of children. *)
Section FoldRes.
  Variables (A S : Type) (f : S -> A -> res S).
  Fixpoint fold_res (l : list A) (s : S) {struct l} : res S :=
    match l with
    | [] => Ok s
    | x :: r => match f s x with Ok s' => fold_res r s' | Panic site => Panic site end
    end.
End FoldRes.
Arguments fold_res {A S} f l s.

Section Dir.
  Variable pattern : Type.
  Variable pattern_eq_dec : forall a b : pattern, {a = b} + {a <> b}.
  (* analyze_for_{optimization,vulnerability,qa}(content, _, p) *)
  Variable analyze : pattern -> string -> res (list Z).

  Definition findings := list (string * list Z).        (* Vec<(String, BTreeSet<LineNumber>)> *)
  Definition fmap := list (pattern * findings).          (* HashMap<Pattern, Vec<..>> *)

  (* map.entry(p).or_insert(vec![]).extend(v)   (push = extend by one element) *)
  Fixpoint map_append (m : fmap) (p : pattern) (v : findings) : fmap :=
    match m with
    | [] => [(p, v)]
    | (q, w) :: r => if pattern_eq_dec q p then (q, w ++ v) :: r else (q, w) :: map_append r p v
    end.

  (* for (k, v) in sub { map.entry(k).or_insert(vec![]).extend(v) }   -- the repaired merge *)
  Definition map_merge (m sub : fmap) : fmap :=
    fold_left (fun acc kv => map_append acc (fst kv) (snd kv)) sub m.

  (* the inner loop `for pattern in &patterns { .. }` for one eligible file *)
  Definition analyze_file (name content : string) (ps : list pattern) (m : fmap) : res fmap :=
    foldM (fun acc p =>
             do ls <- analyze p content ;;
             Ok (match ls with
                 | [] => acc                                   (* line_numbers.len() > 0 fails *)
                 | _ :: _ => map_append acc p [(name, ls)]
                 end)) ps m.

  Section Walk.
    Variable ps : list pattern.

    (* one iteration of `for (i, path) in fs::read_dir(target_dir)..` on the accumulated map,
       and the whole loop *)
    Fixpoint analyze_entry (e : entry) (m : fmap) {struct e} : res fmap :=
      match e with
      | EFile name content =>
          if eligible name then
            match content with
            | None => Panic "Unable to read file"
            | Some c => analyze_file name c ps m
            end
          else Ok m
      | EDir _ children =>
          do sub <- fold_res (fun acc e' => analyze_entry e' acc) children [] ;;
          Ok (map_merge m sub)
      end.

    Definition analyze_entries (l : list entry) (m : fmap) : res fmap :=
      fold_res (fun acc e => analyze_entry e acc) l m.
  End Walk.

  (* analyze_dir(target_dir, patterns) where `t` is the listing of target_dir *)
  Definition analyze_dir (t : list entry) (ps : list pattern) : res fmap :=
    analyze_entries ps t [].

  (* the vector stored under a key ([] when the key is absent) *)
  Fixpoint lookup (m : fmap) (p : pattern) : findings :=
    match m with
    | [] => []
    | (q, w) :: r => if pattern_eq_dec q p then w else lookup r p
    end.

  Definition keys (m : fmap) : list pattern := map fst m.
End Dir.

Arguments map_append {pattern} pattern_eq_dec m p v.
Arguments map_merge {pattern} pattern_eq_dec m sub.
Arguments analyze_file {pattern} pattern_eq_dec analyze name content ps m.
Arguments analyze_entry {pattern} pattern_eq_dec analyze ps e m.
Arguments analyze_entries {pattern} pattern_eq_dec analyze ps l m.
Arguments analyze_dir {pattern} pattern_eq_dec analyze t ps.
Arguments lookup {pattern} pattern_eq_dec m p.
Arguments keys {pattern} m.
