(* Correspondence helpers for the 30 detectors (evaluated by vm_compute in cases files). *)
From Coq Require Import List String Ascii NArith ZArith Bool.
Import ListNotations.
From Solstat Require Import Lift Pt Walk Res Nodes Utils Detectors Cases.
Local Open Scope N_scope.

(* detectors in the order of harness/src/main.rs `detectors()`; None = modelled elsewhere *)
Definition det_table : list (option (SourceUnit -> res (list Loc))) :=
  [ Some address_balance_optimization; Some address_zero_optimization;
    Some assign_update_array_optimization; Some bool_equals_bool_optimization;
    Some cache_array_length_optimization; Some constant_variable_optimization;
    Some immutable_variables_optimization; Some increment_decrement_optimization;
    Some memory_to_calldata_optimization; Some multiple_require_optimization;
    Some optimal_comparison_optimization; None; None;
    Some payable_function_optimization; Some private_constant_optimization;
    Some safe_math_pre_080_optimization; Some safe_math_post_080_optimization;
    Some shift_math_optimization; Some short_revert_string_optimization;
    Some solidity_keccak256_optimization; Some solidity_math_optimization;
    Some sstore_optimization; Some string_error_optimization;
    Some divide_before_multiply_vulnerability; Some floating_pragma_vulnerability;
    Some unprotected_selfdestruct_vulnerability; Some unsafe_erc20_operation_vulnerability;
    Some constructor_order_qa; Some private_func_leading_underscore;
    Some private_vars_leading_underscore ].

Definition incl_pairs (a b : list (N * N)) : bool := forallb (fun x => existsb (pair_eqb x) b) a.
Definition set_eqb (a b : list (N * N)) : bool := incl_pairs a b && incl_pairs b a.

Definition locs_pairs (l : list Loc) : list (N * N) := map loc_pair l.

(* implementation result: Some set | None (= PANIC) *)
Definition det_agrees (m : res (list Loc)) (i : option (list (N * N))) : bool :=
  match m, i with
  | Ok ls, Some s => set_eqb (locs_pairs ls) s
  | Panic _, None => true
  | _, _ => false
  end.

Fixpoint mismatches_from (k : N) (ds : list (option (SourceUnit -> res (list Loc)))) (su : SourceUnit)
         (impl : list (option (list (N * N)))) : list N :=
  match ds, impl with
  | d :: ds', i :: impl' =>
      (match d with
       | Some f => if det_agrees (f su) i then [] else [k]
       | None => []
       end) ++ mismatches_from (k + 1) ds' su impl'
  | _, _ => []
  end.

(* indices (harness order) of detectors whose location set differs from the model *)
Definition check_dets (su : SourceUnit) (impl : list (option (list (N * N)))) : list N :=
  mismatches_from 0 det_table su impl.

(* ---- analyze_for_*: BTreeSet of get_line_number(loc.start(), file_contents) *)
Fixpoint insert_sorted (z : Z) (l : list Z) : list Z :=
  match l with
  | [] => [z]
  | x :: r => if (z <? x)%Z then z :: l else if (z =? x)%Z then l else x :: insert_sorted z r
  end.
Definition btree_of (l : list Z) : list Z := fold_right insert_sorted [] l.

Definition analyze_lines (d : SourceUnit -> res (list Loc)) (src : string) (su : SourceUnit) : res (list Z) :=
  do locs <- d su ;;
  do ls <- mapM (fun l => get_line_number (loc_start l) src) locs ;;
  Ok (btree_of ls).

Definition lines_agree (m : res (list Z)) (i : option (list Z)) : bool :=
  match m, i with
  | Ok ls, Some s => list_eqb Z.eqb ls s
  | Panic _, None => true
  | _, _ => false
  end.

Fixpoint line_mismatches_from (k : N) (ds : list (option (SourceUnit -> res (list Loc)))) (src : string)
         (su : SourceUnit) (impl : list (option (list Z))) : list N :=
  match ds, impl with
  | d :: ds', i :: impl' =>
      (match d with
       | Some f => if lines_agree (analyze_lines f src su) i then [] else [k]
       | None => []
       end) ++ line_mismatches_from (k + 1) ds' src su impl'
  | _, _ => []
  end.
Definition check_lines (src : string) (su : SourceUnit) (impl : list (option (list Z))) : list N :=
  line_mismatches_from 0 det_table src su impl.

(* model outputs, for diagnostics in replay files *)
Definition model_det (k : nat) (su : SourceUnit) : option (list (N * N)) :=
  match nth k det_table None with
  | Some f => match f su with Ok ls => Some (locs_pairs ls) | Panic _ => None end
  | None => Some []
  end.

(* ---- C02, detector level, specification evaluated on the implementation's output:
   the reported line set = { 1 + #LF before start | (start, end) reported } *)
Fixpoint count_lf_before (n : nat) (s : string) (acc : Z) : Z :=
  match n, s with
  | S n', String c r => count_lf_before n' r (if (N_of_ascii c =? 10)%N then (acc + 1)%Z else acc)
  | _, _ => acc
  end.
Definition spec_line (src : string) (start : N) : Z := count_lf_before (N.to_nat start) src 1%Z.
Definition incl_z (a b : list Z) : bool := forallb (fun x => existsb (Z.eqb x) b) a.
Definition spec_lines_ok (src : string) (locs : option (list (N * N))) (lines : option (list Z)) : bool :=
  match locs, lines with
  | Some ls, Some zs => let want := map (fun p => spec_line src (fst p)) ls in incl_z want zs && incl_z zs want
  | _, _ => true
  end.
Fixpoint spec_lines_from (k : N) (src : string) (locs : list (option (list (N * N)))) (lines : list (option (list Z))) : list N :=
  match locs, lines with
  | l :: locs', z :: lines' => (if spec_lines_ok src l z then [] else [k]) ++ spec_lines_from (k + 1) src locs' lines'
  | _, _ => []
  end.
Definition spec_lines (src : string) (locs : list (option (list (N * N)))) (lines : list (option (list Z))) : list N :=
  spec_lines_from 0 src locs lines.
