(* Helpers shared by the detector models: Node accessors (ast.rs `impl Node`),
   string predicates, the HashMap<String, _> model, location sets. *)
From Coq Require Import List String Ascii NArith Bool.
Import ListNotations.
From Solstat Require Import Lift Pt Walk Res.
Local Open Scope string_scope.

(* ---- Node::{expression, statement, source_unit_part, contract_part} (Option) *)
Definition node_expression (n : node) : option Expression :=
  match n with N_Expression e => Some e | _ => None end.
Definition node_statement (n : node) : option Statement :=
  match n with N_Statement s => Some s | _ => None end.
Definition node_source_unit_part (n : node) : option SourceUnitPart :=
  match n with N_SourceUnitPart p => Some p | _ => None end.
Definition node_contract_part (n : node) : option ContractPart :=
  match n with N_ContractPart p => Some p | _ => None end.

(* `.unwrap()` *)
Definition unwrap {A} (site : string) (o : option A) : res A :=
  match o with Some a => Ok a | None => Panic site end.

(* `for node in nodes { let e = node.expression().unwrap(); <body e> }` where the body
   only inserts locations into a set: the result is the concatenation *)
Definition each_expr (nodes : list node) (f : Expression -> list Loc) : res (list Loc) :=
  rmap (@List.concat Loc)
       (mapM (fun n => rmap f (unwrap "node.expression().unwrap()" (node_expression n))) nodes).
Definition each_stmt (nodes : list node) (f : Statement -> res (list Loc)) : res (list Loc) :=
  rmap (@List.concat Loc)
       (mapM (fun n => bind (unwrap "node.statement().unwrap()" (node_statement n)) f) nodes).
Definition each_sup (nodes : list node) (f : SourceUnitPart -> res (list Loc)) : res (list Loc) :=
  rmap (@List.concat Loc)
       (mapM (fun n => bind (unwrap "node.source_unit_part().unwrap()" (node_source_unit_part n)) f) nodes).
Definition each_cp (nodes : list node) (f : ContractPart -> res (list Loc)) : res (list Loc) :=
  rmap (@List.concat Loc)
       (mapM (fun n => bind (unwrap "node.contract_part().unwrap()" (node_contract_part n)) f) nodes).

(* ---- strings *)
Definition name_of (i : Identifier) : string := Identifier_name i.

Definition starts_with_underscore (s : string) : bool :=
  match s with String c _ => Ascii.eqb c "_"%char | EmptyString => false end.

Fixpoint prefixb (p s : string) : bool :=
  match p, s with
  | EmptyString, _ => true
  | String a p', String b s' => Ascii.eqb a b && prefixb p' s'
  | _, _ => false
  end.

(* str::contains(pattern) *)
Fixpoint contains (p s : string) : bool :=
  prefixb p s || match s with EmptyString => false | String _ s' => contains p s' end.

Definition contains_char (c : ascii) (s : string) : bool := contains (String c EmptyString) s.

(* ---- Loc equality, location sets as lists *)
Definition Loc_eqb (a b : Loc) : bool :=
  match a, b with Loc_File f1 s1 e1, Loc_File f2 s2 e2 => N.eqb f1 f2 && N.eqb s1 s2 && N.eqb e1 e2 end.
Definition mem_loc (l : Loc) (ls : list Loc) : bool := existsb (Loc_eqb l) ls.

(* ---- HashMap<String, V>: association list, newest binding first; insert replaces *)
Section SMap.
  Variable V : Type.
  Definition smap := list (string * V).
  Fixpoint sm_remove (k : string) (m : smap) : smap :=
    match m with
    | [] => []
    | (k', v) :: r => if String.eqb k k' then sm_remove k r else (k', v) :: sm_remove k r
    end.
  Definition sm_insert (k : string) (v : V) (m : smap) : smap := (k, v) :: sm_remove k m.
  Fixpoint sm_get (k : string) (m : smap) : option V :=
    match m with
    | [] => None
    | (k', v) :: r => if String.eqb k k' then Some v else sm_get k r
    end.
  Definition sm_contains (k : string) (m : smap) : bool :=
    match sm_get k m with Some _ => true | None => false end.
  Definition sm_values (m : smap) : list V := map snd m.
End SMap.
Arguments sm_remove {V}. Arguments sm_insert {V}. Arguments sm_get {V}.
Arguments sm_contains {V}. Arguments sm_values {V}.

(* ---- small views on declarations *)
Definition is_Variable_named (e : Expression) : option string :=
  match e with Expression_Variable i => Some (name_of i) | _ => None end.

(* `msg.sender` as MemberAccess(_, Variable msg, sender) *)
Definition is_msg_sender (e : Expression) : bool :=
  match e with
  | Expression_MemberAccess _ (Expression_Variable l) r =>
      String.eqb (name_of l) "msg" && String.eqb (name_of r) "sender"
  | _ => false
  end.
