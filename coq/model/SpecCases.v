(* Specification (spec/Patterns*.v) evaluated on the implementation's actual output. *)
From Coq Require Import List String Ascii NArith ZArith Bool.
Import ListNotations.
From Solstat Require Import Lift Pt Cases Patterns Patterns2.
Local Open Scope N_scope.

Definition impl_set : Type := option (list (N * N)).   (* None = PANIC *)

Definition incl_l (a : list Loc) (b : list (N * N)) : bool :=
  forallb (fun l => existsb (pair_eqb (loc_pair l)) b) a.
Definition incl_r (b : list (N * N)) (a : list Loc) : bool :=
  forallb (fun p => existsb (fun l => pair_eqb (loc_pair l) p) a) b.
Definition impl_or_empty (i : impl_set) : list (N * N) := match i with Some s => s | None => [] end.

(* codes: k = a canonical occurrence is not reported by detector k;
          100+k = detector k reports a location where nothing matching begins *)
Definition between (k : N) (canon match_ : list Loc) (i : impl_set) : list N :=
  (if incl_l canon (impl_or_empty i) then [] else [k]) ++
  (if incl_r (impl_or_empty i) match_ then [] else [100 + k]).
Definition exact (k : N) (spec : list Loc) (i : impl_set) : list N := between k spec spec i.

Definition nth_impl (impl : list impl_set) (k : nat) : impl_set := nth k impl None.

(* impl: the 30 location sets in harness order *)
Definition spec_c05 (su : SourceUnit) (impl : list impl_set) : list N :=
  exact 0 (spec_address_balance su) (nth_impl impl 0) ++
  between 1 (canon_address_zero su) (match_address_zero su) (nth_impl impl 1) ++
  between 2 (canon_assign_update su) (match_assign_update su) (nth_impl impl 2) ++
  exact 3 (spec_bool_equals_bool su) (nth_impl impl 3) ++
  exact 4 (spec_cache_array_length su) (nth_impl impl 4) ++
  exact 7 (spec_increment_decrement su) (nth_impl impl 7) ++
  exact 9 (spec_multiple_require su) (nth_impl impl 9) ++
  exact 10 (spec_optimal_comparison su) (nth_impl impl 10) ++
  between 17 (canon_shift_math su) (match_shift_math su) (nth_impl impl 17) ++
  exact 19 (spec_solidity_keccak256 su) (nth_impl impl 19) ++
  exact 20 (spec_solidity_math su) (nth_impl impl 20).
(* how many canonical / matching anchors each C05 detector has in this program *)
Definition stats_c05 (su : SourceUnit) : list (N * N) :=
  [ (len (spec_address_balance su), len (spec_address_balance su));
    (len (canon_address_zero su), len (match_address_zero su));
    (len (canon_assign_update su), len (match_assign_update su));
    (len (spec_bool_equals_bool su), len (spec_bool_equals_bool su));
    (len (spec_cache_array_length su), len (spec_cache_array_length su));
    (len (spec_increment_decrement su), len (spec_increment_decrement su));
    (len (spec_multiple_require su), len (spec_multiple_require su));
    (len (spec_optimal_comparison su), len (spec_optimal_comparison su));
    (len (canon_shift_math su), len (match_shift_math su));
    (len (spec_solidity_keccak256 su), len (spec_solidity_keccak256 su));
    (len (spec_solidity_math su), len (spec_solidity_math su)) ].

(* C06: the reported LINE is what the property speaks about; the anchors below share their
   first byte with what the detector returns, so starts are compared *)
Definition starts (l : list Loc) : list N := map loc_start l.
Definition incl_n (a b : list N) : bool := forallb (fun x => existsb (N.eqb x) b) a.
Definition exact_starts (k : N) (spec : list Loc) (i : impl_set) : list N :=
  let s := map fst (impl_or_empty i) in
  (if incl_n (starts spec) s then [] else [k]) ++ (if incl_n s (starts spec) then [] else [100 + k]).
Definition between_starts (k : N) (canon match_ : list Loc) (i : impl_set) : list N :=
  let s := map fst (impl_or_empty i) in
  (if incl_n (starts canon) s then [] else [k]) ++ (if incl_n s (starts match_) then [] else [100 + k]).

Definition spec_c06 (su : SourceUnit) (impl : list impl_set) : list N :=
  exact_starts 13 (spec_payable_function su) (nth_impl impl 13) ++
  exact_starts 14 (spec_private_constant su) (nth_impl impl 14) ++
  exact_starts 27 (spec_constructor_order su) (nth_impl impl 27) ++
  exact_starts 28 (spec_private_func su) (nth_impl impl 28) ++
  exact_starts 29 (spec_private_vars su) (nth_impl impl 29).
Definition stats_c06 (su : SourceUnit) : list N :=
  [ len (spec_payable_function su); len (spec_private_constant su); len (spec_constructor_order su);
    len (spec_private_func su); len (spec_private_vars su); len (member_functions su); len (state_variables su);
    len (contracts su) ].
Definition hyp_c06 (su : SourceUnit) : bool := nodupb (state_var_names su).

Definition spec_c07 (su : SourceUnit) (impl : list impl_set) : list N :=
  exact 23 (spec_divide_before_multiply su) (nth_impl impl 23) ++
  exact 24 (spec_floating_pragma su) (nth_impl impl 24) ++
  exact 25 (spec_unprotected_selfdestruct su) (nth_impl impl 25) ++
  exact 26 (spec_unsafe_erc20 su) (nth_impl impl 26).
Definition stats_c07 (su : SourceUnit) : list N :=
  [ len (spec_divide_before_multiply su); len (spec_floating_pragma su); len (spec_unprotected_selfdestruct su);
    len (spec_unsafe_erc20 su);
    len (flat_map (fun f => match FunctionDefinition_body f with Some b => sp_selfdestruct_calls b | None => [] end)
                  (member_functions su)) ].

Definition hyp_c08 (su : SourceUnit) : bool := nodupb (state_var_names su) && m2c_hyp su.
Definition spec_c08 (su : SourceUnit) (impl : list impl_set) : list N :=
  between 5 (canon_constant su) (match_constant su) (nth_impl impl 5) ++
  between 6 (canon_immutable su) (match_immutable su) (nth_impl impl 6) ++
  between 8 (canon_m2c su) (match_m2c su) (nth_impl impl 8) ++
  between 21 (canon_sstore su) (match_sstore su) (nth_impl impl 21).
Definition stats_c08 (su : SourceUnit) : list (N * N) :=
  [ (len (canon_constant su), len (match_constant su)); (len (canon_immutable su), len (match_immutable su));
    (len (canon_m2c su), len (match_m2c su)); (len (canon_sstore su), len (match_sstore su));
    (len (written_in (all_nodes su)), len (state_variables su)) ].

(* C09: only when the file names one full version *)
Definition spec_c09 (su : SourceUnit) (impl : list impl_set) : option (list N) :=
  match file_version su with
  | None => None
  | Some v =>
      Some (exact 15 (spec_safemath_pre v su) (nth_impl impl 15) ++
            exact 16 (spec_safemath_post v su) (nth_impl impl 16) ++
            exact 18 (spec_short_revert v su) (nth_impl impl 18) ++
            exact 22 (spec_string_errors v su) (nth_impl impl 22))
  end.
Definition stats_c09 (su : SourceUnit) : list N :=
  [ (if uses_safemath su then 1 else 0); len (safemath_sites su); len (require_strings su);
    len (filter (fun p => 32 <=? sp_len (StringLiteral_string p)) (require_strings su)) ].
