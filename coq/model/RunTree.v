(* The analysis oracle of model/Run.v, instantiated with the model of the directory walkers
   (model/Dir.v): the tree below the analysed directory is enumerated, the three analyze_dir run
   over it in the order of main (vulnerabilities, optimizations, qa; the first panic wins), and
   the three maps are rendered.

   Oracles that remain (Section variables):
     tree_at   what fs::read_dir / is_dir / read_to_string enumerate below a path (None = the
               directory cannot be read): the listing ORDER is the operating system's.  One
               enumeration serves the three walks (the tree is not modified during the run: the
               write is the last action);
     an_*      analyze_for_optimization / _vulnerability / _qa on one file content;
     render    the text generate_report assembles from the three maps. *)
From Coq Require Import List String Ascii NArith ZArith Bool.
Import ListNotations.
From Solstat Require Import Res Names Opts Dir DirSpec Run.
Local Open Scope string_scope.

Section Concrete.
  Variable tree_at : fs -> path -> option (list entry).
  Variables an_opt an_vul an_qa : N -> string -> res (list Z).
  Variable render : fmap N -> fmap N -> fmap N -> string.       (* vulnerabilities, optimizations, qa *)

  Definition analyse_tree (t : list entry) (o v q : list N) : res string :=
    do mv <- analyze_dir N.eq_dec an_vul t v ;;
    do mo <- analyze_dir N.eq_dec an_opt t o ;;
    do mq <- analyze_dir N.eq_dec an_qa t q ;;
    Ok (render mv mo mq).

  Definition analyse_concrete (f : fs) (cwd p : path) (o v q : list N) : res string :=
    match tree_at f (join cwd p) with
    | None => Panic "Could not read contracts from directory"
    | Some t => analyse_tree t o v q
    end.
End Concrete.

Definition opt_rel {A} (R : A -> A -> Prop) (x y : option A) : Prop :=
  match x, y with
  | Some a, Some b => R a b
  | None, None => True
  | _, _ => False
  end.

(* The enumeration is a view of the file system: when two file systems differ only at one path
   d/name that holds a file or nothing in both, and `name` is not an eligible name, the trees
   enumerated below any path differ only by that (non-eligible) file: inserted, removed, or with
   another content (DirSpec.inert_ext), and a directory is readable in both or in neither. *)
Definition tree_view_faithful (tree_at : fs -> path -> option (list entry)) : Prop :=
  forall (f1 f2 : fs) (d name : string), eligible name = false ->
    agree_except (d ++ "/" ++ name) f1 f2 ->
    forall p, opt_rel inert_ext (tree_at f1 p) (tree_at f2 p).
