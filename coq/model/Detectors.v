(* Hand-written model of the detector functions in /repo/src/analyzer/{optimizations,
   vulnerabilities,qa}/*.rs and of the helpers in utils.rs they use, function by
   function.  A HashSet<Loc> result is a `list Loc` (compared as a set); every
   `.unwrap()`/`.expect()`/index in the Rust code is a possible `Panic`.
   (pack_storage_variables / pack_struct_variables live in Opt_pack.v.) *)
From Coq Require Import List String Ascii NArith ZArith Bool.
Import ListNotations.
From Solstat Require Import Lift Pt Walk Res Nodes Utils.
Local Open Scope string_scope.

Definition root (su : SourceUnit) : node := N_SourceUnit su.

(* ------------------------------------------------------------------ utils.rs *)
(* get_32_byte_storage_variables: HashMap<String, (Option<Vec<VariableAttribute>>, Loc)> *)
Definition sv_entry : Type := (option (list VariableAttribute) * Loc)%type.

Definition var_skipped (ignore_constants ignore_immutables : bool) (attrs : list VariableAttribute) : bool :=
  existsb (fun a => match a with
                    | VariableAttribute_Constant _ => ignore_constants
                    | VariableAttribute_Immutable _ => ignore_immutables
                    | _ => false
                    end) attrs.

Definition add_var (ic ii : bool) (m : smap sv_entry) (v : VariableDefinition) : smap sv_entry :=
  match v with
  | Mk_VariableDefinition _ ty attrs name _ =>
      if var_skipped ic ii attrs then m
      else match ty with
           | Expression_Type loc t =>
               match t with
               | Ty_Mapping _ _ _ => m
               | _ => sm_insert (name_of name)
                                (match attrs with [] => None | _ :: _ => Some attrs end, loc) m
               end
           | _ => m
           end
  end.

Definition add_part_vars (ic ii : bool) (m : smap sv_entry) (p : ContractPart) : smap sv_entry :=
  match p with ContractPart_VariableDefinition v => add_var ic ii m v | _ => m end.

Definition add_contract_vars (ic ii : bool) (m : smap sv_entry) (p : SourceUnitPart) : smap sv_entry :=
  match p with
  | SourceUnitPart_ContractDefinition c => fold_left (add_part_vars ic ii) (ContractDefinition_parts c) m
  | _ => m
  end.

Definition contract_nodes (su : SourceUnit) : list node :=
  extract_target_from_node Target_ContractDefinition (root su).

Definition get_32_byte_storage_variables (su : SourceUnit) (ic ii : bool) : res (smap sv_entry) :=
  do parts <- mapM (fun n => unwrap "node.source_unit_part().unwrap()" (node_source_unit_part n))
                   (contract_nodes su) ;;
  Ok (fold_left (add_contract_vars ic ii) parts []).

(* get_solidity_version_from_source_unit: first `pragma solidity`, components parsed as i32;
   None when there is none or a component does not parse *)
Definition version : Type := (Z * Z * Z)%type.

Fixpoint all_some {A} (l : list (option A)) : option (list A) :=
  match l with
  | [] => Some []
  | Some a :: r => match all_some r with Some r' => Some (a :: r') | None => None end
  | None :: _ => None
  end.

Definition version_of_string (s : string) : option version :=
  match all_some (map (fun p => match parse_i32 p with Ok z => Some z | Panic _ => None end)
                      (get_solidity_major_minor_patch_version s)) with
  | Some (a :: b :: c :: _) => Some (a, b, c)
  | _ => None
  end.

Fixpoint first_solidity_pragma (parts : list SourceUnitPart) : option string :=
  match parts with
  | [] => None
  | SourceUnitPart_PragmaDirective _ ident lit :: r =>
      if String.eqb (name_of ident) "solidity" then Some (StringLiteral_string lit)
      else first_solidity_pragma r
  | _ :: r => first_solidity_pragma r
  end.

Definition get_solidity_version_from_source_unit (su : SourceUnit) : res (option version) :=
  do parts <- mapM (fun n => unwrap "node.source_unit_part().unwrap()" (node_source_unit_part n))
                   (extract_target_from_node Target_PragmaDirective (root su)) ;;
  Ok (match first_solidity_pragma parts with
      | Some s => version_of_string s
      | None => None
      end).

(* lexicographic comparison of (major, minor, patch) - Rust tuple Ord *)
Definition version_ge (v w : version) : bool :=
  match v, w with (a, b, c), (a', b', c') =>
    (a' <? a)%Z || ((a =? a')%Z && ((b' <? b)%Z || ((b =? b')%Z && (c' <=? c)%Z)))
  end.
Definition version_lt (v w : version) : bool := negb (version_ge v w).

(* ------------------------------------------------------------------ optimizations *)
Definition address_balance_optimization (su : SourceUnit) : res (list Loc) :=
  each_expr (extract_target_from_node Target_MemberAccess (root su)) (fun e =>
    match e with
    | Expression_MemberAccess loc (Expression_FunctionCall _ (Expression_Type _ Ty_Address) _) id =>
        if String.eqb (name_of id) "balance" then [loc] else []
    | _ => []
    end).

Definition check_for_address_zero (e : Expression) : bool :=
  match e with
  | Expression_FunctionCall _ (Expression_Type _ Ty_Address) args =>
      match args with
      | Expression_NumberLiteral _ val _ :: _ => String.eqb val "0"
      | _ => false
      end
  | _ => false
  end.

Definition address_zero_optimization (su : SourceUnit) : res (list Loc) :=
  each_expr (extract_targets_from_node [Target_Equal; Target_NotEqual] (root su)) (fun e =>
    match e with
    | Expression_NotEqual loc a b | Expression_Equal loc a b =>
        if check_for_address_zero a || check_for_address_zero b then [loc] else []
    | _ => []
    end).

Definition arith10 (e : Expression) : option (Expression * Expression) :=
  match e with
  | Expression_Add _ a b | Expression_Subtract _ a b | Expression_Divide _ a b
  | Expression_Multiply _ a b | Expression_Modulo _ a b | Expression_ShiftLeft _ a b
  | Expression_ShiftRight _ a b | Expression_BitwiseAnd _ a b | Expression_BitwiseOr _ a b
  | Expression_BitwiseXor _ a b => Some (a, b)
  | _ => None
  end.

(* a[<name>][<number literal>] with the given name and index text *)
Definition subscript_of (name number : string) (e : Expression) : bool :=
  match e with
  | Expression_ArraySubscript _ (Expression_Variable id) (Some (Expression_NumberLiteral _ n _)) =>
      String.eqb (name_of id) name && String.eqb n number
  | _ => false
  end.

Definition assign_update_match (e : Expression) : bool :=
  match e with
  | Expression_Assign _ (Expression_ArraySubscript _ (Expression_Variable id)
                                                   (Some (Expression_NumberLiteral _ number _))) rhs =>
      match arith10 rhs with
      | Some (l, r) =>
          match l with
          | Expression_ArraySubscript _ (Expression_Variable _) _ => subscript_of (name_of id) number l
          | Expression_ArraySubscript _ _ _ => subscript_of (name_of id) number r
          | _ => false
          end
      | None => false
      end
  | _ => false
  end.

Definition assign_update_array_optimization (su : SourceUnit) : res (list Loc) :=
  each_expr (extract_target_from_node Target_Assign (root su)) (fun e =>
    match e with
    | Expression_Assign loc _ _ => if assign_update_match e then [loc] else []
    | _ => []
    end).

Definition is_bool_literal (e : Expression) : bool :=
  match e with Expression_BoolLiteral _ _ => true | _ => false end.

Definition bool_equals_bool_optimization (su : SourceUnit) : res (list Loc) :=
  each_expr (extract_targets_from_node [Target_Equal; Target_NotEqual] (root su)) (fun e =>
    match e with
    | Expression_NotEqual loc a b | Expression_Equal loc a b =>
        if is_bool_literal a || is_bool_literal b then [loc] else []
    | _ => []
    end).

Definition length_accesses (cond : Expression) : res (list Loc) :=
  each_expr (extract_target_from_node Target_MemberAccess (N_Expression cond)) (fun e =>
    match e with
    | Expression_MemberAccess loc _ id => if String.eqb (name_of id) "length" then [loc] else []
    | _ => []
    end).

Definition cache_array_length_optimization (su : SourceUnit) : res (list Loc) :=
  each_stmt (extract_target_from_node Target_For (root su)) (fun s =>
    match s with
    | Statement_For _ _ (Some cond) _ _ => length_accesses cond
    | _ => Ok []
    end).

Definition write_targets : list Target :=
  [Target_Assign; Target_PreIncrement; Target_PostIncrement; Target_PreDecrement; Target_PostDecrement;
   Target_AssignAdd; Target_AssignAnd; Target_AssignDivide; Target_AssignModulo; Target_AssignMultiply;
   Target_AssignOr; Target_AssignShiftLeft; Target_AssignShiftRight; Target_AssignSubtract; Target_AssignXor].

(* name of the variable that the write form e targets directly *)
Definition written_name (e : Expression) : option string :=
  match e with
  | Expression_Assign _ l _ | Expression_PreIncrement _ l | Expression_PostIncrement _ l
  | Expression_PreDecrement _ l | Expression_PostDecrement _ l | Expression_AssignAdd _ l _
  | Expression_AssignAnd _ l _ | Expression_AssignDivide _ l _ | Expression_AssignModulo _ l _
  | Expression_AssignMultiply _ l _ | Expression_AssignOr _ l _ | Expression_AssignShiftLeft _ l _
  | Expression_AssignShiftRight _ l _ | Expression_AssignSubtract _ l _ | Expression_AssignXor _ l _ =>
      is_Variable_named l
  | _ => None
  end.

Definition remove_written {V} (nodes : list node) (m : smap V) : res (smap V) :=
  foldM (fun m n => do e <- unwrap "node.expression().unwrap()" (node_expression n) ;;
                    Ok (match written_name e with Some x => sm_remove x m | None => m end))
        nodes m.

Definition constant_variable_optimization (su : SourceUnit) : res (list Loc) :=
  do sv <- get_32_byte_storage_variables su true false ;;
  do m <- remove_written (extract_targets_from_node write_targets (root su)) sv ;;
  Ok (map (fun kv => snd (snd kv)) m).

Definition is_a_non_value_type (rhs : Expression) : bool :=
  match rhs with
  | Expression_StringLiteral _ => true
  | Expression_FunctionCall _ callee _ =>
      match callee with
      | Expression_MemberAccess _ (Expression_Variable id) _ => String.eqb (name_of id) "abi"
      | Expression_Type _ Ty_DynamicBytes => true
      | _ => false
      end
  | _ => false
  end.

(* the (ContractPart) function definitions of every contract of the file, in order *)
Definition contract_function_parts (su : SourceUnit) : res (list ContractPart) :=
  do ls <- mapM (fun c => mapM (fun n => unwrap "node.contract_part().unwrap()" (node_contract_part n))
                               (extract_target_from_node Target_FunctionDefinition c))
                (contract_nodes su) ;;
  Ok (List.concat ls).

Definition is_constructor (f : FunctionDefinition) : bool :=
  match FunctionDefinition_ty f with FunctionTy_Constructor => true | _ => false end.

Definition add_constructor_assignments (sv : smap sv_entry) (m : smap Loc) (n : node) : res (smap Loc) :=
  do e <- unwrap "node.expression().unwrap()" (node_expression n) ;;
  Ok (match e with
      | Expression_Assign _ lhs rhs =>
          if is_a_non_value_type rhs then m
          else match lhs with
               | Expression_Variable id =>
                   match sm_get (name_of id) sv with
                   | Some ent => sm_insert (name_of id) (snd ent) m
                   | None => m
                   end
               | _ => m
               end
      | _ => m
      end).

Definition get_storage_variables_assigned_in_constructor (su : SourceUnit) (sv : smap sv_entry)
  : res (smap Loc) :=
  do fns <- contract_function_parts su ;;
  foldM (fun m cp =>
           match cp with
           | ContractPart_FunctionDefinition f =>
               if is_constructor f
               then foldM (add_constructor_assignments sv)
                          (extract_target_from_node Target_Assign (N_ContractPart cp)) m
               else Ok m
           | _ => Ok m
           end) fns [].

Definition immutable_variables_optimization (su : SourceUnit) : res (list Loc) :=
  do sv <- get_32_byte_storage_variables su true true ;;
  do pot <- get_storage_variables_assigned_in_constructor su sv ;;
  do fns <- contract_function_parts su ;;
  do m <- foldM (fun m cp =>
                   match cp with
                   | ContractPart_FunctionDefinition f =>
                       if is_constructor f then Ok m
                       else remove_written (extract_targets_from_node write_targets (N_ContractPart cp)) m
                   | _ => Ok m
                   end) fns pot ;;
  Ok (map snd m).

Definition incdec_loc (pre_only : bool) (e : Expression) : list Loc :=
  match e with
  | Expression_PreIncrement loc _ | Expression_PreDecrement loc _ => [loc]
  | Expression_PostIncrement loc _ | Expression_PostDecrement loc _ => if pre_only then [] else [loc]
  | _ => []
  end.

Definition extract_increment_decrement (n : node) : res (list Loc) :=
  each_expr (extract_targets_from_node
               [Target_PreIncrement; Target_PreDecrement; Target_PostIncrement; Target_PostDecrement] n)
            (incdec_loc false).
Definition extract_pre_increment_pre_decrement (n : node) : res (list Loc) :=
  each_expr (extract_targets_from_node [Target_PreIncrement; Target_PreDecrement] n) (incdec_loc true).

Definition increment_decrement_optimization (su : SourceUnit) : res (list Loc) :=
  do unchecked <- each_stmt (extract_target_from_node Target_Block (root su)) (fun s =>
                    match s with
                    | Statement_Block _ true stmts =>
                        rmap (@List.concat Loc)
                             (mapM (fun st => extract_pre_increment_pre_decrement (N_Statement st)) stmts)
                    | _ => Ok []
                    end) ;;
  do locs <- extract_increment_decrement (root su) ;;
  Ok (filter (fun l => negb (mem_loc l unchecked)) locs).

Definition get_function_definition_memory_args (f : FunctionDefinition) : smap Loc :=
  fold_left (fun m p =>
               match p with
               | (_, Some (Mk_Param _ _ (Some (StorageLocation_Memory loc)) (Some name))) =>
                   sm_insert (name_of name) loc m
               | _ => m
               end) (FunctionDefinition_params f) [].

Definition assigned_param (e : Expression) : option string :=
  match e with
  | Expression_Assign _ (Expression_Variable id) _ => Some (name_of id)
  | Expression_Assign _ (Expression_ArraySubscript _ (Expression_Variable id) _) _ => Some (name_of id)
  | _ => None
  end.

Definition memory_to_calldata_fn (f : FunctionDefinition) : res (list Loc) :=
  if is_constructor f then Ok []
  else match FunctionDefinition_body f with
       | None => Ok []
       | Some body =>
           do m <- foldM (fun m n => do e <- unwrap "assign_node.expression().unwrap()" (node_expression n) ;;
                                     Ok (match assigned_param e with Some x => sm_remove x m | None => m end))
                         (extract_target_from_node Target_Assign (N_Statement body))
                         (get_function_definition_memory_args f) ;;
           Ok (map snd m)
       end.

Definition memory_to_calldata_optimization (su : SourceUnit) : res (list Loc) :=
  rmap (@List.concat Loc)
       (mapM (fun n =>
                match n with
                | N_ContractPart (ContractPart_FunctionDefinition f) => memory_to_calldata_fn f
                | N_ContractPart _ => Ok []
                | N_SourceUnitPart (SourceUnitPart_FunctionDefinition f) => memory_to_calldata_fn f
                | N_SourceUnitPart _ => Ok []
                | _ => Panic "node.source_unit_part().unwrap()"
                end)
             (extract_target_from_node Target_FunctionDefinition (root su))).

Definition is_and (e : Expression) : bool := match e with Expression_And _ _ _ => true | _ => false end.

Definition multiple_require_optimization (su : SourceUnit) : res (list Loc) :=
  each_expr (extract_target_from_node Target_FunctionCall (root su)) (fun e =>
    match e with
    | Expression_FunctionCall loc (Expression_Variable id) args =>
        if String.eqb (name_of id) "require"
        then flat_map (fun a => if is_and a then [loc] else []) args
        else []
    | _ => []
    end).

Definition optimal_comparison_optimization (su : SourceUnit) : res (list Loc) :=
  each_expr (extract_targets_from_node [Target_MoreEqual; Target_LessEqual] (root su)) (fun e =>
    match e with
    | Expression_MoreEqual loc _ _ | Expression_LessEqual loc _ _ => [loc]
    | _ => []
    end).

Definition attr_public_or_external (a : FunctionAttribute) : bool :=
  match a with
  | FunctionAttribute_Visibility (Visibility_External _) => true
  | FunctionAttribute_Visibility (Visibility_Public _) => true
  | _ => false
  end.
Definition attr_payable (a : FunctionAttribute) : bool :=
  match a with FunctionAttribute_Mutability (Mutability_Payable _) => true | _ => false end.
Definition is_public_or_external (f : FunctionDefinition) : bool :=
  existsb attr_public_or_external (FunctionDefinition_attributes f).

Definition payable_function_optimization (su : SourceUnit) : res (list Loc) :=
  do fns <- contract_function_parts su ;;
  Ok (flat_map (fun cp =>
        match cp with
        | ContractPart_FunctionDefinition f =>
            match FunctionDefinition_body f with
            | Some _ =>
                if is_public_or_external f && negb (existsb attr_payable (FunctionDefinition_attributes f))
                then [FunctionDefinition_loc f] else []
            | None => []
            end
        | _ => []
        end) fns).

(* the variable definitions that are members of the contracts of the file, in order *)
Definition contract_variable_definitions (su : SourceUnit) : res (list VariableDefinition) :=
  do parts <- mapM (fun n => unwrap "node.source_unit_part().unwrap()" (node_source_unit_part n))
                   (contract_nodes su) ;;
  Ok (flat_map (fun p => match p with
                         | SourceUnitPart_ContractDefinition c =>
                             flat_map (fun q => match q with ContractPart_VariableDefinition v => [v] | _ => [] end)
                                      (ContractDefinition_parts c)
                         | _ => []
                         end) parts).

Definition vattr_constant (a : VariableAttribute) : bool :=
  match a with VariableAttribute_Constant _ => true | _ => false end.
Definition vattr_private (a : VariableAttribute) : bool :=
  match a with VariableAttribute_Visibility (Visibility_Private _) => true | _ => false end.

Definition private_constant_optimization (su : SourceUnit) : res (list Loc) :=
  do vs <- contract_variable_definitions su ;;
  Ok (flat_map (fun v =>
        let attrs := VariableDefinition_attrs v in
        if existsb vattr_constant attrs && negb (existsb vattr_private attrs)
        then [VariableDefinition_loc v] else []) vs).

Definition using_is_safemath (u : Using) : bool :=
  match Using_list u with
  | UsingList_Library p => existsb (fun i => String.eqb (name_of i) "SafeMath") (IdentifierPath_identifiers p)
  | _ => false
  end.

Definition check_if_using_safe_math (su : SourceUnit) : bool :=
  existsb (fun n => match n with
                    | N_SourceUnitPart (SourceUnitPart_Using u) => using_is_safemath u
                    | N_ContractPart (ContractPart_Using u) => using_is_safemath u
                    | _ => false
                    end) (extract_target_from_node Target_Using (root su)).

Definition is_safemath_fn (s : string) : bool :=
  String.eqb s "add" || String.eqb s "sub" || String.eqb s "mul" || String.eqb s "div".

Definition parse_contract_for_safe_math_functions (su : SourceUnit) : res (list Loc) :=
  each_expr (extract_target_from_node Target_FunctionCall (root su)) (fun e =>
    match e with
    | Expression_FunctionCall _ (Expression_MemberAccess loc _ id) _ =>
        if is_safemath_fn (name_of id) then [loc] else []
    | _ => []
    end).

Definition v080 : version := (0, 8, 0)%Z.
Definition v084 : version := (0, 8, 4)%Z.

Definition safe_math_optimization (su : SourceUnit) (pre_080 : bool) : res (list Loc) :=
  do ov <- get_solidity_version_from_source_unit su ;;
  match ov with
  | None => Ok []
  | Some v =>
      if (pre_080 && version_lt v v080) || (negb pre_080 && version_ge v v080)
      then if check_if_using_safe_math su then parse_contract_for_safe_math_functions su else Ok []
      else Ok []
  end.
Definition safe_math_pre_080_optimization su := safe_math_optimization su true.
Definition safe_math_post_080_optimization su := safe_math_optimization su false.

(* str::parse::<u32>(): optional '+', at least one ASCII digit, value < 2^32 *)
Fixpoint digits_value (s : string) (acc : N) : option N :=
  match s with
  | EmptyString => Some acc
  | String c r =>
      let n := N_of_ascii c in
      if (48 <=? n)%N && (n <=? 57)%N then digits_value r (acc * 10 + (n - 48))%N else None
  end.
Definition parse_u32 (s : string) : option N :=
  let body := match s with String "+"%char r => r | _ => s end in
  match body with
  | EmptyString => None
  | _ => match digits_value body 0%N with
         | Some v => if (v <? 4294967296)%N then Some v else None
         | None => None
         end
  end.

Definition is_pow2 (v : N) : bool := negb (v =? 0)%N && (N.land v (v - 1) =? 0)%N.

Definition pow2_literal (e : Expression) : bool :=
  match e with
  | Expression_NumberLiteral _ val exp =>
      match exp with
      | EmptyString => match parse_u32 val with Some v => is_pow2 v | None => false end
      | _ => false
      end
  | _ => false
  end.

Definition shift_math_optimization (su : SourceUnit) : res (list Loc) :=
  each_expr (extract_targets_from_node [Target_Multiply; Target_Divide] (root su)) (fun e =>
    match e with
    | Expression_Multiply loc a b | Expression_Divide loc a b =>
        if pow2_literal a || pow2_literal b then [loc] else []
    | _ => []
    end).

Definition strlen (s : string) : N := N.of_nat (String.length s).

(* the string-literal parts of the last argument of require(...) *)
Definition require_last_string (e : Expression) : option (list StringLiteral) :=
  match e with
  | Expression_FunctionCall _ (Expression_Variable id) args =>
      if String.eqb (name_of id) "require"
      then match last (map Some args) None with
           | Some (Expression_StringLiteral parts) => Some parts
           | _ => None
           end
      else None
  | _ => None
  end.

Definition short_revert_string_optimization (su : SourceUnit) : res (list Loc) :=
  do ov <- get_solidity_version_from_source_unit su ;;
  match ov with
  | None => Ok []
  | Some v =>
      if version_ge v v084 then Ok []
      else each_expr (extract_target_from_node Target_FunctionCall (root su)) (fun e =>
             match require_last_string e with
             | Some (lit :: _) => if (32 <=? strlen (StringLiteral_string lit))%N then [StringLiteral_loc lit] else []
             | _ => []
             end)
  end.

Definition string_error_optimization (su : SourceUnit) : res (list Loc) :=
  do ov <- get_solidity_version_from_source_unit su ;;
  match ov with
  | None => Ok []
  | Some v =>
      if version_ge v v084
      then rmap (@List.concat Loc)
             (mapM (fun n => do e <- unwrap "node.expression().unwrap()" (node_expression n) ;;
                             match require_last_string e with
                             | Some (lit :: _) => Ok [StringLiteral_loc lit]
                             | Some [] => Panic "vec_string_literal[0]"
                             | None => Ok []
                             end)
                   (extract_target_from_node Target_FunctionCall (root su)))
      else Ok []
  end.

Definition solidity_keccak256_optimization (su : SourceUnit) : res (list Loc) :=
  each_expr (extract_target_from_node Target_FunctionCall (root su)) (fun e =>
    match e with
    | Expression_FunctionCall _ (Expression_Variable v) _ =>
        if String.eqb (name_of v) "keccak256" then [Identifier_loc v] else []
    | _ => []
    end).

Definition solidity_math_optimization (su : SourceUnit) : res (list Loc) :=
  each_expr (extract_targets_from_node [Target_Add; Target_Subtract; Target_Multiply; Target_Divide] (root su))
    (fun e =>
       match e with
       | Expression_Add loc _ _ | Expression_Subtract loc _ _
       | Expression_Multiply loc _ _ | Expression_Divide loc _ _ => [loc]
       | _ => []
       end).

Definition sstore_optimization (su : SourceUnit) : res (list Loc) :=
  do sv <- get_32_byte_storage_variables su true true ;;
  each_expr (extract_target_from_node Target_Assign (root su)) (fun e =>
    match e with
    | Expression_Assign loc (Expression_Variable id) _ =>
        if sm_contains (name_of id) sv then [loc] else []
    | _ => []
    end).

(* ------------------------------------------------------------------ vulnerabilities *)
Fixpoint mul_chain_has_div (e : Expression) : bool :=
  match e with
  | Expression_Divide _ _ _ => true
  | Expression_Multiply _ n _ | Expression_Parenthesis _ n => mul_chain_has_div n
  | _ => false
  end.

Fixpoint arith_chain_has_mul (e : Expression) : bool :=
  match e with
  | Expression_Multiply _ _ _ => true
  | Expression_Divide _ n _ | Expression_Add _ n _ | Expression_Subtract _ n _ | Expression_Modulo _ n _
  | Expression_BitwiseAnd _ n _ | Expression_BitwiseOr _ n _ | Expression_BitwiseXor _ n _
  | Expression_ShiftLeft _ n _ | Expression_ShiftRight _ n _ | Expression_Parenthesis _ n =>
      arith_chain_has_mul n
  | _ => false
  end.

Definition divide_before_multiply_vulnerability (su : SourceUnit) : res (list Loc) :=
  each_expr (extract_targets_from_node [Target_Multiply; Target_AssignDivide] (root su)) (fun e =>
    match e with
    | Expression_Multiply loc l _ => if mul_chain_has_div l then [loc] else []
    | Expression_AssignDivide loc _ r => if arith_chain_has_mul r then [loc] else []
    | _ => []
    end).

Definition floating_pragma_vulnerability (su : SourceUnit) : res (list Loc) :=
  each_sup (extract_target_from_node Target_PragmaDirective (root su)) (fun p =>
    match p with
    | SourceUnitPart_PragmaDirective loc _ lit =>
        Ok (if contains_char "^"%char (StringLiteral_string lit) then [loc] else [])
    | _ => Ok []
    end).

Definition is_selfdestruct (callee : Expression) : bool :=
  match callee with
  | Expression_Variable id => String.eqb (name_of id) "selfdestruct" || String.eqb (name_of id) "suicide"
  | _ => false
  end.

Definition contains_protection_modifiers (f : FunctionDefinition) : bool :=
  existsb (fun a => match a with
                    | FunctionAttribute_BaseOrModifier _ b =>
                        existsb (fun i => contains "only" (name_of i)) (IdentifierPath_identifiers (Base_name b))
                    | _ => false
                    end) (FunctionDefinition_attributes f).

Definition is_type_conversion_callee (callee : Expression) : bool :=
  match callee with Expression_Type _ _ => true | _ => false end.

Definition sender_check_arg (a : Expression) : bool :=
  match a with
  | Expression_Equal _ l r | Expression_NotEqual _ l r => is_msg_sender l || is_msg_sender r
  | Expression_MemberAccess _ _ _ => is_msg_sender a
  | _ => false
  end.

Definition sender_check_call (e : Expression) : bool :=
  match e with
  | Expression_FunctionCall _ callee args =>
      if is_selfdestruct callee then false
      else if is_type_conversion_callee callee then false
      else existsb sender_check_arg args
  | _ => false
  end.

Definition contains_msg_sender_conditions (f : FunctionDefinition) : res bool :=
  match FunctionDefinition_body f with
  | None => Ok false
  | Some body =>
      do es <- mapM (fun n => unwrap "node.expression().unwrap()" (node_expression n))
                    (extract_target_from_node Target_FunctionCall (N_Statement body)) ;;
      Ok (existsb sender_check_call es)
  end.

Definition selfdestruct_calls (body : Statement) : res (list Loc) :=
  each_expr (extract_target_from_node Target_FunctionCall (N_Statement body)) (fun e =>
    match e with
    | Expression_FunctionCall loc callee _ => if is_selfdestruct callee then [loc] else []
    | _ => []
    end).

Definition unprotected_selfdestruct_fn (f : FunctionDefinition) : res (list Loc) :=
  match FunctionDefinition_body f with
  | None => Ok []
  | Some body =>
      if is_constructor f then Ok []
      else if negb (is_public_or_external f) then Ok []
      else
        do calls <- selfdestruct_calls body ;;
        match calls with
        | [] => Ok []
        | _ :: _ =>
            if contains_protection_modifiers f then Ok []
            else do prot <- contains_msg_sender_conditions f ;;
                 Ok (if prot then [] else calls)
        end
  end.

Definition unprotected_selfdestruct_vulnerability (su : SourceUnit) : res (list Loc) :=
  do fns <- contract_function_parts su ;;
  rmap (@List.concat Loc)
       (mapM (fun cp => match cp with
                        | ContractPart_FunctionDefinition f => unprotected_selfdestruct_fn f
                        | _ => Ok []
                        end) fns).

Definition is_erc20_op (s : string) : bool :=
  String.eqb s "transfer" || String.eqb s "transferFrom" || String.eqb s "approve".

Definition unsafe_erc20_operation_vulnerability (su : SourceUnit) : res (list Loc) :=
  each_expr (extract_target_from_node Target_MemberAccess (root su)) (fun e =>
    match e with
    | Expression_MemberAccess loc _ id => if is_erc20_op (name_of id) then [loc] else []
    | _ => []
    end).

(* ------------------------------------------------------------------ qa *)
(* per contract: a constructor is reported when a function/fallback/receive precedes it *)
Fixpoint constructor_order_scan (seen_fn : bool) (parts : list node) : list Loc :=
  match parts with
  | [] => []
  | N_ContractPart (ContractPart_FunctionDefinition f) :: r =>
      match FunctionDefinition_ty f with
      | FunctionTy_Constructor =>
          (if seen_fn then [FunctionDefinition_loc f] else []) ++ constructor_order_scan seen_fn r
      | FunctionTy_Modifier => constructor_order_scan seen_fn r
      | _ => constructor_order_scan true r
      end
  | _ :: r => constructor_order_scan seen_fn r
  end.

Definition constructor_order_qa (su : SourceUnit) : res (list Loc) :=
  Ok (flat_map (fun c => constructor_order_scan false (extract_target_from_node Target_FunctionDefinition c))
               (contract_nodes su)).

Definition vis_public_or_external (v : Visibility) : bool :=
  match v with Visibility_Public _ | Visibility_External _ => true | _ => false end.

Definition private_func_leading_underscore (su : SourceUnit) : res (list Loc) :=
  Ok (flat_map (fun n =>
        match n with
        | N_ContractPart (ContractPart_FunctionDefinition f) =>
            match FunctionDefinition_ty f with
            | FunctionTy_Function =>
                flat_map (fun a =>
                  match a, FunctionDefinition_name f with
                  | FunctionAttribute_Visibility v, Some id =>
                      if vis_public_or_external v
                      then (if starts_with_underscore (name_of id) then [Identifier_loc id] else [])
                      else (if starts_with_underscore (name_of id) then [] else [Identifier_loc id])
                  | _, _ => []
                  end) (FunctionDefinition_attributes f)
            | _ => []
            end
        | _ => []
        end) (extract_target_from_node Target_FunctionDefinition (root su))).

Definition vis_private_or_internal (v : Visibility) : bool :=
  match v with Visibility_Private _ | Visibility_Internal _ => true | _ => false end.

Definition private_vars_leading_underscore (su : SourceUnit) : res (list Loc) :=
  do vs <- contract_variable_definitions su ;;
  Ok (flat_map (fun v =>
        let attrs := VariableDefinition_attrs v in
        let name := name_of (VariableDefinition_name v) in
        if existsb vattr_constant attrs then []
        else flat_map (fun a =>
               match a with
               | VariableAttribute_Visibility vis =>
                   if vis_private_or_internal vis
                   then (if starts_with_underscore name then [] else [VariableDefinition_loc v])
                   else (if starts_with_underscore name then [VariableDefinition_loc v] else [])
               | _ => []
               end) attrs) vs).
