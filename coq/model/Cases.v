(* Helpers evaluated by vm_compute in the generated cases_*.v files of the
   correspondence check (model output versus the implementation's output that
   the harness recorded). *)
From Coq Require Import List String Ascii NArith Bool.
Import ListNotations.
From Solstat Require Import Lift Pt Walk.
Local Open Scope N_scope.

Definition bs (l : list N) : string :=
  fold_right (fun n s => String (ascii_of_N n) s) EmptyString l.

Definition loc_start (l : Loc) : N := match l with Loc_File _ s _ => s end.
Definition loc_end (l : Loc) : N := match l with Loc_File _ _ e => e end.
Definition loc_pair (l : Loc) : N * N := (loc_start l, loc_end l).

Fixpoint list_eqb {A} (eqb : A -> A -> bool) (a b : list A) : bool :=
  match a, b with
  | [], [] => true
  | x :: a', y :: b' => eqb x y && list_eqb eqb a' b'
  | _, _ => false
  end.

Definition pair_eqb (a b : N * N) : bool := N.eqb (fst a) (fst b) && N.eqb (snd a) (snd b).
Definition fp_eqb (a b : N * N * N) : bool := pair_eqb (fst a) (fst b) && N.eqb (snd a) (snd b).

(* fingerprint of a node as printed by the harness: (target index, start, end) *)
Definition fp (n : node) : N * N * N :=
  (Target_idx (as_target n), loc_start (loc_of n), loc_end (loc_of n)).
Definition fp_spec (n : node) : N * N * N :=
  (Target_idx (kind_of n), loc_start (loc_of n), loc_end (loc_of n)).

Definition allT (_ : Target) : bool := true.

(* harness: in_subset(i, k) *)
Definition subset_sel (k : N) (t : Target) : bool :=
  N.odd ((((Target_idx t + 1) * 2654435761) mod 4294967296) / 2 ^ (8 + k)).

Definition len {A} (l : list A) : N := N.of_nat (List.length l).

(* C01: returns the list of failed sub-checks ([] = model, spec and implementation agree)
     1  walk from the file with all targets            (model)
     2  size of the full walk from every node found    (model, every root kind)
     3  four target subsets via extract_targets_from_node
     4  every single target via extract_target_from_node (counts)
     11 implementation versus the type-derived complete pre-order (specification) *)
Definition check_c01 (su : SourceUnit) (wall : list (N * N * N)) (wsub : list N)
           (wsets : list (list (N * N * N))) (wsingle : list N) : list N :=
  let root := N_SourceUnit su in
  let m_all := walk allT root in
  (if list_eqb fp_eqb (map fp m_all) wall then [] else [1]) ++
  (if list_eqb N.eqb (map (fun n => len (walk allT n)) m_all) wsub then [] else [2]) ++
  (if list_eqb (list_eqb fp_eqb)
        (map (fun k => map fp (extract_targets_from_node (filter (subset_sel k) all_targets) root)) [0; 1; 2; 3])
        wsets then [] else [3]) ++
  (if list_eqb N.eqb (map (fun t => len (extract_target_from_node t root)) all_targets) wsingle then [] else [4]) ++
  (if list_eqb fp_eqb (map fp_spec (pre root)) wall then [] else [11]) ++
  (* the specification for the other entry points, evaluated on the implementation's output as well:
     12 the full walk from every node is that node's complete pre-order (sizes)
     13 a target subset selects exactly the nodes of those kinds, in pre-order
     14 a single target selects exactly the nodes of that kind (counts) *)
  (if list_eqb N.eqb (map (fun n => len (pre n)) (pre root)) wsub then [] else [12]) ++
  (if list_eqb (list_eqb fp_eqb)
        (map (fun k => map fp_spec (filter (fun n => subset_sel k (kind_of n)) (pre root))) [0; 1; 2; 3])
        wsets then [] else [13]) ++
  (if list_eqb N.eqb (map (fun t => len (filter (fun n => Target_eqb (kind_of n) t) (pre root))) all_targets) wsingle
   then [] else [14]).

(* statistics for the evidence: nodes in the complete pre-order, distinct kinds present *)
Definition stats_c01 (su : SourceUnit) : N * N :=
  let p := pre (N_SourceUnit su) in
  (len p, len (filter (fun t => existsb (fun n => Target_eqb (kind_of n) t) p) all_targets)).

(* the same without the quadratic sub-root part (the harness leaves it out for trees with more than 700 nodes) *)
Definition check_c01_nosub (su : SourceUnit) (wall : list (N * N * N))
           (wsets : list (list (N * N * N))) (wsingle : list N) : list N :=
  let root := N_SourceUnit su in
  let m_all := walk allT root in
  (if list_eqb fp_eqb (map fp m_all) wall then [] else [1]) ++
  (if list_eqb (list_eqb fp_eqb)
        (map (fun k => map fp (extract_targets_from_node (filter (subset_sel k) all_targets) root)) [0; 1; 2; 3])
        wsets then [] else [3]) ++
  (if list_eqb N.eqb (map (fun t => len (extract_target_from_node t root)) all_targets) wsingle then [] else [4]) ++
  (if list_eqb fp_eqb (map fp_spec (pre root)) wall then [] else [11]) ++
  (if list_eqb (list_eqb fp_eqb)
        (map (fun k => map fp_spec (filter (fun n => subset_sel k (kind_of n)) (pre root))) [0; 1; 2; 3])
        wsets then [] else [13]) ++
  (if list_eqb N.eqb (map (fun t => len (filter (fun n => Target_eqb (kind_of n) t) (pre root))) all_targets) wsingle
   then [] else [14]).
