(* Model of utils::get_type_size and of the two packing detectors
   /repo/src/analyzer/optimizations/pack_storage_variables.rs, pack_struct_variables.rs.
   A HashSet<Loc> result is a list of locations (theorems are about membership). *)
From Coq Require Import List String NArith Bool.
Import ListNotations.
From Solstat Require Import Res Lift Pt Walk Utils.
Local Open Scope string_scope.
Local Open Scope N_scope.
Local Open Scope list_scope.

(* pub fn get_type_size(expression: pt::Expression) -> u16
   (Type::Bytes carries a u8, so `(_size as u16) * 8` <= 2040 cannot overflow) *)
Definition get_type_size (expression : Expression) : N :=
  match expression with
  | Expression_Type _ ty =>
      match ty with
      | Ty_Address => 160
      | Ty_AddressPayable => 160
      | Ty_Bytes size => size * 8
      | Ty_Bool => 8
      | Ty_Int size => size
      | Ty_Uint size => size
      | _ => 256
      end
  | _ => 256
  end.

(* sizes of the state variables of a contract, in declaration order *)
Definition contract_variable_sizes (c : ContractDefinition) : list N :=
  flat_map (fun part => match part with
                        | ContractPart_VariableDefinition v => [get_type_size (VariableDefinition_ty v)]
                        | _ => []
                        end) (ContractDefinition_parts c).

Definition struct_variable_sizes (s : StructDefinition) : list N :=
  map (fun d => get_type_size (VariableDeclaration_ty d)) (StructDefinition_fields s).

Definition report_if (b : bool) (l : Loc) : list Loc := if b then [l] else [].

Definition pack_storage_node (n : node) : res (list Loc) :=
  match n with
  | N_SourceUnitPart p =>
      match p with
      | SourceUnitPart_ContractDefinition c =>
          do b <- can_be_packed (contract_variable_sizes c) ;;
          Ok (report_if b (ContractDefinition_loc c))
      | _ => Ok []
      end
  | _ => Panic "pack_storage_variables: node.source_unit_part().unwrap()"
  end.

Definition pack_storage_variables_optimization (source_unit : SourceUnit) : res (list Loc) :=
  do ls <- mapM pack_storage_node
             (extract_target_from_node Target_ContractDefinition (N_SourceUnit source_unit)) ;;
  Ok (List.concat ls).

Definition struct_can_be_packed (s : StructDefinition) : res bool :=
  can_be_packed (struct_variable_sizes s).

(* node.is_source_unit_part() / node.is_contract_part() guard the unwraps: no panic site *)
Definition pack_struct_node (n : node) : res (list Loc) :=
  match n with
  | N_SourceUnitPart p =>
      match p with
      | SourceUnitPart_StructDefinition s =>
          do b <- struct_can_be_packed s ;; Ok (report_if b (StructDefinition_loc s))
      | _ => Ok []
      end
  | N_ContractPart p =>
      match p with
      | ContractPart_StructDefinition s =>
          do b <- struct_can_be_packed s ;; Ok (report_if b (StructDefinition_loc s))
      | _ => Ok []
      end
  | _ => Ok []
  end.

Definition pack_struct_variables_optimization (source_unit : SourceUnit) : res (list Loc) :=
  do ls <- mapM pack_struct_node
             (extract_target_from_node Target_StructDefinition (N_SourceUnit source_unit)) ;;
  Ok (List.concat ls).
