(* Helpers evaluated by vm_compute in the generated cases of the C03 / C15 / C16
   correspondence checks: the model of analyze_dir run on the listing recorded by the
   harness, compared with what the implementation returned, and the SPECIFICATION
   (spec/DirSpec.v) evaluated on the implementation's own output.

   Patterns are numbered (N) by the rank of their name in the alphabetical list of the
   category, so that "sorted by pattern name" (harness) = "sorted by number" (here).
   A file's content is represented by its content-id (a short string); the per-file
   analysis `analyze` is the lookup table the check obtained from analyze_for_* on each
   distinct content alone. *)
From Coq Require Import List String Ascii NArith ZArith Bool.
Import ListNotations.
From Solstat Require Import Res Dir DirSpec.
Local Open Scope list_scope.

Definition bs (l : list N) : string :=
  fold_right (fun n s => String (ascii_of_N n) s) EmptyString l.

Definition lenN {A} (l : list A) : N := N.of_nat (List.length l).

Fixpoint list_eqb {A} (eqb : A -> A -> bool) (a b : list A) : bool :=
  match a, b with
  | [], [] => true
  | x :: a', y :: b' => eqb x y && list_eqb eqb a' b'
  | _, _ => false
  end.

(* ---------------------------------------------------------------- oracle table *)
(* content-id -> pattern -> Some lines | None (= the analysis panics) *)
Definition oracle : Type := list (string * list (N * option (list Z))).

Definition oracle_row (tbl : oracle) (c : string) : option (list (N * option (list Z))) :=
  match find (fun kv => String.eqb (fst kv) c) tbl with Some (_, row) => Some row | None => None end.

Definition oracle_get (tbl : oracle) (p : N) (c : string) : option (option (list Z)) :=
  match oracle_row tbl c with
  | Some row => match find (fun pr => N.eqb (fst pr) p) row with Some (_, r) => Some r | None => None end
  | None => None
  end.

Definition analyze_tbl (tbl : oracle) (p : N) (c : string) : res (list Z) :=
  match oracle_get tbl p c with
  | Some (Some ls) => Ok ls
  | Some None => Panic "analysis panics"
  | None => Panic "no oracle entry"
  end.

(* every (eligible readable file, selected pattern) has an oracle entry *)
Definition oracle_complete (tbl : oracle) (t : list entry) (ps : list N) : bool :=
  forallb (fun f : file => match snd f with
                    | Some c => forallb (fun p => match oracle_get tbl p c with Some _ => true | None => false end) ps
                    | None => true
                    end) (eligible_files_rec t).

(* ---------------------------------------------------------------- comparing maps *)
Definition fnd := list (string * list Z).
Definition fmapN := list (N * fnd).

Definition lines_eqb (a b : list Z) : bool := list_eqb Z.eqb a b.
Definition item_eqb (a b : string * list Z) : bool := String.eqb (fst a) (fst b) && lines_eqb (snd a) (snd b).
Definition fnd_eqb (a b : fnd) : bool := list_eqb item_eqb a b.
Definition fmap_eqb (a b : fmapN) : bool :=
  list_eqb (fun x y => N.eqb (fst x) (fst y) && fnd_eqb (snd x) (snd y)) a b.

Fixpoint insert_key (kv : N * fnd) (m : fmapN) : fmapN :=
  match m with
  | [] => [kv]
  | x :: r => if N.leb (fst kv) (fst x) then kv :: m else x :: insert_key kv r
  end.
Definition sort_keys (m : fmapN) : fmapN := fold_right insert_key [] m.

Fixpoint nodupb (l : list N) : bool :=
  match l with [] => true | x :: r => negb (existsb (N.eqb x) r) && nodupb r end.

(* multiset equality *)
Fixpoint remove1 {A} (eqb : A -> A -> bool) (x : A) (l : list A) : option (list A) :=
  match l with
  | [] => None
  | y :: r => if eqb x y then Some r else match remove1 eqb x r with Some r' => Some (y :: r') | None => None end
  end.
Fixpoint permb {A} (eqb : A -> A -> bool) (a b : list A) : bool :=
  match a with
  | [] => match b with [] => true | _ => false end
  | x :: a' => match remove1 eqb x b with Some b' => permb eqb a' b' | None => false end
  end.

Definition triple_eqb (a b : N * string * list Z) : bool :=
  N.eqb (fst (fst a)) (fst (fst b)) && String.eqb (snd (fst a)) (snd (fst b)) && lines_eqb (snd a) (snd b).

(* ---------------------------------------------------------------- boolean forms of the spec *)
Definition file_okb (an : N -> string -> res (list Z)) (ps : list N) (f : file) : bool :=
  match snd f with
  | Some c => forallb (fun p => is_ok (an p c)) ps
  | None => false
  end.
Definition all_okb an ps t : bool := forallb (file_okb an ps) (eligible_files_rec t).

Definition nonemptyb (m : fmapN) : bool :=
  forallb (fun kv : N * fnd => match snd kv with [] => false | _ => true end &&
                     forallb (fun nv : string * list Z => match snd nv with [] => false | _ => true end) (snd kv)) m.

(* C03.  `impl` = what the implementation returned: None = the run panicked, Some m = the map,
   keys sorted by pattern name, vectors in order.  Returns the failed sub-checks:
      90  the oracle table lacks an entry (the check itself is broken)
       1  model of analyze_dir <> implementation
     when every eligible file is readable and analyses without panic, and ps is duplicate-free
     (the hypotheses of analyze_dir_union), the SPECIFICATION on the implementation's output:
      12  the run failed
      13  a key occurs twice
      11  the multiset of (pattern, file, lines) is not the expected one        (C03 proper)
      14  the vector of some pattern is not in discovery order
      15  an empty vector or an empty line set is stored *)
Definition check_dir (tbl : oracle) (t : list entry) (ps : list N) (impl : option fmapN) : list N :=
  let an := analyze_tbl tbl in
  (if oracle_complete tbl t ps then [] else [90%N]) ++
  (match analyze_dir N.eq_dec an t ps, impl with
   | Panic _, None => []
   | Ok m, Some im => if fmap_eqb (sort_keys m) im then [] else [1%N]
   | _, _ => [1%N]
   end) ++
  (if all_okb an ps t && nodupb ps then
     match impl with
     | None => [12%N]
     | Some im =>
         (if nodupb (map fst im) then [] else [13%N]) ++
         (if permb triple_eqb (flatten im) (expected_triples an ps t) then [] else [11%N]) ++
         (if forallb (fun p => fnd_eqb (lookup N.eq_dec im p) (expected_vector an p t)) (ps ++ map fst im)
          then [] else [14%N]) ++
         (if nonemptyb im then [] else [15%N])
     end
   else []).

(* statistics of a case: eligible files, all files, expected triples, max #files sharing a pattern *)
Definition stats_dir (tbl : oracle) (t : list entry) (ps : list N) : N * N * N * N :=
  let an := analyze_tbl tbl in
  (lenN (eligible_files_rec t), lenN (all_files_rec t), lenN (expected_triples an ps t),
   fold_right N.max 0%N (map (fun p => lenN (expected_vector an p t)) ps)).

(* C16.  t = listing of the full tree, t' = listing of the same tree after the check removed
   the files it considers inert; impl / impl' = the implementation's results.  Failed sub-checks:
      20  (check broken) t' is not t with exactly the files of class 0 (name_class, below) removed,
          up to the order of the listings
      21  the two results differ as maps of multisets (or one run failed and the other not)   (C16 proper)
      23  the listing order of the remaining entries is unchanged (t' = prune_spec t) but the
          results are not identical
   (check_inert itself is defined at the end of the file, after name_class) *)
Definition same_multisets (a b : fmapN) : bool :=
  list_eqb N.eqb (map fst a) (map fst b) &&
  forallb (fun p => permb item_eqb (lookup N.eq_dec a p) (lookup N.eq_dec b p)) (map fst a).

Fixpoint entry_eqb (a b : entry) {struct a} : bool :=
  match a, b with
  | EFile n c, EFile n' c' =>
      String.eqb n n' && match c, c' with Some x, Some y => String.eqb x y | None, None => true | _, _ => false end
  | EDir n ch, EDir n' ch' =>
      String.eqb n n' &&
      (fix go (l l' : list entry) {struct l} : bool :=
         match l, l' with
         | [], [] => true
         | x :: r, y :: r' => entry_eqb x y && go r r'
         | _, _ => false
         end) ch ch'
  | _, _ => false
  end.

Definition file_eqb (a b : file) : bool :=
  String.eqb (fst a) (fst b) &&
  match snd a, snd b with Some x, Some y => String.eqb x y | None, None => true | _, _ => false end.

(* the name filter on a list of names: which are eligible (model) *)
Definition eligible_flags (names : list string) : list bool := map eligible names.

(* C15.  The statement verdict_independent evaluated on the implementation's output: for every
   eligible readable file whose name determines its content within the tree and every selected
   pattern whose analysis of it does not panic, the lines recorded in the run are those of the
   oracle.  Returns the number of (file, pattern) pairs examined and the number of failures. *)
Definition name_determines_content (t : list entry) (f : file) : bool :=
  forallb (fun g : file => negb (String.eqb (fst g) (fst f)) || file_eqb g f) (eligible_files_rec t).

Definition check_verdicts (tbl : oracle) (t : list entry) (ps : list N) (impl : option fmapN) : N * N :=
  match impl with
  | None => (0%N, 0%N)
  | Some im =>
      let pairs := flat_map (fun f : file =>
                      if name_determines_content t f then
                        match snd f with
                        | Some c => flat_map (fun p => match analyze_tbl tbl p c with
                                                       | Ok ls => [lines_eqb (verdict (lookup N.eq_dec im p) (fst f)) ls]
                                                       | Panic _ => []
                                                       end) ps
                        | None => []
                        end
                      else []) (eligible_files_rec t) in
      (lenN pairs, lenN (filter negb pairs))
  end.

(* C03 end to end through the real binary: the `- file:line` items of solstat_report.md as a
   multiset versus the union of the per-file results over the three categories (all patterns) *)
Definition report_pairs (tbls : list (oracle * list N)) (t : list entry) : list (string * Z) :=
  flat_map (fun tp : oracle * list N =>
              flat_map (fun tr : N * string * list Z => map (fun l => (snd (fst tr), l)) (snd tr))
                       (expected_triples (analyze_tbl (fst tp)) (snd tp) t)) tbls.
Definition pairZ_eqb (a b : string * Z) : bool := String.eqb (fst a) (fst b) && Z.eqb (snd a) (snd b).
Definition check_report (tbls : list (oracle * list N)) (t : list entry) (pairs : list (string * Z)) : bool :=
  permb pairZ_eqb pairs (report_pairs tbls t).
Definition all_ok_all (tbls : list (oracle * list N)) (t : list entry) : bool :=
  forallb (fun tp : oracle * list N => all_okb (analyze_tbl (fst tp)) (snd tp) t) tbls.

(* ---------------------------------------------------------------- C16: names *)
(* A decision of the SPECIFICATION's reading of a name (spec/DirSpec.v: is_suffix, ends_with_ci,
   contains_ci), written by enumerating every split of the name and comparing character by
   character - deliberately not the way the code (and Dir.eligible) computes it. *)
Local Open Scope string_scope.
Definition ci_charb (c d : ascii) : bool :=
  let n := N_of_ascii c in
  let k := N_of_ascii d in
  Ascii.eqb c d ||
  (N.leb 65 n && N.leb n 90 && N.eqb k (n + 32)) ||
  (N.leb 65 k && N.leb k 90 && N.eqb n (k + 32)).

Fixpoint same_cib (y x : string) : bool :=
  match y, x with
  | "", "" => true
  | String c y', String d x' => ci_charb c d && same_cib y' x'
  | _, _ => false
  end.

Fixpoint suffixes (s : string) : list string :=
  s :: match s with "" => [] | String _ r => suffixes r end.

Fixpoint take (n : nat) (s : string) : string :=
  match n, s with
  | S n', String c r => String c (take n' r)
  | _, _ => ""
  end.

Definition is_suffixb (x s : string) : bool := existsb (String.eqb x) (suffixes s).
Definition ends_with_cib (x s : string) : bool := existsb (fun suf => same_cib suf x) (suffixes s).
Definition contains_cib (x s : string) : bool :=
  existsb (fun suf => same_cib (take (String.length x) suf) x) (suffixes s).

(* 1 = must be analysed, 0 = must be inert, 2 = not decided by C16 (ends in .sol, has a
   spelling of .t.sol inside but not at the end) *)
Definition name_class (n : string) : N :=
  if negb (is_suffixb ".sol" n) then 0%N
  else if ends_with_cib ".t.sol" n then 0%N
  else if contains_cib ".t.sol" n then 2%N
  else 1%N.

(* names, for each whether the implementation analysed the file, and the class the check's
   Python mirror assigned.  Returns (index, code):
     1  Dir.eligible differs from the implementation
    11  the implementation contradicts the specification on a decided name
    90  the Python mirror of the classes disagrees with name_class (check machinery) *)
Fixpoint check_names_from (i : N) (l : list (string * bool * N)) : list (N * N) :=
  match l with
  | [] => []
  | (n, analysed, pycls) :: r =>
      let cls := name_class n in
      (if Bool.eqb (eligible n) analysed then [] else [(i, 1%N)]) ++
      (if (N.eqb cls 1 && negb analysed) || (N.eqb cls 0 && analysed) then [(i, 11%N)] else []) ++
      (if N.eqb cls pycls then [] else [(i, 90%N)]) ++
      check_names_from (i + 1) r
  end.
Definition check_names (l : list (string * bool * N)) : list (N * N) := check_names_from 0 l.
Definition count_classes (l : list (string * bool * N)) : N * N * N :=
  (lenN (filter (fun x => N.eqb (name_class (fst (fst x))) 0) l),
   lenN (filter (fun x => N.eqb (name_class (fst (fst x))) 1) l),
   lenN (filter (fun x => N.eqb (name_class (fst (fst x))) 2) l)).

(* the tree without the files the SPECIFICATION calls inert (class 0); undecided names stay *)
Fixpoint prune_spec_entry (e : entry) : list entry :=
  match e with
  | EFile n c => if N.eqb (name_class n) 0 then [] else [e]
  | EDir n ch => [EDir n (flat_map prune_spec_entry ch)]
  end.
Definition prune_spec (t : list entry) : list entry := flat_map prune_spec_entry t.

Definition check_inert (t t' : list entry) (impl impl' : option fmapN) : list N :=
  (if permb file_eqb (all_files_rec (prune_spec t)) (all_files_rec t') then [] else [20%N]) ++
  (match impl, impl' with
   | None, None => []
   | Some a, Some b =>
       (if same_multisets a b then [] else [21%N]) ++
       (if list_eqb entry_eqb (prune_spec t) t' then (if fmap_eqb a b then [] else [23%N]) else [])
   | _, _ => [21%N]
   end).
