(* Helpers evaluated by vm_compute in the generated case files of the checks C11/C12/C13:
   the model of the report generators and the SPECIFICATION (spec/ReportReader.v) are both
   evaluated on the bytes the implementation actually produced.
   Result = list of failed sub-checks ([] = model, specification and implementation agree):
      99  the implementation output was not transferred faithfully into Coq (tool failure)
       1  model <> implementation                                      (M)
      11  C11  entries read back from the report <> the findings (as multisets)
      12  C11  a pattern's key line occurs in the report  <->  the pattern has a finding
      13  C11  every entry lies under the key line of its own pattern, in the order of the report:
               reading the report and regrouping gives the findings back per pattern
      21  C12  total printed in the overview = number of entries read
      22  C12  severity heading printed <-> a finding of that severity exists
      23  C12  some entry lies under the wrong severity heading
      24  C12  category overview present <-> category has a finding (whole report) *)
From Coq Require Import List String Ascii NArith ZArith Bool.
Import ListNotations.
From Solstat Require Import Bytes Tables Sections Report ReportReader.
Local Open Scope string_scope.
Local Open Scope list_scope.
Local Open Scope N_scope.

Fixpoint list_eqb' {A} (eqb : A -> A -> bool) (a b : list A) : bool :=
  match a, b with
  | [], [] => true
  | x :: a', y :: b' => eqb x y && list_eqb' eqb a' b'
  | _, _ => false
  end.

Definition flag (b : bool) (code : N) : list N := if b then [] else [code].

Section Cat.
  Variable P : Type.
  Variable idx : P -> N.

  Definition triple_leb (a b : P * string * Z) : bool :=
    let '(p1, f1, z1) := a in
    let '(p2, f2, z2) := b in
    match N.compare (idx p1) (idx p2) with
    | Lt => true
    | Gt => false
    | Eq => match String.compare f1 f2 with
            | Lt => true
            | Gt => false
            | Eq => Z.leb z1 z2
            end
    end.

  Definition triple_eqb (a b : P * string * Z) : bool :=
    let '(p1, f1, z1) := a in
    let '(p2, f2, z2) := b in
    N.eqb (idx p1) (idx p2) && String.eqb f1 f2 && Z.eqb z1 z2.

  (* equality of multisets of triples *)
  Definition same_triples (a b : list (P * string * Z)) : bool :=
    list_eqb' triple_eqb (isort triple_leb a) (isort triple_leb b).

  Definition has_finding (F : findings P) (p : P) : bool :=
    existsb (fun kv => N.eqb (idx (fst kv)) (idx p) &&
                       existsb (fun fl => match snd fl with [] => false | _ => true end) (snd kv)) F.

  Definition sections_iff (keys : list (string * P)) (F : findings P) (report : string) : bool :=
    let ls := split_lines report in
    forallb (fun kp => Bool.eqb (existsb (String.eqb (fst kp)) ls) (has_finding F (snd kp))) keys.

  (* entries of pattern p in report order = the entries of p in F in SOME order of its files
     is implied by 11; here: entries read are grouped by pattern (each pattern's entries are contiguous) *)
  Fixpoint contiguous (seen : list N) (last : option N) (l : list N) : bool :=
    match l with
    | [] => true
    | x :: r => match last with
                | Some y => if N.eqb x y then contiguous seen last r
                            else negb (existsb (N.eqb x) seen) && contiguous (y :: seen) (Some x) r
                | None => contiguous seen (Some x) r
                end
    end.
End Cat.

Arguments triple_leb {P}.
Arguments same_triples {P}.
Arguments has_finding {P}.
Arguments sections_iff {P}.

Definition check_opt (wf : bool) (F : findings Optimization) (impl : string) (dg : N) : list N :=
  flag (N.eqb (digest impl) dg) 99 ++
  flag (String.eqb (generate_optimization_report F) impl) 1 ++
  (if wf then
     let rd := read_optimization_report impl in
     flag (same_triples Optimization_idx (map drop_heading rd) (triples F)) 11 ++
     flag (sections_iff Optimization_idx opt_keys F impl) 12 ++
     flag (contiguous [] None (map (fun e => Optimization_idx (fst (fst (drop_heading e)))) rd)) 13 ++
     flag (match printed_total opt_overview_prefix impl with
           | Some n => N.eqb n (N.of_nat (List.length rd)) | None => false end) 21
   else []).

Definition sev_present (F : findings Vulnerability) (s : VulnerabilitySeverity) : bool :=
  existsb (fun p => VulnerabilitySeverity_eqb (required_severity p) s && has_finding Vulnerability_idx F p)
          Vulnerability_all.

Definition heading_ok (e : option string * Vulnerability * string * Z) : bool :=
  let '(h, p, _, _) := e in
  match h with
  | Some h' => String.eqb h' (heading_of (required_severity p))
  | None => false
  end.

Definition check_vul (wf : bool) (F : findings Vulnerability) (impl : string) (dg : N) : list N :=
  flag (N.eqb (digest impl) dg) 99 ++
  flag (String.eqb (generate_vulnerability_report F) impl) 1 ++
  (if wf then
     let rd := read_vulnerability_report impl in
     flag (same_triples Vulnerability_idx (map drop_heading rd) (triples F)) 11 ++
     flag (sections_iff Vulnerability_idx vul_keys F impl) 12 ++
     flag (contiguous [] None (map (fun e => Vulnerability_idx (fst (fst (drop_heading e)))) rd)) 13 ++
     flag (match printed_total vul_overview_prefix impl with
           | Some n => N.eqb n (N.of_nat (List.length rd)) | None => false end) 21 ++
     flag (forallb (fun s => Bool.eqb (has_lineb (heading_of s) impl) (sev_present F s)) VulnerabilitySeverity_all) 22 ++
     flag (forallb heading_ok rd) 23
   else []).

Definition check_qa (wf : bool) (F : findings QualityAssurance) (impl : string) (dg : N) : list N :=
  flag (N.eqb (digest impl) dg) 99 ++
  flag (String.eqb (generate_qa_report F) impl) 1 ++
  (if wf then
     let rd := read_qa_report impl in
     flag (same_triples QualityAssurance_idx (map drop_heading rd) (triples F)) 11 ++
     flag (sections_iff QualityAssurance_idx qa_keys F impl) 12 ++
     flag (contiguous [] None (map (fun e => QualityAssurance_idx (fst (fst (drop_heading e)))) rd)) 13
   else []).

(* whole report *)
Definition any_idx (p : AnyPattern) : N :=
  match p with
  | AnyVul v => Vulnerability_idx v
  | AnyOpt o => 100 + Optimization_idx o
  | AnyQa q => 200 + QualityAssurance_idx q
  end.

Definition line_with_prefix (pre : string) (report : string) : bool :=
  existsb (fun l => match strip_prefix pre l with Some _ => true | None => false end) (split_lines report).

Definition nonempty_triples {P} (F : findings P) : bool :=
  match triples F with [] => false | _ => true end.

Definition check_all (wf : bool) (V : findings Vulnerability) (O : findings Optimization) (Q : findings QualityAssurance)
           (impl : string) (dg : N) : list N :=
  flag (N.eqb (digest impl) dg) 99 ++
  flag (String.eqb (generate_report V O Q) impl) 1 ++
  (if wf then
     let rd := read_full_report impl in
     let FF := tag_findings AnyVul V ++ tag_findings AnyOpt O ++ tag_findings AnyQa Q in
     flag (same_triples any_idx (map drop_heading rd) (triples FF)) 11 ++
     flag (sections_iff any_idx all_keys FF impl) 12 ++
     flag (Bool.eqb (line_with_prefix vul_overview_prefix impl) (nonempty_triples V) &&
           Bool.eqb (line_with_prefix opt_overview_prefix impl) (nonempty_triples O) &&
           Bool.eqb (existsb (fun kp => has_lineb (fst kp) impl) qa_keys) (nonempty_triples Q)) 24
   else []).

(* statistics for the evidence: (number of entries read, number of lines of the report) *)
Definition stats_report (impl : string) : N * N :=
  (N.of_nat (List.length (read_full_report impl)), N.of_nat (List.length (split_lines impl))).
