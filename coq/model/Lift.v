(* Predicate liftings used by the generated induction principle (gen/Pt.v). *)
From Coq Require Import List.
Import ListNotations.

Definition TrueP {A : Type} (a : A) : Prop := True.
Definition OptP {A : Type} (P : A -> Prop) (o : option A) : Prop :=
  match o with Some a => P a | None => True end.
Definition PairP {A B : Type} (P : A -> Prop) (Q : B -> Prop) (p : A * B) : Prop :=
  P (fst p) /\ Q (snd p).
