(* Byte strings: helpers shared by the generated texts (gen/Sections.v) and the report model.
   Text is `string` = list of bytes (DESIGN 4.1). *)
From Coq Require Import List String Ascii NArith.
Import ListNotations.
Local Open Scope N_scope.

(* a string given by its bytes (used by the translators for texts that are unsafe as literals) *)
Definition bytes_to_string (l : list N) : string :=
  fold_right (fun n s => String (ascii_of_N n) s) EmptyString l.

Definition string_to_bytes (s : string) : list N :=
  map N_of_ascii (list_ascii_of_string s).

(* concatenation of a list of strings (Rust: successive push_str) *)
Definition sconcat (l : list string) : string := fold_right append EmptyString l.

Definition LF : ascii := ascii_of_N 10.
Definition nl : string := String LF EmptyString.

(* polynomial digest of a byte string, used by the correspondence checks to compare a
   Coq string with the bytes the implementation produced without shipping them twice *)
Definition digest_step (a : N) (c : ascii) : N := N.land (a * 1000003 + N_of_ascii c + 1) 2305843009213693951.
Fixpoint digest_from (a : N) (s : string) : N :=
  match s with
  | EmptyString => a
  | String c r => digest_from (digest_step a c) r
  end.
Definition digest (s : string) : N := digest_from 7 s.

Definition slen (s : string) : N := N.of_nat (String.length s).
