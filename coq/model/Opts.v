(* Model of the configuration layer of solstat (property C14):
     str_to_optimization / str_to_vulnerability / str_to_qa   (src/analyzer/*/mod.rs)
     Opts::new                                               (src/opts.rs)
   The name tables themselves are regenerated from the source (gen/Names.v); this file
   mirrors the code that USES them.  Written for the code after the repairs D13a/D13b.

   Not modelled (oracle inputs): clap's parsing of the command line (-> Args), reading
   the --toml file and serde/toml deserialisation (-> option SolstatToml; None = the file
   could not be read or is not a SolstatToml: both are `expect` panics in Opts::new).

   Stated gap: Rust's str::to_lowercase is Unicode-aware, `ascii_lower` lowers A-Z only.
   Both agree on every string made of ASCII bytes.  For deciding membership in an
   all-ASCII table they can differ only on input that contains a non-ASCII character
   whose lower-case form is ASCII: the Kelvin sign U+212A (-> k). *)
From Coq Require Import List String Ascii NArith Bool.
Import ListNotations.
From Solstat Require Import Res Names.
Local Open Scope string_scope.
Local Open Scope N_scope.

(* ---- str::to_lowercase restricted to ASCII ---- *)
Definition is_upper (c : ascii) : bool := (65 <=? N_of_ascii c) && (N_of_ascii c <=? 90).
Definition lower_char (c : ascii) : ascii :=
  if is_upper c then ascii_of_N (N_of_ascii c + 32) else c.
Fixpoint ascii_lower (s : string) : string :=
  match s with
  | EmptyString => EmptyString
  | String c r => String (lower_char c) (ascii_lower r)
  end.

(* ---- `match lowered { "k1" => V1, "k2" => V2, ..., other => panic!(..) }` :
        the first arm whose literal equals the scrutinee ---- *)
Fixpoint lookup (t : list (string * N)) (s : string) : option N :=
  match t with
  | [] => None
  | (k, v) :: r => if String.eqb k s then Some v else lookup r s
  end.

(* str_to_optimization / str_to_vulnerability / str_to_qa; None = panic!("Unrecgonized ..") *)
Definition str_to (c : category) (name : string) : option N :=
  lookup (str_table c) (ascii_lower name).

Definition unrecognized (c : category) : string :=
  "Unrecgonized " ++
  (if String.eqb (cat_key c) "opt" then "optimization"
   else if String.eqb (cat_key c) "vul" then "vulnerability" else "qa").

Definition str_to_res (c : category) (name : string) : res N :=
  match str_to c name with
  | Some v => Ok v
  | None => Panic (unrecognized c)
  end.

(* ---- src/opts.rs ---- *)
Record Args : Type := { arg_path : option string; arg_toml : option string }.

Record SolstatToml : Type := {
  t_path : string;
  t_optimizations : list string;
  t_vulnerabilities : list string;
  t_qa : list string
}.

Inductive result : Type :=
  | Run (path : string) (opts vulns qas : list N)   (* Opts { path, optimizations, vulnerabilities, qa } *)
  | PanicExit (site : string)                      (* panic while building Opts: exit status 101, nothing analysed *)
  | Exit1.                                         (* process::exit(1): no --path, no toml, no ./contracts *)

Definition toml_site : string := "Could not".   (* "Could not read toml file to string" /
                                                   "Could not convert toml contents to SolstatToml" *)

(* first half of Opts::new: the three pattern lists and, when a configuration file was
   given, its `path` field.  The three `.iter().map(|f| str_to_..(f)).collect()` run in this order;
   the first unknown name panics. *)
Definition selection (a : Args) (t : option SolstatToml) : res (option string * list N * list N * list N) :=
  match arg_toml a with
  | Some _ =>
      match t with
      | None => Panic toml_site
      | Some cfg =>
          do o <- mapM (str_to_res cat_opt) (t_optimizations cfg) ;;
          do v <- mapM (str_to_res cat_vul) (t_vulnerabilities cfg) ;;
          do q <- mapM (str_to_res cat_qa) (t_qa cfg) ;;
          Ok (Some (t_path cfg), o, v, q)
      end
  | None => Ok (None, get_all cat_opt, get_all cat_vul, get_all cat_qa)
  end.

Definition default_dir : string := "./contracts".

(* Opts::new.  `contracts_dir_exists` = fs::read_dir("./contracts").is_ok() (looked at only
   when neither --path nor a configuration file supplies the directory). *)
Definition resolve (a : Args) (t : option SolstatToml) (contracts_dir_exists : bool) : result :=
  match selection a t with
  | Panic s => PanicExit s
  | Ok (tp, o, v, q) =>
      match arg_path a with
      | Some p => Run p o v q
      | None =>
          match tp with
          | Some p => Run p o v q
          | None => if contracts_dir_exists then Run default_dir o v q else Exit1
          end
      end
  end.

(* ---- helpers for the correspondence check (tools/checks/c14.py) ---- *)
Fixpoint index_of (s : string) (l : list string) (i : N) : N :=
  match l with
  | [] => i
  | x :: r => if String.eqb x s then i else index_of s r (i + 1)
  end.

(* (kind, index of the path among `cands` (= length when absent), opts, vulns, qa, panic site index) *)
Definition encode_result (cands sites : list string) (r : result) : N * N * list N * list N * list N * N :=
  match r with
  | Run p o v q => (0, index_of p cands 0, o, v, q, 0)
  | PanicExit s => (1, 0, [], [], [], index_of s sites 0)
  | Exit1 => (2, 0, [], [], [], 0)
  end.

Definition opt_code (o : option N) : N := match o with Some v => v + 1 | None => 0 end.
