(* Helpers evaluated by vm_compute in the correspondence checks of C02 / C09 / C10
   (tools/checks/c02.py, c10.py, version_common.py): the same enumerations and digests
   as harness/src/bin/vh_digest.rs, and checkers for explicitly shipped cases that compare
   the implementation's recorded answer with the model AND with the specification. *)
From Coq Require Import List String Ascii NArith ZArith Bool.
Import ListNotations.
From Solstat Require Import Res Utils LineSpec SlotSpec.
Local Open Scope N_scope.

Definition bytes (l : list N) : string :=
  fold_right (fun n s => String (ascii_of_N n) s) EmptyString l.

Definition mask61 : N := 2305843009213693951.       (* 2^61 - 1 *)
Definition dstep (acc v : N) : N := N.land (acc * 31 + v) mask61.

(* answer + 1, or 0 for a panic *)
Definition codeZ (r : res Z) : N := match r with Ok z => Z.to_N (z + 1) | Panic _ => 0 end.
Definition codeN (r : res N) : N := match r with Ok n => n + 1 | Panic _ => 0 end.

(* ------------------------------------------------------------------ C02: exhaustive strings *)
Definition alpha : list N := [97; 10; 13; 195; 169].

Fixpoint strings_of_len (n : nat) : list (list N) :=
  match n with
  | O => [[]]
  | S k => flat_map (fun c => map (cons c) (strings_of_len k)) alpha
  end.

(* valid UTF-8 over this alphabet: 0xC3 is immediately followed by 0xA9, and 0xA9 occurs
   only there *)
Fixpoint valid5 (l : list N) : bool :=
  match l with
  | [] => true
  | c :: r =>
      if c =? 195 then match r with d :: r' => (d =? 169) && valid5 r' | [] => false end
      else if c =? 169 then false else valid5 r
  end.

Record line_acc := { la_strings : N; la_all : N; la_dmodel : N; la_nonlf : N; la_dspec : N }.
Definition la0 : line_acc := Build_line_acc 0 0 0 0 0.

(* every offset of one string: model digest over all offsets, specification digest over
   the offsets that are not a line feed *)
Fixpoint line_offsets (s : string) (rest : list N) (off : N) (a : line_acc) : line_acc :=
  match rest with
  | [] => a
  | b :: r =>
      let vm := codeZ (get_line_number off s) in
      let a1 := Build_line_acc (la_strings a) (la_all a + 1) (dstep (la_dmodel a) vm) (la_nonlf a) (la_dspec a) in
      let a2 := if b =? 10 then a1
                else Build_line_acc (la_strings a1) (la_all a1) (la_dmodel a1) (la_nonlf a1 + 1)
                                    (dstep (la_dspec a1) (Z.to_N (line_spec s off + 1))) in
      line_offsets s r (off + 1) a2
  end.

Definition line_string (a : line_acc) (l : list N) : line_acc :=
  if valid5 l then
    line_offsets (bytes l) l 0
      (Build_line_acc (la_strings a + 1) (la_all a) (la_dmodel a) (la_nonlf a) (la_dspec a))
  else a.

Definition line_block (maxlen : nat) (block : N) : N * N * N * N * N :=
  let a :=
    if block =? 0 then
      fold_left line_string ([] :: (match maxlen with O => [] | _ => map (fun c => [c]) alpha end)) la0
    else
      let i := nth (N.to_nat ((block - 1) / 5)) alpha 0 in
      let j := nth (N.to_nat ((block - 1) mod 5)) alpha 0 in
      fold_left (fun a tl => fold_left (fun a t => line_string a (i :: j :: t)) (strings_of_len tl) a)
                (seq 0 (maxlen - 1)) la0 in
  (la_strings a, la_all a, la_dmodel a, la_nonlf a, la_dspec a).

(* ------------------------------------------------------------------ C02: explicit cases
   cases = (offset, code of the implementation's answer).  Result: the failing cases as
   (offset, kind): kind 1 = the model differs from the implementation,
                   kind 2 = the implementation violates the specification (offset inside the
                            text, not a line feed, answer <> line_spec) *)
Definition in_domain (s : string) (off : N) : bool :=
  match byte_at off s with Some c => negb (Ascii.eqb c LF) | None => false end.

Definition check_lines (s : string) (cases : list (N * N)) : list (N * N) :=
  flat_map (fun c =>
      let off := fst c in let impl := snd c in
      (if codeZ (get_line_number off s) =? impl then [] else [(off, 1)]) ++
      (if in_domain s off && negb (Z.to_N (line_spec s off + 1) =? impl) then [(off, 2)] else []))
    cases.

(* the three answers, for --replay: (model code, line_spec, in the property's domain) *)
Definition line_answers (s : string) (off : N) : N * N * bool :=
  (codeZ (get_line_number off s), Z.to_N (line_spec s off), in_domain s off).

(* ------------------------------------------------------------------ C10: exhaustive sequences *)
Definition sizes32 : list N := map (fun k => 8 * N.of_nat k) (seq 1 32).

Fixpoint seqs_of_len (n : nat) : list (list N) :=
  match n with
  | O => [[]]
  | S k => flat_map (fun c => map (cons c) (seqs_of_len k)) sizes32
  end.

Fixpoint insert_all (x : N) (l : list N) : list (list N) :=
  match l with
  | [] => [[x]]
  | y :: r => (x :: l) :: map (cons y) (insert_all x r)
  end.
Fixpoint perms (l : list N) : list (list N) :=
  match l with
  | [] => [[]]
  | x :: r => flat_map (insert_all x) (perms r)
  end.

(* the three clauses of the property about the verdict b for the member sizes l, evaluated
   with the specification's slot count (SlotSpec.slots_spec):
     reported only if some reordering takes strictly fewer slots; never if the declared order
     is optimal (the same condition, contraposed); always if both sort directions save a slot *)
Definition some_order_better (l : list N) : bool :=
  let n := slots_spec l in
  (* candidate reorderings: the ascending sort first, then every permutation
     (`if`, not `||`: vm_compute is call-by-value) *)
  if slots_spec (sort_u16 l) <? n then true else existsb (fun p => slots_spec p <? n) (perms l).
Definition both_sorts_better (l : list N) : bool :=
  let n := slots_spec l in
  (slots_spec (sort_u16 l) <? n) && (slots_spec (rev (sort_u16 l)) <? n).
Definition verdict_ok (l : list N) (b : bool) : bool :=
  if b then some_order_better l else negb (both_sorts_better l).

Definition code_bool (r : res bool) : N := match r with Ok true => 4 | Ok false => 1 | Panic _ => 0 end.

Record slot_acc := { sa_n : N; sa_dmodel : N; sa_dspec : N; sa_dbit : N; sa_rep : N; sa_viol : N }.
Definition sa0 : slot_acc := Build_slot_acc 0 0 0 0 0 0.

(* verdict code as in vh_digest: 0 panic, 1 + contract bit + 2 * struct bit (both detectors
   make the same comparison, so the model's code is 1 or 4) *)
Definition slot_seq (a : slot_acc) (l : list N) : slot_acc :=
  let r := can_be_packed l in
  let rep := match r with Ok true => true | _ => false end in
  Build_slot_acc (sa_n a + 1)
                 (dstep (sa_dmodel a) (codeN (storage_slots_used l)))
                 (dstep (sa_dspec a) (slots_spec l + 1))
                 (dstep (sa_dbit a) (code_bool r))
                 (if rep then sa_rep a + 1 else sa_rep a)
                 (match r with
                  | Ok b => if verdict_ok l b then sa_viol a else sa_viol a + 1
                  | Panic _ => sa_viol a + 1
                  end).

(* block = the sequences  prefix ++ t,  t over all sequences of length tl, lexicographic *)
Definition slot_block (prefix : list N) (tl : nat) : N * N * N * N * N * N :=
  let a := fold_left (fun a t => slot_seq a (prefix ++ t)) (seqs_of_len tl) sa0 in
  (sa_n a, sa_dmodel a, sa_dspec a, sa_dbit a, sa_rep a, sa_viol a).

Definition size_at (i : N) : N := 8 * (i + 1).

(* ------------------------------------------------------------------ C10: explicit sequences
   impl = (code of storage_slots_used, contract verdict code, struct verdict code) with
   verdict codes 0 panic / 1 not reported / 2 reported.  Result: failed sub-checks
     1 model slots <> implementation        2 implementation <> layout rule (slots_spec)
     3 model verdict <> contract detector   4 model verdict <> struct detector
     5 verdict violates the property (short sequences: all reorderings tried; long ones:
       reported although the declared order already meets the lower bound ceil(total/256),
       or not reported although both sorts save a slot) *)
Definition all_size_ok (l : list N) : bool := forallb (fun s => (0 <? s) && (s <=? 256)) l.

Definition vcode (r : res bool) : N := match r with Ok true => 2 | Ok false => 1 | Panic _ => 0 end.

Definition clause_check (l : list N) (reported : bool) : bool :=
  if Nat.leb (List.length l) 6 then verdict_ok l reported
  else if reported then (total l + 255) / 256 <? slots_spec l else negb (both_sorts_better l).

Definition check_slots (l : list N) (impl : N * N * N) : list N :=
  let '(is, ic, it) := impl in
  let dom := all_size_ok l in
  let m := can_be_packed l in
  (if codeN (storage_slots_used l) =? is then [] else [1]) ++
  (if dom && negb (slots_spec l + 1 =? is) then [2] else []) ++
  (if vcode m =? ic then [] else [3]) ++
  (if vcode m =? it then [] else [4]) ++
  (if dom && (0 <? ic) && negb (clause_check l (ic =? 2)) then [5] else []) ++
  (if dom && (0 <? it) && negb (clause_check l (it =? 2)) then [6] else []).

(* ------------------------------------------------------------------ C09: version strings
   the pieces returned by get_solidity_major_minor_patch_version as byte lists, and for each
   piece the code of parse_i32 (value + 1, 0 for the panic of `.parse::<i32>().unwrap()`) *)
Fixpoint str_bytes (s : string) : list N :=
  match s with EmptyString => [] | String c r => N_of_ascii c :: str_bytes r end.

Definition ver_answer (s : string) : list (list N) * list N :=
  let ps := get_solidity_major_minor_patch_version s in
  (map str_bytes ps, map (fun p => codeZ (parse_i32 p)) ps).
