(* C02, detector level, specification side: every line reported by a detector is the line on which one
   of the constructs matching its documented pattern (spec/Patterns*.v, DESIGN section 8 anchors) begins.
   Evaluated on the implementation's line sets; codes 100+k = detector k reports a line on which no
   matching construct begins. *)
From Coq Require Import List String Ascii NArith ZArith Bool.
Import ListNotations.
From Solstat Require Import Lift Pt Cases DetCases Patterns Patterns2 SpecCases.
Local Open Scope N_scope.

Definition anchor_lines (src : string) (ls : list Loc) : list Z := map (fun l => spec_line src (loc_start l)) ls.

Definition lines_within (k : N) (src : string) (match_ : list Loc) (i : option (list Z)) : list N :=
  match i with
  | None => []
  | Some zs => if incl_z zs (anchor_lines src match_) then [] else [100 + k]
  end.

Definition nth_lines (l : list (option (list Z))) (k : nat) : option (list Z) := nth k l None.

Definition spec_anchor_lines (su : SourceUnit) (src : string) (l : list (option (list Z))) : list N :=
  lines_within 0 src (spec_address_balance su) (nth_lines l 0) ++
  lines_within 1 src (match_address_zero su) (nth_lines l 1) ++
  lines_within 2 src (match_assign_update su) (nth_lines l 2) ++
  lines_within 3 src (spec_bool_equals_bool su) (nth_lines l 3) ++
  lines_within 4 src (spec_cache_array_length su) (nth_lines l 4) ++
  lines_within 7 src (spec_increment_decrement su) (nth_lines l 7) ++
  lines_within 9 src (spec_multiple_require su) (nth_lines l 9) ++
  lines_within 10 src (spec_optimal_comparison su) (nth_lines l 10) ++
  lines_within 17 src (match_shift_math su) (nth_lines l 17) ++
  lines_within 19 src (spec_solidity_keccak256 su) (nth_lines l 19) ++
  lines_within 20 src (spec_solidity_math su) (nth_lines l 20) ++
  lines_within 13 src (spec_payable_function su) (nth_lines l 13) ++
  lines_within 14 src (spec_private_constant su) (nth_lines l 14) ++
  lines_within 27 src (spec_constructor_order su) (nth_lines l 27) ++
  lines_within 28 src (spec_private_func su) (nth_lines l 28) ++
  lines_within 29 src (spec_private_vars su) (nth_lines l 29) ++
  lines_within 23 src (spec_divide_before_multiply su) (nth_lines l 23) ++
  lines_within 24 src (spec_floating_pragma su) (nth_lines l 24) ++
  lines_within 25 src (spec_unprotected_selfdestruct su) (nth_lines l 25) ++
  lines_within 26 src (spec_unsafe_erc20 su) (nth_lines l 26) ++
  (if hyp_c08 su then
     lines_within 5 src (match_constant su) (nth_lines l 5) ++
     lines_within 6 src (match_immutable su) (nth_lines l 6) ++
     lines_within 8 src (match_m2c su) (nth_lines l 8) ++
     lines_within 21 src (match_sstore su) (nth_lines l 21)
   else []) ++
  match file_version su with
  | None => []
  | Some v =>
      lines_within 15 src (spec_safemath_pre v su) (nth_lines l 15) ++
      lines_within 16 src (spec_safemath_post v su) (nth_lines l 16) ++
      lines_within 18 src (spec_short_revert v su) (nth_lines l 18) ++
      lines_within 22 src (spec_string_errors v su) (nth_lines l 22)
  end.

(* completeness at the level of reported lines: the line of every construct that MUST be reported (canonical
   anchors) is among the reported lines; code k = detector k misses such a line *)
Definition lines_cover (k : N) (src : string) (canon : list Loc) (i : option (list Z)) : list N :=
  match i with
  | None => []
  | Some zs => if incl_z (anchor_lines src canon) zs then [] else [k]
  end.

Definition spec_anchor_lines_complete (su : SourceUnit) (src : string) (l : list (option (list Z))) : list N :=
  lines_cover 0 src (spec_address_balance su) (nth_lines l 0) ++
  lines_cover 1 src (canon_address_zero su) (nth_lines l 1) ++
  lines_cover 2 src (canon_assign_update su) (nth_lines l 2) ++
  lines_cover 3 src (spec_bool_equals_bool su) (nth_lines l 3) ++
  lines_cover 4 src (spec_cache_array_length su) (nth_lines l 4) ++
  lines_cover 7 src (spec_increment_decrement su) (nth_lines l 7) ++
  lines_cover 9 src (spec_multiple_require su) (nth_lines l 9) ++
  lines_cover 10 src (spec_optimal_comparison su) (nth_lines l 10) ++
  lines_cover 17 src (canon_shift_math su) (nth_lines l 17) ++
  lines_cover 19 src (spec_solidity_keccak256 su) (nth_lines l 19) ++
  lines_cover 20 src (spec_solidity_math su) (nth_lines l 20) ++
  lines_cover 13 src (spec_payable_function su) (nth_lines l 13) ++
  lines_cover 14 src (spec_private_constant su) (nth_lines l 14) ++
  lines_cover 27 src (spec_constructor_order su) (nth_lines l 27) ++
  lines_cover 28 src (spec_private_func su) (nth_lines l 28) ++
  lines_cover 29 src (spec_private_vars su) (nth_lines l 29) ++
  lines_cover 23 src (spec_divide_before_multiply su) (nth_lines l 23) ++
  lines_cover 24 src (spec_floating_pragma su) (nth_lines l 24) ++
  lines_cover 25 src (spec_unprotected_selfdestruct su) (nth_lines l 25) ++
  lines_cover 26 src (spec_unsafe_erc20 su) (nth_lines l 26) ++
  (if hyp_c08 su then
     lines_cover 5 src (canon_constant su) (nth_lines l 5) ++
     lines_cover 6 src (canon_immutable su) (nth_lines l 6) ++
     lines_cover 8 src (canon_m2c su) (nth_lines l 8) ++
     lines_cover 21 src (canon_sstore su) (nth_lines l 21)
   else []) ++
  match file_version su with
  | None => []
  | Some v =>
      lines_cover 15 src (spec_safemath_pre v su) (nth_lines l 15) ++
      lines_cover 16 src (spec_safemath_post v su) (nth_lines l 16) ++
      lines_cover 18 src (spec_short_revert v su) (nth_lines l 18) ++
      lines_cover 22 src (spec_string_errors v su) (nth_lines l 22)
  end.

(* both directions, for the detector checks C05-C09: k = a canonical line is missing, 100+k = a line is reported on
   which no matching construct begins *)
Definition spec_lines_both (su : SourceUnit) (src : string) (l : list (option (list Z))) : list N :=
  spec_anchor_lines_complete su src l ++ spec_anchor_lines su src l.
