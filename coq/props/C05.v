(* C05 - expression-level gas detectors flag exactly their documented pattern.
   spec_d / canon_d / match_d (spec/Patterns.v) are stated over the complete
   type-derived pre-order of the file (every syntactic position outside inline
   assembly).  Statements only; proofs in proofs/DetC05.v, DetC05b.v. *)
From Coq Require Import List String Ascii NArith ZArith Bool.
Import ListNotations.
From Solstat Require Import Lift Pt Walk Res Nodes Utils Detectors Patterns DetBase DetC05 DetC05b ExampleProg.

(* ---- detectors whose canonical and matching forms coincide: exact equality *)
Theorem address_balance_exact : forall su, address_balance_optimization su = Ok (spec_address_balance su).
Proof. exact address_balance_closed. Qed.
Print Assumptions address_balance_exact.

Theorem bool_equals_bool_exact : forall su, bool_equals_bool_optimization su = Ok (spec_bool_equals_bool su).
Proof. exact bool_equals_bool_closed. Qed.
Print Assumptions bool_equals_bool_exact.

Theorem cache_array_length_exact : forall su, cache_array_length_optimization su = Ok (spec_cache_array_length su).
Proof. exact cache_array_length_closed. Qed.
Print Assumptions cache_array_length_exact.

(* every ++/-- except a prefix form (compared by location) inside an unchecked block *)
Theorem increment_decrement_exact : forall su, increment_decrement_optimization su = Ok (spec_increment_decrement su).
Proof. exact increment_decrement_closed. Qed.
Print Assumptions increment_decrement_exact.

Theorem multiple_require_exact : forall su,
  exists ls : list Loc, multiple_require_optimization su = Ok ls /\ (forall l, In l ls <-> In l (spec_multiple_require su)).
Proof. exact multiple_require_closed. Qed.
Print Assumptions multiple_require_exact.

Theorem optimal_comparison_exact : forall su, optimal_comparison_optimization su = Ok (spec_optimal_comparison su).
Proof. exact optimal_comparison_closed. Qed.
Print Assumptions optimal_comparison_exact.

Theorem solidity_keccak256_exact : forall su, solidity_keccak256_optimization su = Ok (spec_solidity_keccak256 su).
Proof. exact solidity_keccak256_closed. Qed.
Print Assumptions solidity_keccak256_exact.

Theorem solidity_math_exact : forall su, solidity_math_optimization su = Ok (spec_solidity_math su).
Proof. exact solidity_math_closed. Qed.
Print Assumptions solidity_math_exact.

(* ---- detectors with a silent zone: every canonical occurrence is reported, and
   nothing is reported where no matching construct begins *)
Theorem address_zero_sound_complete : forall su,
  exists ls, address_zero_optimization su = Ok ls /\
             incl (canon_address_zero su) ls /\ incl ls (match_address_zero su).
Proof. exact address_zero_between. Qed.
Print Assumptions address_zero_sound_complete.

Theorem assign_update_sound_complete : forall su,
  exists ls, assign_update_array_optimization su = Ok ls /\
             incl (canon_assign_update su) ls /\ incl ls (match_assign_update su).
Proof. exact assign_update_between. Qed.
Print Assumptions assign_update_sound_complete.

(* shift_math: canonical = literal 2^k (k <= 31) without exponent; never = literal whose
   value is not a power of two, literal with a positive exponent, non-literal operand *)
Theorem shift_math_sound_complete : forall su,
  exists ls, shift_math_optimization su = Ok ls /\
             incl (canon_shift_math su) ls /\ incl ls (match_shift_math su).
Proof. exact shift_math_between. Qed.
Print Assumptions shift_math_sound_complete.

(* ---- non-vacuity: a real parse tree on which every specification is non-empty *)
Example c05_specs_nonempty :
  forallb (fun l : list Loc => negb (Nat.eqb (List.length l) 0))
          [ spec_address_balance example_su; canon_address_zero example_su; canon_assign_update example_su;
            spec_bool_equals_bool example_su; spec_cache_array_length example_su;
            spec_increment_decrement example_su; spec_multiple_require example_su;
            spec_optimal_comparison example_su; canon_shift_math example_su;
            spec_solidity_keccak256 example_su; spec_solidity_math example_su ] = true.
Proof. vm_compute. reflexivity. Qed.
Print Assumptions c05_specs_nonempty.

(* the prefix increment inside `unchecked` of the example is exempt, the postfix one is reported *)
Example c05_unchecked_exemption :
  List.length (exempt_prefix_locs example_su) = 1 /\ List.length (spec_increment_decrement example_su) = 1.
Proof. vm_compute. split; reflexivity. Qed.
Print Assumptions c05_unchecked_exemption.
