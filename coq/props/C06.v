(* C06 - declaration-level gas and QA detectors flag exactly their documented pattern.
   The specifications (spec/Patterns.v) are written over the declared structure of the
   file: contracts su, their member functions and state variables.
   Statements only; proofs in proofs/DetC06.v. *)
From Coq Require Import List String Ascii NArith ZArith Bool.
Import ListNotations.
From Solstat Require Import Lift Pt Walk Res Nodes Utils Detectors Patterns DetBase DetC06 ExampleProg.

(* a member function with a body that carries public/external and not payable *)
Theorem payable_function_exact : forall su, payable_function_optimization su = Ok (spec_payable_function su).
Proof. exact payable_function_closed. Qed.
Print Assumptions payable_function_exact.

(* a state variable carrying `constant` and not `private` (any type) *)
Theorem private_constant_exact : forall su, private_constant_optimization su = Ok (spec_private_constant su).
Proof. exact private_constant_closed. Qed.
Print Assumptions private_constant_exact.

(* a non-constant state variable (any type) one of whose explicit visibilities contradicts
   its leading underscore; reported at the first byte of the declaration *)
Theorem private_vars_exact : forall su,
  exists ls : list Loc, private_vars_leading_underscore su = Ok ls /\ (forall l, In l ls <-> In l (spec_private_vars su)).
Proof. exact private_vars_closed. Qed.
Print Assumptions private_vars_exact.

(* a named `function` member (not constructor/fallback/receive/modifier) whose explicit
   visibility contradicts its leading underscore; reported at the name *)
Theorem private_func_exact : forall su,
  exists ls : list Loc, private_func_leading_underscore su = Ok ls /\ (forall l, In l ls <-> In l (spec_private_func su)).
Proof. exact private_func_closed. Qed.
Print Assumptions private_func_exact.

(* a constructor preceded, in its own contract, by a function/fallback/receive *)
Theorem constructor_order_exact : forall su, constructor_order_qa su = Ok (spec_constructor_order su).
Proof. exact constructor_order_closed. Qed.
Print Assumptions constructor_order_exact.

(* ---- locality: each specification is a union over the contracts of the file of a
   function of that contract alone (libraries, interfaces, other contracts and free
   functions never influence a verdict), and within a contract of each declaration alone -
   for constructor_order, of the members that precede the constructor *)
Theorem payable_function_local : forall su,
  spec_payable_function su =
  flat_map (fun c => select (fun f => sp_has_body f && sp_pub_ext f && negb (existsb sp_fattr_payable (FunctionDefinition_attributes f)))
                            FunctionDefinition_loc (functions_of c)) (contracts su).
Proof. intros su. apply select_flat_map. Qed.
Print Assumptions payable_function_local.

Theorem private_constant_local : forall su,
  spec_private_constant su =
  flat_map (fun c => select (fun v => sp_is_constant v && negb (existsb sp_vattr_private (VariableDefinition_attrs v)))
                            VariableDefinition_loc (variables_of c)) (contracts su).
Proof. intros su. apply select_flat_map. Qed.
Print Assumptions private_constant_local.

Theorem private_vars_local : forall su,
  spec_private_vars su =
  flat_map (fun c => select (fun v => negb (sp_is_constant v) && sp_var_contradiction v)
                            VariableDefinition_loc (variables_of c)) (contracts su).
Proof. intros su. apply select_flat_map. Qed.
Print Assumptions private_vars_local.

Theorem constructor_order_local : forall su,
  spec_constructor_order su = flat_map (fun c => sp_ctor_order [] (ContractDefinition_parts c)) (contracts su).
Proof. reflexivity. Qed.
Print Assumptions constructor_order_local.

(* ---- non-vacuity on a real parse tree (contract A of the example: `first()` precedes the
   constructor; `LIMIT` is a public constant; `balances` is a private mapping without
   underscore; `_arr` internal with underscore is fine; `_pub()` public with underscore) *)
Example c06_nonvacuous :
  List.length (spec_constructor_order example_su) = 1 /\
  List.length (spec_private_constant example_su) = 1 /\
  List.length (spec_private_vars example_su) = 1 /\
  List.length (spec_private_func example_su) = 3 /\
  List.length (spec_payable_function example_su) = 4 /\
  List.length (contracts example_su) = 3 /\ List.length (member_functions example_su) = 11.
Proof. vm_compute. repeat split; reflexivity. Qed.
Print Assumptions c06_nonvacuous.
