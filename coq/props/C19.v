(* C19 - findings compose over the top-level items of a file.
   spec/Compose.v: an ITEM is every top-level part that is not a pragma directive; `isolate parts k` is
   the file reduced to its pragma directives and the item at position k (locations untouched);
   `no_cross_mentions` is the property's hypothesis.  `incdec_locs_separate` (proofs/Compose1.v) is a
   fact about every parser output - constructs of different items have different locations - needed
   only by increment_decrement, which compares locations; the check evaluates its boolean form on
   every parsed file.  Statements only; proofs in proofs/Compose1.v, Compose2.v, ComposeAll.v. *)
From Coq Require Import List String Ascii NArith ZArith Bool.
Import ListNotations.
From Solstat Require Import Lift Pt Walk Res Nodes Utils Detectors Opt_pack Cases DetCases LineSpec
     Compose Compose1 Compose2 ComposeAll ComposeLocal.

(* every detector of the property: a construct is flagged in the file iff it is flagged in one of the
   files obtained by keeping the pragmas and a single item; no panic is introduced by isolating *)
Theorem compose_all :
  Forall (fun d => forall parts, item_indices parts <> [] -> no_cross_mentions parts -> incdec_locs_separate parts ->
                   forall locs, d (Mk_SourceUnit parts) = Ok locs ->
                   exists locss, mapM (fun k => d (isolate parts k)) (item_indices parts) = Ok locss /\
                                 forall l, In l locs <-> In l (List.concat locss))
         c19_detectors.
Proof. exact compose_all_lemma. Qed.
Print Assumptions compose_all.

(* ... and the lines reported for the file are exactly the union of the lines reported for the isolated items *)
Theorem compose_lines : forall d, In d c19_detectors ->
  forall parts src, item_indices parts <> [] -> no_cross_mentions parts -> incdec_locs_separate parts ->
  lines_lt_i32 src ->
  forall ls, analyze_lines d src (Mk_SourceUnit parts) = Ok ls ->
  exists lss, mapM (fun k => analyze_lines d src (isolate parts k)) (item_indices parts) = Ok lss /\
              forall z, In z ls <-> In z (List.concat lss).
Proof.
  intros d Hd. apply compose_lines_lemma. exact (proj1 (Forall_forall _ _) compose_all_lemma d Hd).
Qed.
Print Assumptions compose_lines.

(* "No item influences the verdict on another item": what a detector flags for an item on its own depends only
   on the file's pragma directives (as an ordered list) and on that item - not on the other items of the
   file, nor on where the item stands.  No hypothesis on names or locations. *)
Theorem item_verdict_local :
  Forall (fun d => forall parts parts' k k' p,
            filter sp_is_pragma parts = filter sp_is_pragma parts' -> sp_is_pragma p = false ->
            nth_error parts k = Some p -> nth_error parts' k' = Some p ->
            forall locs, d (isolate parts k) = Ok locs ->
            exists locs', d (isolate parts' k') = Ok locs' /\ forall l, In l locs <-> In l locs')
         c19_detectors.
Proof. exact item_local_all. Qed.
Print Assumptions item_verdict_local.

(* a finding of the whole file is a finding of exactly the isolated items *)
Theorem whole_file_findings_are_item_findings : forall d, In d c19_detectors ->
  forall parts, item_indices parts <> [] -> no_cross_mentions parts -> incdec_locs_separate parts ->
  forall locs, d (Mk_SourceUnit parts) = Ok locs ->
  forall l, In l locs <->
            exists j q lj, nth_error parts j = Some q /\ sp_is_pragma q = false /\
                           d (isolate parts j) = Ok lj /\ In l lj.
Proof. exact whole_file_findings_by_item. Qed.
Print Assumptions whole_file_findings_are_item_findings.

(* "adding, removing or reordering unrelated items never adds or removes a finding inside an item": two files
   with the same pragmas that share an item p (anywhere) and satisfy the hypotheses agree on the findings of p *)
Theorem unrelated_items_never_matter : forall d, In d c19_detectors ->
  forall parts parts' k k' p, filter sp_is_pragma parts = filter sp_is_pragma parts' -> sp_is_pragma p = false ->
  nth_error parts k = Some p -> nth_error parts' k' = Some p ->
  no_cross_mentions parts -> incdec_locs_separate parts ->
  no_cross_mentions parts' -> incdec_locs_separate parts' ->
  forall locs locs', d (Mk_SourceUnit parts) = Ok locs -> d (Mk_SourceUnit parts') = Ok locs' ->
  exists lk lk', d (isolate parts k) = Ok lk /\ d (isolate parts' k') = Ok lk' /\
                 (forall l, In l lk <-> In l lk') /\
                 (forall l, In l lk -> In l locs /\ In l locs').
Proof. exact shared_item_same_findings. Qed.
Print Assumptions unrelated_items_never_matter.

(* non-vacuity: the example file with item B removed and the other two items swapped *)
Example reordered_file_example :
  filter sp_is_pragma ex_parts = filter sp_is_pragma ex_parts' /\
  nth_error ex_parts 1 = nth_error ex_parts' 2 /\
  option_map sp_is_pragma (nth_error ex_parts 1) = Some false /\
  no_cross_mentions_b ex_parts' = true /\ incdec_locs_separate_b ex_parts' = true /\
  solidity_math_optimization (isolate ex_parts 1) = Ok [L 71 76] /\
  solidity_math_optimization (isolate ex_parts' 2) = Ok [L 71 76] /\
  solidity_math_optimization (Mk_SourceUnit ex_parts') = Ok [L 213 218; L 71 76] /\
  sstore_optimization (isolate ex_parts 1) = Ok [L 67 76] /\
  sstore_optimization (Mk_SourceUnit ex_parts') = Ok [L 67 76].
Proof. exact ex_parts'_ok. Qed.
Print Assumptions reordered_file_example.

(* 28 detectors: all 30 except the two SafeMath ones *)
Theorem c19_detectors_count : List.length c19_detectors = 28%nat.
Proof. reflexivity. Qed.
Print Assumptions c19_detectors_count.

(* the three name-table detectors need nothing but the property's hypothesis (no premise on locations,
   no uniqueness of names inside an item) *)
Theorem table_detectors_compose :
  composes constant_variable_optimization /\ composes immutable_variables_optimization /\ composes sstore_optimization.
Proof. exact (conj constant_variable_composes (conj immutable_variables_composes sstore_composes)). Qed.
Print Assumptions table_detectors_compose.

(* the boolean tests of the hypotheses evaluated by the check are sound *)
Theorem hypotheses_decidable : forall parts,
  no_cross_mentions_b parts = true -> incdec_locs_separate_b parts = true ->
  no_cross_mentions parts /\ incdec_locs_separate parts.
Proof. intros parts H1 H2. split; [apply no_cross_mentions_b_sound; exact H1|apply incdec_locs_separate_b_sound; exact H2]. Qed.
Print Assumptions hypotheses_decidable.

(* the location premise cannot be dropped over arbitrary trees (two items carrying the same location) *)
Theorem increment_decrement_needs_separate_locations : ~ composes increment_decrement_optimization.
Proof. exact increment_decrement_not_composes. Qed.
Print Assumptions increment_decrement_needs_separate_locations.

(* non-vacuity: a parsed four-part file meets the hypotheses and has findings in every item *)
Example hypotheses_satisfiable :
  item_indices ex_parts = [1; 2; 3]%nat /\ no_cross_mentions_b ex_parts = true /\ incdec_locs_separate_b ex_parts = true.
Proof. exact ex_parts_ok. Qed.
Print Assumptions hypotheses_satisfiable.

Example findings_in_every_item :
  solidity_math_optimization (Mk_SourceUnit ex_parts) = Ok [L 71 76; L 129 134; L 213 218] /\
  solidity_math_optimization (isolate ex_parts 1) = Ok [L 71 76] /\
  solidity_math_optimization (isolate ex_parts 2) = Ok [L 129 134] /\
  solidity_math_optimization (isolate ex_parts 3) = Ok [L 213 218] /\
  sstore_optimization (isolate ex_parts 2) = Ok [L 125 134] /\
  increment_decrement_optimization (Mk_SourceUnit ex_parts) = Ok [L 136 139] /\
  increment_decrement_optimization (isolate ex_parts 2) = Ok [L 136 139] /\
  increment_decrement_optimization (isolate ex_parts 3) = Ok [].
Proof. exact ex_parts_findings. Qed.
Print Assumptions findings_in_every_item.
