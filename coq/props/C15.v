(* C15 - each (file, pattern) verdict is independent of everything else in the run
   (model part; thread interleavings of the real library calls cannot be expressed in Gallina
   and are covered by 16-thread runs in the check: partial, runtime).
   Statements only; proofs are in proofs/DirProof.v. *)
From Coq Require Import List String NArith ZArith Bool.
Import ListNotations.
From Solstat Require Import Res Dir DirSpec DirProof DirExample.
From Solstat Require Effects EffectsProof.
Local Open Scope string_scope.
Local Open Scope list_scope.

Section C15.
  Variable pattern : Type.
  Variable eq_dec : forall a b : pattern, {a = b} + {a <> b}.
  Variable analyze : pattern -> string -> res (list Z).

  (* `verdict v name` = the lines stored for file `name` in the vector v ([] = nothing stored;
     stored line sets are never empty).  In ANY successful run - any tree t containing the file
     anywhere, any position in its listing, any sibling files and directories, any pattern list
     ps containing p (any co-selected patterns, any order, duplicates allowed) - the verdict
     recorded for (name, p) is analyze p c: a function of the pattern and of the file's content
     alone.  File names may repeat in different directories; the hypothesis is only that the
     name determines the content within the run (otherwise "the lines of file `name`" is
     ambiguous; the occurrence-wise statement is verdict_vector below). *)
  Theorem verdict_independent : forall t ps m p name c,
    In p ps -> analyze_dir eq_dec analyze t ps = Ok m ->
    In (name, Some c) (eligible_files_rec t) ->
    (forall c', In (name, c') (eligible_files_rec t) -> c' = Some c) ->
    analyze p c = Ok (verdict (lookup eq_dec m p) name).
  Proof. intros t ps. exact (verdict_lemma pattern eq_dec analyze ps t). Qed.

  (* hence the same verdict in any two runs that both contain the file and select the pattern *)
  Theorem verdict_same_in_any_two_runs : forall ps1 ps2 t1 t2 m1 m2 p name c,
    In p ps1 -> In p ps2 ->
    analyze_dir eq_dec analyze t1 ps1 = Ok m1 -> analyze_dir eq_dec analyze t2 ps2 = Ok m2 ->
    In (name, Some c) (eligible_files_rec t1) -> In (name, Some c) (eligible_files_rec t2) ->
    (forall c', In (name, c') (eligible_files_rec t1) -> c' = Some c) ->
    (forall c', In (name, c') (eligible_files_rec t2) -> c' = Some c) ->
    verdict (lookup eq_dec m1 p) name = verdict (lookup eq_dec m2 p) name.
  Proof. exact (verdict_two_runs_lemma pattern eq_dec analyze). Qed.

  (* occurrence-wise, without any assumption on names: the whole vector of p is, file by file
     in discovery order, what analyze p gives on each content - nothing in it depends on the
     other patterns of a duplicate-free list *)
  Theorem verdict_vector : forall t ps m p,
    NoDup ps -> In p ps -> analyze_dir eq_dec analyze t ps = Ok m ->
    lookup eq_dec m p = expected_vector analyze p t.
  Proof. intros t ps. exact (verdict_vector_lemma pattern eq_dec analyze ps t). Qed.
End C15.
Print Assumptions verdict_independent.
Print Assumptions verdict_same_in_any_two_runs.
Print Assumptions verdict_vector.

(* ---- concrete values: the hypotheses are satisfiable.  A.sol occurs twice in ex_tree (top
   level and src/deep) with the same content. *)
Example ex_verdict_hyps :
  In (1%N) [0%N; 1%N] /\
  In ("A.sol", Some "x1") (eligible_files_rec ex_tree) /\
  (forall c', In ("A.sol", c') (eligible_files_rec ex_tree) -> c' = Some "x1") /\
  exists m, analyze_dir N.eq_dec toy ex_tree [0%N; 1%N] = Ok m.
Proof.
  split; [right; now left|]. split; [vm_compute; now left|]. split.
  - vm_compute. intros c' H. repeat (destruct H as [H|H]; [congruence|]). destruct H.
  - eexists. vm_compute. reflexivity.
Qed.
Print Assumptions ex_verdict_hyps.

(* the verdict for (A.sol, pattern 1) in four different runs: other patterns, other order,
   duplicates in the list, inert files removed, listings reordered, the file alone *)
Example ex_verdicts :
  let v t ps := match analyze_dir N.eq_dec toy t ps with Ok m => Some (verdict (lookup N.eq_dec m 1%N) "A.sol") | Panic _ => None end in
  v ex_tree [0%N; 1%N] = Some [2; 3]%Z /\
  v ex_tree [1%N] = Some [2; 3]%Z /\
  v ex_tree [2%N; 1%N; 0%N; 1%N] = Some [2; 3]%Z /\
  v ex_tree_reordered [1%N; 2%N] = Some [2; 3]%Z /\
  v [EFile "A.sol" (Some "x1")] [1%N] = Some [2; 3]%Z /\
  toy 1%N "x1" = Ok [2; 3]%Z.
Proof. vm_compute. repeat split. Qed.
Print Assumptions ex_verdicts.

(* ---- tie to the source.  In the model the per-file analysis is `analyze p c`, a function of the pattern and the content,
   and analyze_dir keeps nothing between files or between calls.  For the real code this rests on two facts about /repo/src
   that are re-established on every run from the regenerated inventory gen/Effects.v: there is no static, thread-local,
   lazily initialised or interior-mutable state (nothing can be remembered from one analysis to the next, in this thread
   or another), and the only reads are the ones model/Dir.v performs. *)
Theorem nothing_is_kept_between_analyses :
  Effects.shared_state = [] /\ Effects.effects_read = EffectsProof.expected_read.
Proof. exact (conj EffectsProof.no_shared_state_lemma (proj1 (proj2 EffectsProof.effects_match_model_lemma))). Qed.
Print Assumptions nothing_is_kept_between_analyses.
