(* C02 - every reported line is the line on which the flagged construct begins.
   Statements only; proofs are in proofs/LineProof.v.

   Part 1 (this file, below): the offset-to-line conversion get_line_number.
   Part 2 (detector level, `analyze_lines` / `reported_is_anchor_line`): see the marked
   place at the end of the file. *)
From Coq Require Import List String Ascii NArith ZArith Bool.
Import ListNotations.
From Solstat Require Import Res Utils LineSpec LineProof.
Local Open Scope string_scope.
Local Open Scope N_scope.

(* line_spec src off = 1 + number of LF bytes among the first off bytes of src (spec/LineSpec.v).
   `byte_at off src <> Some LF` is "an offset at which a token can start";
   `lines_lt_i32 src` : the file has fewer than 2^31 lines (the code counts in an i32;
   a file violating it is larger than 2 GiB). *)
Theorem line_of_spec : forall src off,
  off < blen src -> byte_at off src <> Some LF -> lines_lt_i32 src ->
  get_line_number off src = Ok (line_spec src off).
Proof. exact line_of_spec_lemma. Qed.
Print Assumptions line_of_spec.

(* what the code does outside that hypothesis: a line-feed byte itself is attributed to the
   line it starts, not to the line it terminates (never the offset of a token) ... *)
Theorem line_at_lf : forall src off,
  byte_at off src = Some LF -> lines_lt_i32 src ->
  get_line_number off src = Ok (line_spec src off + 1)%Z.
Proof. exact line_at_lf_lemma. Qed.
Print Assumptions line_at_lf.

(* ... an offset at or past the end of the text gets the number of the last line ... *)
Theorem line_past_end : forall src off,
  blen src <= off -> lines_lt_i32 src ->
  get_line_number off src = Ok (1 + Z.of_N (count_lf src))%Z.
Proof. exact line_past_end_lemma. Qed.
Print Assumptions line_past_end.

(* ... and without the i32 hypothesis an answer is still never wrong (the only other
   outcome is the overflow panic, exactly when the line number does not fit an i32). *)
Theorem line_never_wrong : forall src off l,
  byte_at off src <> Some LF -> get_line_number off src = Ok l -> l = line_spec src off.
Proof. exact line_never_wrong_lemma. Qed.
Print Assumptions line_never_wrong.

Theorem line_panics_iff : forall src off,
  get_line_number off src = Panic "get_line_number: i = i + 1 overflows i32" <->
  (2 ^ 31 <= 1 + Z.of_N (count_lf (take (off + 1) src)))%Z.
Proof. exact line_panics_iff_lemma. Qed.
Print Assumptions line_panics_iff.

(* CRLF line ends: the pair CR LF advances the line number by exactly one ... *)
Theorem line_of_crlf : forall a b j,
  j < blen b -> byte_at j b <> Some LF -> lines_lt_i32 (a ++ crlf_s ++ b) ->
  get_line_number (blen a + 2 + j) (a ++ crlf_s ++ b) = Ok (Z.of_N (count_lf a) + 1 + line_spec b j)%Z.
Proof. exact line_of_crlf_lemma. Qed.
Print Assumptions line_of_crlf.

(* ... and a CR alone is an ordinary byte *)
Theorem line_cr_is_no_line_end : forall a b j,
  j < blen b -> byte_at j b <> Some LF -> lines_lt_i32 (a ++ String CR b) ->
  get_line_number (blen a + 1 + j) (a ++ String CR b) = Ok (Z.of_N (count_lf a) + line_spec b j)%Z.
Proof. exact line_cr_is_no_line_end_lemma. Qed.
Print Assumptions line_cr_is_no_line_end.

(* final line not newline-terminated (no LF at or after the offset): the number of lines
   of the file.  This is the case that returned 0 on the pinned tree (D2). *)
Theorem line_of_last_line_unterminated : forall src off,
  off < blen src -> count_lf (drop off src) = 0 -> lines_lt_i32 src ->
  get_line_number off src = Ok (1 + Z.of_N (count_lf src))%Z.
Proof. exact line_of_last_line_unterminated_lemma. Qed.
Print Assumptions line_of_last_line_unterminated.

(* multi-byte characters before the construct: offsets are byte offsets; inserting bytes
   >= 0x80 (every byte of a multi-byte UTF-8 character) anywhere before the offset leaves
   the line number unchanged *)
Theorem line_of_multibyte : forall p m b j,
  all_high m = true -> j < blen b -> byte_at j b <> Some LF -> lines_lt_i32 (p ++ m ++ b) ->
  get_line_number (blen p + blen m + j) (p ++ m ++ b) = Ok (line_spec (p ++ b) (blen p + j)).
Proof. exact line_of_multibyte_lemma. Qed.
Print Assumptions line_of_multibyte.

Theorem line_monotone : forall src off1 off2 l1 l2,
  off1 <= off2 -> get_line_number off1 src = Ok l1 -> get_line_number off2 src = Ok l2 ->
  (l1 <= l2)%Z.
Proof. exact line_monotone_lemma. Qed.
Print Assumptions line_monotone.

(* ---- concrete instances (the hypotheses are satisfiable; values computed by the kernel) *)
Definition t_unterminated : string := "ab" ++ lf_s ++ "cdef".                 (* D2 witness *)
Example ex_last_line_unterminated :
  5 < blen t_unterminated /\ count_lf (drop 5 t_unterminated) = 0 /\
  get_line_number 5 t_unterminated = Ok 2%Z /\ line_spec t_unterminated 5 = 2%Z.
Proof. vm_compute. repeat split. Qed.
Print Assumptions ex_last_line_unterminated.

Definition t_crlf : string := "a" ++ crlf_s ++ crlf_s ++ "  bc" ++ crlf_s.   (* blank line, CRLF ends *)
Example ex_crlf :
  byte_at 7 t_crlf = Some "b"%char /\ get_line_number 7 t_crlf = Ok 3%Z /\ line_spec t_crlf 7 = 3%Z /\
  get_line_number 0 t_crlf = Ok 1%Z /\ get_line_number 1 t_crlf = Ok 1%Z (* the CR *) /\
  get_line_number 2 t_crlf = Ok 2%Z (* the LF itself: line_at_lf *).
Proof. vm_compute. repeat split. Qed.
Print Assumptions ex_crlf.

(* "é" is the two bytes 0xC3 0xA9 *)
Definition e_acute : string := String (ascii_of_N 195) (String (ascii_of_N 169) "").
Definition t_multibyte : string := e_acute ++ lf_s ++ e_acute ++ e_acute ++ " x" ++ lf_s ++ "y".
Example ex_multibyte :
  all_high (e_acute ++ e_acute) = true /\ byte_at 8 t_multibyte = Some "x"%char /\
  get_line_number 8 t_multibyte = Ok 2%Z /\ line_spec t_multibyte 8 = 2%Z /\
  get_line_number 10 t_multibyte = Ok 3%Z.
Proof. vm_compute. repeat split. Qed.
Print Assumptions ex_multibyte.

Example ex_lines_lt_i32 : lines_lt_i32 t_crlf /\ lines_lt_i32 t_multibyte /\ lines_lt_i32 t_unterminated.
Proof. unfold lines_lt_i32. vm_compute. repeat split. Qed.
Print Assumptions ex_lines_lt_i32.

(* ======================================================================================
   PART 2 - DETECTOR LEVEL (to be added by the lead):
     Theorem analyze_lines : forall d src su locs, parse src = Some su -> det d su = Ok locs ->
                             analyze d src = Ok (lines src locs).
     Theorem reported_is_anchor_line : ...
   They combine line_of_spec above with the models of analyze_for_{optimization,
   vulnerability,qa} and the anchors of section 8 of DESIGN.md.
   ====================================================================================== *)
