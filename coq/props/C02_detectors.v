(* C02, detector level: the lines reported for a file by any detector are exactly the lines
   (by get_line_number, characterised in props/C02.v) of the first bytes of the constructs
   the detector flags.  Statements only; proofs in proofs/LinesDet.v. *)
From Coq Require Import List String Ascii NArith ZArith Bool Sorted.
Import ListNotations.
From Solstat Require Import Lift Pt Walk Res Nodes Utils Detectors Cases DetCases LineSpec LinesDet NoPanic.

(* analyze_for_* = strictly increasing list of get_line_number(loc.start) over the detector's locations *)
Theorem analyze_lines : forall (d : SourceUnit -> res (list Loc)) src su locs,
  d su = Ok locs -> lines_lt_i32 src ->
  exists ls, DetCases.analyze_lines d src su = Ok ls /\ StronglySorted Z.lt ls /\
             forall z, In z ls <-> exists l, In l locs /\ get_line_number (loc_start l) src = Ok z.
Proof. exact analyze_lines_spec. Qed.
Print Assumptions analyze_lines.

(* every reported line is 1 + the number of line feeds before the first byte of a flagged construct
   (a token never starts on a LF byte and lies inside the text) *)
Theorem reported_is_anchor_line : forall (d : SourceUnit -> res (list Loc)) src su locs ls,
  d su = Ok locs -> DetCases.analyze_lines d src su = Ok ls ->
  (forall l, In l locs -> (loc_start l < blen src)%N /\ byte_at (loc_start l) src <> Some LF) ->
  forall z, In z ls -> exists l, In l locs /\ z = line_spec src (loc_start l).
Proof. exact reported_line_is_anchor_line. Qed.
Print Assumptions reported_is_anchor_line.
