(* C09, version-text part (to be merged into C09.v by the lead).  Statements only; proofs
   are in proofs/VersionProof.v.

   get_solidity_major_minor_patch_version (model/Utils.v) is an explicit scanner for the regex
   \d+\.\d+\.+\d+ (ASCII digits; leftmost-first, greedy, successive non-overlapping matches, the
   last match wins, default "0.0.0") followed by split(".").  dec n is the decimal rendering of
   n without leading zeros (Coq's DecimalString); dot_s s = "." ++ s. *)
From Coq Require Import String Ascii List NArith ZArith Bool.
Import ListNotations.
From Solstat Require Import Res Utils VersionProof.
Local Open Scope string_scope.
Local Open Scope N_scope.
Local Open Scope list_scope.

(* for all naturals M m p (no bound), every operator spelling, any number of blanks after it *)
Theorem version_extract : forall M m p op k,
  In op [""; "^"; "~"; "="; ">="; ">"]%string ->
  get_solidity_major_minor_patch_version
    ((op ++ blanks k) ++ dec M ++ dot_s (dec m ++ dot_s (dec p)))%string
  = [dec M; dec m; dec p].
Proof. exact version_extract_lemma. Qed.
Print Assumptions version_extract.

(* more generally: any prefix that contains no digit (other operators, "v", blanks, dots ...) *)
Theorem version_extract_gen : forall op M m p,
  no_digit op ->
  get_solidity_major_minor_patch_version (op ++ dec M ++ dot_s (dec m ++ dot_s (dec p)))%string
  = [dec M; dec m; dec p].
Proof. exact version_extract_gen_lemma. Qed.
Print Assumptions version_extract_gen.

(* ... and any three non-empty digit strings (leading zeros included) *)
Theorem version_extract_digits : forall op d1 d2 d3,
  no_digit op -> digits d1 -> digits d2 -> digits d3 ->
  get_solidity_major_minor_patch_version (op ++ d1 ++ dot_s (d2 ++ dot_s d3))%string = [d1; d2; d3].
Proof. exact version_extract_digits_lemma. Qed.
Print Assumptions version_extract_digits.

(* dec is a non-empty string of ASCII digits whose value is n *)
Theorem dec_is_digits : forall n, digits (dec n) /\ digits_val (dec n) 0 = Some n.
Proof. exact dec_is_digits_lemma. Qed.
Print Assumptions dec_is_digits.

(* str::parse::<i32>() on what the scanner can produce (digit strings and, between consecutive
   dots, the empty string).  Rust also accepts one leading '+' or '-': modelled in parse_i32,
   irrelevant here because the scanner's pieces never contain a sign. *)
Theorem parse_i32_dec : forall n, n < 2 ^ 31 -> parse_i32 (dec n) = Ok (Z.of_N n).
Proof. exact parse_i32_dec_lemma. Qed.
Print Assumptions parse_i32_dec.

Theorem parse_i32_dec_overflow : forall n, 2 ^ 31 <= n ->
  parse_i32 (dec n) = Panic "parse::<i32>: number out of range".
Proof. exact parse_i32_dec_overflow_lemma. Qed.
Print Assumptions parse_i32_dec_overflow.

Theorem parse_i32_digits : forall s v,
  digits s -> digits_val s 0 = Some v -> (Z.of_N v <= i32_max)%Z -> parse_i32 s = Ok (Z.of_N v).
Proof. exact parse_i32_digits_lemma. Qed.
Print Assumptions parse_i32_digits.

Theorem parse_i32_empty : parse_i32 "" = Panic "parse::<i32>: empty string".
Proof. exact parse_i32_empty_lemma. Qed.
Print Assumptions parse_i32_empty.

(* ---- concrete instances *)
Example ex_dec : dec 0 = "0" /\ dec 8 = "8" /\ dec 13 = "13" /\ dec 2147483647 = "2147483647".
Proof. vm_compute. repeat split. Qed.
Print Assumptions ex_dec.

Example ex_version :
  get_solidity_major_minor_patch_version ">=0.8.13" = ["0"; "8"; "13"] /\
  get_solidity_major_minor_patch_version "^ 1.2.40" = ["1"; "2"; "40"] /\
  get_solidity_major_minor_patch_version ">=0.7.0 <0.9.0" = ["0"; "9"; "0"] (* the last match wins *) /\
  get_solidity_major_minor_patch_version "0.8..4" = ["0"; "8"; ""; "4"] (* \.+ ; split gives an empty piece *) /\
  get_solidity_major_minor_patch_version "0.8" = ["0"; "0"; "0"] (* default *) /\
  get_solidity_major_minor_patch_version "12.3 1.2.3" = ["1"; "2"; "3"] /\
  map parse_i32 ["13"; "007"; ""; "2147483648"] =
    [Ok 13%Z; Ok 7%Z; Panic "parse::<i32>: empty string"; Panic "parse::<i32>: number out of range"].
Proof. vm_compute. repeat split. Qed.
Print Assumptions ex_version.

Example ex_hyps : no_digit ">= " /\ digits "08" /\ In ">=" [""; "^"; "~"; "="; ">="; ">"]%string.
Proof. split; [reflexivity | split; [split; [reflexivity | discriminate] | cbn; tauto]]. Qed.
Print Assumptions ex_hyps.
