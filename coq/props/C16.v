(* C16 - only Solidity sources are analysed; test files and other files are inert.
   Statements only; proofs are in proofs/DirProof.v. *)
From Coq Require Import List String NArith ZArith Bool.
Import ListNotations.
From Solstat Require Import Res Dir DirSpec DirCases DirProof DirCasesProof DirExample.
Local Open Scope string_scope.
Local Open Scope list_scope.

(* `eligible` is the filter exactly as the code computes it
     file_name.ends_with(".sol") && !file_name.to_lowercase().contains(".t.sol")
   (to_lowercase modelled as ASCII lowering, see model/Dir.v).  It decides `sol_source`:
   the name ends in ".sol" and contains no spelling of ".t.sol" in any letter case. *)
Theorem eligible_iff_sol_source : forall n, eligible n = true <-> sol_source n.
Proof. exact eligible_iff_sol_source_lemma. Qed.
Print Assumptions eligible_iff_sol_source.

(* an analysed file ends in ".sol" and is not a test file, whatever the case of ".t.sol" *)
Theorem eligible_sound : forall n, eligible n = true -> is_suffix ".sol" n /\ ~ ends_with_ci ".t.sol" n.
Proof. exact eligible_sound_lemma. Qed.
Print Assumptions eligible_sound.

(* a file that ends in ".sol" and contains no spelling of ".t.sol" is analysed.  (Names with
   ".t.sol" in the middle that do not end in it, such as a.t.sol.sol, are the region the
   property does not decide; the code excludes them.) *)
Theorem eligible_complete : forall n, is_suffix ".sol" n -> ~ contains_ci ".t.sol" n -> eligible n = true.
Proof. exact eligible_complete_lemma. Qed.
Print Assumptions eligible_complete.

Theorem test_files_not_eligible : forall n, ends_with_ci ".t.sol" n -> eligible n = false.
Proof. exact test_files_not_eligible_lemma. Qed.
Print Assumptions test_files_not_eligible.

Theorem non_sol_not_eligible : forall n, ~ is_suffix ".sol" n -> eligible n = false.
Proof. exact not_sol_not_eligible_lemma. Qed.
Print Assumptions non_sol_not_eligible.

Section C16.
  Variable pattern : Type.
  Variable eq_dec : forall a b : pattern, {a = b} + {a <> b}.
  Variable analyze : pattern -> string -> res (list Z).

  (* t' is t with any number of non-eligible files inserted or removed, at any depth and
     position, with any content (None = bytes that cannot be read as UTF-8): the result is
     the same, including whether the run fails.  Replacing the content of a non-eligible
     file is a removal followed by an insertion. *)
  Theorem inert_files : forall t t' ps,
    inert_ext t t' -> analyze_dir eq_dec analyze t' ps = analyze_dir eq_dec analyze t ps.
  Proof. intros t t' ps. exact (inert_files_lemma pattern eq_dec analyze ps t t'). Qed.

  (* the same, as a function: removing every non-eligible file at every depth *)
  Theorem inert_files_pruned : forall t ps,
    analyze_dir eq_dec analyze (prune t) ps = analyze_dir eq_dec analyze t ps.
  Proof. intros t ps. exact (prune_inert_lemma pattern eq_dec analyze ps t). Qed.
End C16.
Print Assumptions inert_files.
Print Assumptions inert_files_pruned.

(* exactly the eligible files survive pruning, in the same order *)
Theorem prune_keeps_eligible : forall t, eligible_files_rec (prune t) = eligible_files_rec t.
Proof. exact eligible_files_prune. Qed.
Print Assumptions prune_keeps_eligible.

(* the classification the check evaluates on the implementation's output (DirCases.name_class:
   1 = must be analysed, 0 = must be inert, 2 = not decided), written by enumerating all splits
   of the name, decides the declarative predicates *)
Theorem name_class_decides_spec : forall n,
  (name_class n = 1%N <-> sol_source n) /\
  (name_class n = 0%N <-> (~ is_suffix ".sol" n \/ ends_with_ci ".t.sol" n)) /\
  (name_class n = 2%N <-> (is_suffix ".sol" n /\ contains_ci ".t.sol" n /\ ~ ends_with_ci ".t.sol" n)).
Proof. exact name_class_spec_lemma. Qed.
Print Assumptions name_class_decides_spec.

(* ---- concrete values *)
Example ex_names :
  map eligible ["A.sol"; ".sol"; "t.sol"; "a.tsol.sol"; "Ünï.sol"; "UP.SOL.sol"] = [true; true; true; true; true; true] /\
  map eligible ["a.t.sol"; "A.T.SOL"; "a.T.sol"; "Counter.T.Sol"; "a.SOL"; "x.sol.bak"; "sol"; "README.md"; ""; "a.sol "; ".t.sol"]
    = [false; false; false; false; false; false; false; false; false; false; false] /\
  (* the undecided region: excluded by the code *)
  map eligible ["a.t.sol.sol"; "B.T.SOL.x.sol"] = [false; false].
Proof. vm_compute. repeat split. Qed.
Print Assumptions ex_names.

Example ex_ci : same_ci ".T.sOl" ".t.sol" /\ ends_with_ci ".t.sol" "Counter.T.sOl" /\ contains_ci ".t.sol" "a.T.SOL.sol".
Proof.
  assert (U : forall k c d, (k < 26)%N -> c = Ascii.ascii_of_N (65 + k) -> d = Ascii.ascii_of_N (97 + k) -> ci_char c d).
  { intros k c d Hk -> ->. right. exists k. split; [exact Hk | now left]. }
  assert (S1 : same_ci ".T.sOl" ".t.sol").
  { constructor; [now left|]. constructor; [apply (U 19%N); reflexivity|]. constructor; [now left|].
    constructor; [now left|]. constructor; [apply (U 14%N); reflexivity|]. constructor; [now left|]. constructor. }
  assert (S2 : same_ci ".T.SOL" ".t.sol").
  { constructor; [now left|]. constructor; [apply (U 19%N); reflexivity|]. constructor; [now left|].
    constructor; [apply (U 18%N); reflexivity|]. constructor; [apply (U 14%N); reflexivity|].
    constructor; [apply (U 11%N); reflexivity|]. constructor. }
  split; [exact S1|]. split.
  - exists "Counter", ".T.sOl". split; [reflexivity | exact S1].
  - exists "a", ".T.SOL", ".sol". split; [reflexivity | exact S2].
Qed.
Print Assumptions ex_ci.

Example ex_prune : prune ex_tree = ex_tree_pruned.
Proof. vm_compute. reflexivity. Qed.
Print Assumptions ex_prune.

(* inserting the unreadable README.md at the top and the unparseable B.t.sol inside src *)
Example ex_inert_ext :
  inert_ext
    [EFile "A.sol" (Some "x1"); EDir "src" [EFile "B.sol" (Some "y")]]
    [EFile "A.sol" (Some "x1"); EFile "README.md" None; EDir "src" [EFile "B.sol" (Some "y"); EFile "B.t.sol" (Some "bad")]].
Proof.
  apply inert_trans with (t2 := [EFile "A.sol" (Some "x1"); EFile "README.md" None; EDir "src" [EFile "B.sol" (Some "y")]]).
  - apply inert_add. exact (inert_here "README.md" None [EFile "A.sol" (Some "x1")] [EDir "src" [EFile "B.sol" (Some "y")]] eq_refl).
  - apply inert_add.
    apply (inert_deep "src" [EFile "B.sol" (Some "y")] [EFile "B.sol" (Some "y"); EFile "B.t.sol" (Some "bad")]
             [EFile "A.sol" (Some "x1"); EFile "README.md" None] []).
    exact (inert_here "B.t.sol" (Some "bad") [EFile "B.sol" (Some "y")] [] eq_refl).
Qed.
Print Assumptions ex_inert_ext.

Example ex_inert_run :
  analyze_dir N.eq_dec toy ex_tree [0%N; 1%N; 2%N] = analyze_dir N.eq_dec toy ex_tree_pruned [0%N; 1%N; 2%N] /\
  exists m, analyze_dir N.eq_dec toy ex_tree [0%N; 1%N; 2%N] = Ok m.
Proof. vm_compute. split; [reflexivity | eexists; reflexivity]. Qed.
Print Assumptions ex_inert_run.
