(* C17 - findings are invariant under re-layout and commenting of the source (model part).
   A token-preserving re-layout s1 -> s2 changes nothing in the parse tree except the locations: with r the
   induced (injective) renaming of locations, parse s2 = mapl_SourceUnit r (parse s1).  That relation is a
   property of solang-parser; it is SAMPLED by the check on every generated pair (partial), not proved.
   Proved here, for all 30 detectors and every tree:
     - the detector flags, in the re-located tree, exactly the re-located constructs (it looks at a location
       only to return it or to compare it for equality);
     - the lines reported for the new text are exactly the lines, in the new text, on which those constructs begin;
     - rewriting the contents of string literals (length kept) changes no finding: code-like text inside a string
       never produces a finding; comments are not part of the tree the detectors receive.
   Statements only; proofs in proofs/Equivariance*.v, StrLit.v, LinesMove.v. *)
From Coq Require Import List String Ascii NArith ZArith Bool Sorted.
Import ListNotations.
From Solstat Require Import Lift Pt Walk Res Nodes Utils Detectors Opt_pack Cases DetCases LineSpec NoPanic
     MapLoc Equivariance2 Equivariance3 EquivarianceAll StrLit LinesMove Patterns PragmaLayout VersionProof.

(* the same tokens start flagged constructs before and after *)
Theorem detectors_equivariant : forall (r : Loc -> Loc), (forall a b, r a = r b -> a = b) ->
  Forall (fun d => forall su locs, d su = Ok locs ->
                   exists locs', d (mapl_SourceUnit r su) = Ok locs' /\ forall l, In l locs' <-> In l (map r locs))
         all_detectors.
Proof. exact all_detectors_equivariant_lemma. Qed.
Print Assumptions detectors_equivariant.

(* ... and the reported lines move exactly with those tokens *)
Theorem relayout_lines : forall (r : Loc -> Loc), (forall a b, r a = r b -> a = b) ->
  forall d, In d all_detectors ->
  forall su src2 locs, d su = Ok locs -> lines_lt_i32 src2 ->
  (forall l, In l locs -> token_start_in src2 (loc_start (r l))) ->
  exists ls, analyze_lines d src2 (mapl_SourceUnit r su) = Ok ls /\ StronglySorted Z.lt ls /\
             forall z, In z ls <-> exists l, In l locs /\ z = line_spec src2 (loc_start (r l)).
Proof.
  intros r Hinj d Hd su src2 locs Hok Hlt Htok.
  destruct (proj1 (Forall_forall _ _) (all_detectors_equivariant_lemma r Hinj) d Hd su locs Hok) as [locs' [Hok' Hset]].
  exact (lines_move_with_tokens_spec d r su src2 locs locs' Hok Hok' Hset Hlt Htok).
Qed.
Print Assumptions relayout_lines.

(* one token per line: the reported line is the index of the flagged token plus one *)
Theorem one_token_per_line : forall toks k,
  Forall (fun t => count_lf t = 0%N /\ t <> EmptyString) toks -> (k < List.length toks)%nat ->
  lines_lt_i32 (one_per_line toks) ->
  get_line_number (tok_start k toks) (one_per_line toks) = Ok (Z.of_nat k + 1)%Z.
Proof. exact one_per_line_get_line_number. Qed.
Print Assumptions one_token_per_line.

(* injectivity of the renaming cannot be dropped: increment_decrement compares locations *)
Theorem injectivity_needed : ~ equivariant (fun _ => ce_loc 0) increment_decrement_optimization.
Proof. exact increment_decrement_needs_injectivity. Qed.
Print Assumptions injectivity_needed.

(* text inside string literals never produces a finding: all 30 detectors return the very same result
   (panics included) when the contents of every string-literal expression are rewritten, lengths kept *)
Theorem string_contents_irrelevant :
  Forall (fun d => forall (g : string -> string), (forall s, String.length (g s) = String.length s) ->
                   forall su, d (maps_SourceUnit g su) = d su)
         all_detectors.
Proof. exact strlit_blind_all. Qed.
Print Assumptions string_contents_irrelevant.

(* 29 of them do not even depend on the length *)
Theorem string_contents_irrelevant_any :
  Forall (fun d => forall (g : string -> string) su, d (maps_SourceUnit g su) = d su) detectors_not_measuring.
Proof. exact strlit_blind_any_29. Qed.
Print Assumptions string_contents_irrelevant_any.

(* ... and short_revert_string does (non-vacuity of the length hypothesis) *)
Example short_revert_measures_length_ex :
  short_revert_string_optimization long_revert_tree = Ok [Loc_File 0 46 79] /\
  short_revert_string_optimization (maps_SourceUnit (fun _ => EmptyString) long_revert_tree) = Ok [].
Proof. exact short_revert_measures_length. Qed.
Print Assumptions short_revert_measures_length_ex.

(* the walker itself is equivariant, for every root and target set *)
Theorem walker_equivariant : forall (r : Loc -> Loc) T n, walk T (mapl_node r n) = map (mapl_node r) (walk T n).
Proof. exact walk_mapl. Qed.
Print Assumptions walker_equivariant.

(* The value of a pragma directive is raw text for the parser, so white space inside it is not removed by the lexer.
   It does not matter either: blanks inserted or removed between the sub-tokens of the value (anywhere except inside
   a run of digits and dots, i.e. inside a version number) change neither the version that is extracted nor the
   presence of a caret ... *)
Theorem pragma_value_blank_insensitive : forall a ws b : string,
  all_chars is_blank ws = true -> boundary_ok a b ->
  version_of_string (a ++ ws ++ b)%string = version_of_string (a ++ b)%string /\
  sp_has_char "^"%char (a ++ ws ++ b)%string = sp_has_char "^"%char (a ++ b)%string.
Proof.
  intros a ws b Hws Hb. split; [apply version_blank_insensitive; assumption|apply caret_blank_insensitive; exact Hws].
Qed.
Print Assumptions pragma_value_blank_insensitive.

(* ... hence the five detectors that read a pragma value return exactly the same result (panics included) on two
   trees that differ only by such re-spacing of pragma values (any number of insertions and removals) *)
Theorem pragma_relayout_detectors : forall su su', su_relayout su su' ->
  safe_math_pre_080_optimization su' = safe_math_pre_080_optimization su /\
  safe_math_post_080_optimization su' = safe_math_post_080_optimization su /\
  short_revert_string_optimization su' = short_revert_string_optimization su /\
  string_error_optimization su' = string_error_optimization su /\
  floating_pragma_vulnerability su' = floating_pragma_vulnerability su.
Proof.
  intros su su' H. repeat split;
    [ apply safe_math_pre_relayout_lemma | apply safe_math_post_relayout_lemma | apply short_revert_relayout_lemma
    | apply string_error_relayout_lemma | apply floating_pragma_relayout_lemma ]; exact H.
Qed.
Print Assumptions pragma_relayout_detectors.

(* the side condition is needed (a blank inside a version number changes the version) and the hypotheses are satisfiable *)
Example blank_inside_version_number_matters :
  version_of_string "0.8. 4" <> version_of_string "0.8.4" /\ boundary_okb "0.8." "4" = false.
Proof. split; [vm_compute; discriminate|reflexivity]. Qed.
Print Assumptions blank_inside_version_number_matters.

Example pragma_relayout_example :
  su_relayout (layout_su ">=0.8.0<0.9.0") (layout_su ">= 0.8.0 <0.9.0") /\
  version_of_string ">= 0.8.0 <0.9.0" = Some (0, 9, 0)%Z.
Proof. split; [exact layout_su_related|exact range_spaced]. Qed.
Print Assumptions pragma_relayout_example.
