(* C03 - directory analysis is the exact union of the per-file results.
   Statements only; proofs are in proofs/DirProof.v.  Model: model/Dir.v (one generic
   analyze_dir; the three Rust copies are its instances); specification: spec/DirSpec.v. *)
From Coq Require Import List String NArith ZArith Bool Permutation.
Import ListNotations.
From Solstat Require Import Res Dir DirSpec DirCases DirProof DirCasesProof DirExample.
From Solstat Require Effects EffectsProof.
Local Open Scope string_scope.
Local Open Scope list_scope.

Section C03.
  Variable pattern : Type.
  Variable eq_dec : forall a b : pattern, {a = b} + {a <> b}.
  Variable analyze : pattern -> string -> res (list Z).     (* analyze_for_*: an oracle *)

  (* For every tree t (every shape, depth, name, content; the order of every list in t is the
     order in which that directory is listed, so every listing order), every duplicate-free
     pattern list: when every eligible file is readable and analyses without panic, the run
     succeeds and its result holds exactly the (pattern, file, line set) triples obtained by
     analysing each eligible file on its own - as a multiset: each once, none dropped,
     replaced or duplicated -, keys are unique and selected, each vector is in discovery order,
     and no empty vector or empty line set is stored. *)
  Theorem analyze_dir_union : forall (t : list entry) (ps : list pattern),
    NoDup ps -> all_ok analyze ps t ->
    exists m, analyze_dir eq_dec analyze t ps = Ok m /\
      NoDup (keys m) /\
      Permutation (flatten m) (expected_triples analyze ps t) /\
      (forall p, In p ps -> lookup eq_dec m p = expected_vector analyze p t) /\
      (forall p, ~ In p ps -> lookup eq_dec m p = []) /\
      (forall k, In k (keys m) -> In k ps) /\
      nonempty_entries m.
  Proof. intros t ps. exact (analyze_dir_union_lemma pattern eq_dec analyze ps t). Qed.

  (* the multiset part needs no assumption on ps *)
  Theorem analyze_dir_union_any_patterns : forall t ps, all_ok analyze ps t ->
    exists m, analyze_dir eq_dec analyze t ps = Ok m /\
      Permutation (flatten m) (expected_triples analyze ps t) /\ nonempty_entries m.
  Proof. intros t ps. exact (analyze_dir_union_any_lemma pattern eq_dec analyze ps t). Qed.

  (* the run succeeds exactly when every eligible file is readable and analysable ... *)
  Theorem analyze_dir_ok_iff : forall t ps,
    (exists m, analyze_dir eq_dec analyze t ps = Ok m) <-> all_ok analyze ps t.
  Proof. intros t ps. exact (analyze_dir_ok_iff_lemma pattern eq_dec analyze ps t). Qed.

  (* ... and aborts exactly when some eligible file cannot be read or its analysis panics for
     a selected pattern *)
  Theorem analyze_dir_panic_iff : forall t ps,
    (exists s, analyze_dir eq_dec analyze t ps = Panic s) <-> Exists (file_bad analyze ps) (eligible_files_rec t).
  Proof. intros t ps. exact (analyze_dir_panic_iff_lemma pattern eq_dec analyze ps t). Qed.

  (* listing any directory, at any depth, in another order changes neither the success of the
     run nor the multiset of findings *)
  Theorem listing_order_irrelevant : forall t t' ps m,
    tree_perm t t' -> analyze_dir eq_dec analyze t ps = Ok m ->
    exists m', analyze_dir eq_dec analyze t' ps = Ok m' /\ Permutation (flatten m) (flatten m').
  Proof. intros t t' ps m. exact (listing_order_lemma pattern eq_dec analyze ps t t' m). Qed.
End C03.

Print Assumptions analyze_dir_union.
Print Assumptions analyze_dir_union_any_patterns.
Print Assumptions analyze_dir_ok_iff.
Print Assumptions analyze_dir_panic_iff.
Print Assumptions listing_order_irrelevant.

(* the boolean tests that the check evaluates on the implementation's output (DirCases.check_dir,
   codes 13 / 11, and the guard under which they are evaluated) decide the clauses of
   analyze_dir_union and its hypotheses *)
Theorem check_dir_decides_spec : forall (an : N -> string -> res (list Z)) t ps (im : fmapN),
  (nodupb (map fst im) = true <-> NoDup (keys im)) /\
  (permb triple_eqb (flatten im) (expected_triples an ps t) = true <->
   Permutation (flatten im) (expected_triples an ps t)) /\
  (all_okb an ps t && nodupb ps = true <-> all_ok an ps t /\ NoDup ps).
Proof. exact check_dir_spec_lemma. Qed.
Print Assumptions check_dir_decides_spec.

(* ---- the hypotheses are satisfiable: a concrete tree (nested directories, inert files, a
   .t.sol and a .T.SOL file, an unreadable inert file, a repeated file name) *)
Example ex_eligible_files :
  eligible_files_rec ex_tree =
  [("A.sol", Some "x1"); ("B.sol", Some "y"); ("D.sol", Some "x2"); ("A.sol", Some "x1");
   ("E.sol", Some "x3"); ("F.sol", Some "plain")].
Proof. vm_compute. reflexivity. Qed.
Print Assumptions ex_eligible_files.

Example ex_all_ok : all_ok toy [1%N; 0%N] ex_tree.
Proof.
  unfold all_ok. rewrite ex_eligible_files.
  repeat constructor; (eexists; split; [reflexivity|]);
    intros p [<-|[<-|[]]]; eexists; vm_compute; reflexivity.
Qed.
Print Assumptions ex_all_ok.

Example ex_run :
  analyze_dir N.eq_dec toy ex_tree [1%N; 0%N] =
  Ok [ (1%N, [("A.sol", [2; 3]); ("B.sol", [7]); ("D.sol", [2; 3]); ("A.sol", [2; 3]); ("E.sol", [2; 3])]%Z);
       (0%N, [("A.sol", [1]); ("D.sol", [1]); ("A.sol", [1]); ("E.sol", [1])]%Z) ].
Proof. vm_compute. reflexivity. Qed.
Print Assumptions ex_run.

Example ex_expected :
  expected_triples toy [1%N; 0%N] ex_tree =
  [ (1%N, "A.sol", [2; 3]); (0%N, "A.sol", [1]); (1%N, "B.sol", [7]); (1%N, "D.sol", [2; 3]); (0%N, "D.sol", [1]);
    (1%N, "A.sol", [2; 3]); (0%N, "A.sol", [1]); (1%N, "E.sol", [2; 3]); (0%N, "E.sol", [1]) ]%Z.
Proof. vm_compute. reflexivity. Qed.
Print Assumptions ex_expected.

(* a run that must abort: pattern 2 panics on a content starting with "z" *)
Example ex_abort :
  analyze_dir N.eq_dec toy [EFile "A.sol" (Some "x"); EDir "d" [EFile "Z.sol" (Some "zz")]] [0%N; 2%N] = Panic "detector" /\
  analyze_dir N.eq_dec toy [EFile "A.sol" (Some "x"); EDir "d" [EFile "Z.sol" None]] [] = Panic "Unable to read file" /\
  analyze_dir N.eq_dec toy [EFile "A.sol" (Some "x"); EDir "d" [EFile "Z.t.sol" None]] [0%N] = Ok [(0%N, [("A.sol", [1%Z])])].
Proof. vm_compute. repeat split. Qed.
Print Assumptions ex_abort.

Example ex_reordered : tree_perm ex_tree_pruned ex_tree_reordered.
Proof.
  apply tree_perm_trans with
    (b := [EFile "A.sol" (Some "x1")] ++
          EDir "src" [EFile "B.sol" (Some "y"); EDir "deep" [EFile "A.sol" (Some "x1"); EFile "D.sol" (Some "x2")]]
          :: [EFile "E.sol" (Some "x3"); EDir "empty" []; EFile "F.sol" (Some "plain")]).
  - apply (tree_perm_deep "src" [EFile "B.sol" (Some "y"); EDir "deep" [EFile "D.sol" (Some "x2"); EFile "A.sol" (Some "x1")]]
             [EFile "B.sol" (Some "y"); EDir "deep" [EFile "A.sol" (Some "x1"); EFile "D.sol" (Some "x2")]]
             [EFile "A.sol" (Some "x1")] [EFile "E.sol" (Some "x3"); EDir "empty" []; EFile "F.sol" (Some "plain")]).
    apply (tree_perm_deep "deep" [EFile "D.sol" (Some "x2"); EFile "A.sol" (Some "x1")]
             [EFile "A.sol" (Some "x1"); EFile "D.sol" (Some "x2")] [EFile "B.sol" (Some "y")] []).
    apply tree_perm_here, perm_swap.
  - apply tree_perm_here. cbn [app]. apply perm_swap.
Qed.
Print Assumptions ex_reordered.

(* the defect repaired in /repo (D3): merging a sub-directory's map with HashMap::extend
   replaced the vector already stored; the finding of A.sol was lost *)
Example ex_d3_old_merge_loses_findings :
  old_extend [(0%N, [("A.sol", [1%Z])])] [(0%N, [("B.sol", [4%Z])])] = [(0%N, [("B.sol", [4%Z])])] /\
  map_merge N.eq_dec [(0%N, [("A.sol", [1%Z])])] [(0%N, [("B.sol", [4%Z])])] = [(0%N, [("A.sol", [1%Z]); ("B.sol", [4%Z])])].
Proof. vm_compute. split; reflexivity. Qed.
Print Assumptions ex_d3_old_merge_loses_findings.

(* ---- tie to the source.  The theorems above are about model/Dir.v, whose analyze_dir reads nothing but the listing of
   each directory, the directory flag of each entry and the text of each eligible file.  The inventory of file-system
   calls regenerated from /repo/src on every run (gen/Effects.v) is exactly that: read_dir, is_dir, read_to_string once in
   each of the three analyze_dir (and the two reads of Opts::new).  A walker that starts consulting anything else
   (canonical paths, metadata, entry types, the environment) is no longer the function the union theorem is about. *)
Theorem walker_reads_are_the_modelled_ones : Effects.effects_read = EffectsProof.expected_read.
Proof. exact (proj1 (proj2 EffectsProof.effects_match_model_lemma)). Qed.
Print Assumptions walker_reads_are_the_modelled_ones.
