(* C08 - mutability suggestions are never made for something the file writes to.
   canon_d su: suggestions that MUST be made; match_d su: suggestions that MAY be made
   (spec/Patterns2.v; both computed from the complete pre-order, so "written anywhere"
   includes catch bodies, modifier arguments, exponents, ...).
   Hypothesis of the property: state-variable names unique within the file.
   Statements only; proofs in proofs/DetC08.v. *)
From Coq Require Import List String Ascii NArith ZArith Bool.
Import ListNotations.
From Solstat Require Import Lift Pt Walk Res Nodes Utils Detectors Patterns Patterns2 DetBase DetC08 ExampleProg.

(* constant_variables: never a state variable that is the direct target of one of the 15 write
   forms anywhere in the file; always an elementary-typed non-constant one that is never written *)
Theorem constant_variables_sound_complete : forall su,
  NoDup (state_var_names su) ->
  exists ls, constant_variable_optimization su = Ok ls /\
             incl (canon_constant su) ls /\ incl ls (match_constant su).
Proof. exact constant_between. Qed.
Print Assumptions constant_variables_sound_complete.

(* immutable_variables: only variables assigned (plain =) inside a constructor and not directly
   written in any non-constructor function of any contract; always such a value-typed,
   non-constant, non-immutable variable whose constructor assignment has a value-looking right side *)
Theorem immutable_variables_sound_complete : forall su,
  NoDup (state_var_names su) ->
  exists ls, immutable_variables_optimization su = Ok ls /\
             incl (canon_immutable su) ls /\ incl ls (match_immutable su).
Proof. exact immutable_between. Qed.
Print Assumptions immutable_variables_sound_complete.

(* memory_to_calldata: never a parameter that the body assigns (directly or through an index), never a
   constructor parameter; always a named memory parameter of a public/external function with a body
   that is never so assigned (m2c_hyp: memory-parameter names unique within each function) *)
Theorem memory_to_calldata_sound_complete : forall su,
  m2c_hyp su = true ->
  exists ls, memory_to_calldata_optimization su = Ok ls /\ incl (canon_m2c su) ls /\ incl ls (match_m2c su).
Proof. exact m2c_between. Qed.
Print Assumptions memory_to_calldata_sound_complete.

(* sstore: every plain assignment whose target names an elementary-typed, non-constant, non-immutable
   state variable is reported; nothing is reported whose target is not a state variable, or names
   only constant / immutable / mapping / array / user-typed ones (no uniqueness hypothesis needed) *)
Theorem sstore_sound_complete : forall su,
  exists ls, sstore_optimization su = Ok ls /\ incl (canon_sstore su) ls /\ incl ls (match_sstore su).
Proof. exact sstore_between. Qed.
Print Assumptions sstore_sound_complete.

(* the table of candidate state variables has one entry per name (HashMap), keys duplicate-free *)
Theorem state_variable_table_keys_unique : forall ic ii su, NoDup (SMapLemmas.keys (sv_table ic ii su)).
Proof. exact sv_table_nodup. Qed.
Print Assumptions state_variable_table_keys_unique.

(* ---- non-vacuity on a real parse tree: hypotheses hold and every class is inhabited;
   `x` (written in f and in a catch body) is not a constant candidate, `total`/`owner` are immutable
   candidates, `arr`/`s` of f are calldata candidates, `q` of freeFn only a "may" *)
Example c08_nonvacuous :
  nodupb (state_var_names example_su) = true /\ m2c_hyp example_su = true /\
  List.length (canon_constant example_su) = 5 /\ List.length (match_constant example_su) = 5 /\
  List.length (canon_immutable example_su) = 2 /\
  List.length (canon_m2c example_su) = 2 /\ List.length (match_m2c example_su) = 3 /\
  List.length (canon_sstore example_su) = 4 /\
  mem_str "x" (written_in (all_nodes example_su)) = true /\ mem_str "flag" (written_in (all_nodes example_su)) = false.
Proof. vm_compute. repeat split; reflexivity. Qed.
Print Assumptions c08_nonvacuous.
