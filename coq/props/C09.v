(* C09 - version-gated detectors follow the file's `pragma solidity` version.
   file_version su = Some v  (spec/Patterns2.v): the file has exactly one `pragma solidity`
   directive and its value is [op][blanks]M.m.p with op in {"", ^, ~, =, >=, >} and i32
   components; other pragmas (experimental, abicoder) may stand anywhere.
   Statements only; proofs in proofs/DetC09.v, DetC09b.v, VersionProof.v (props/C09_version.v
   states the scanner/parse lemmas). *)
From Coq Require Import List String Ascii NArith ZArith Bool.
Import ListNotations.
From Solstat Require Import Lift Pt Walk Res Nodes Utils Detectors Patterns Patterns2 DetBase DetC09 DetC09b ExampleProg.
Local Open Scope string_scope.

(* the model's regex scanner + i32 parsing extract exactly the version the pragma names *)
Theorem version_of_pragma_value : forall s v, sp_parse_version s = Some v -> version_of_string s = Some v.
Proof. exact parse_version_model. Qed.
Print Assumptions version_of_pragma_value.

Theorem version_of_file : forall su v,
  file_version su = Some v -> get_solidity_version_from_source_unit su = Ok (Some v).
Proof. intros su v H. rewrite version_closed, (file_version_model su v H). reflexivity. Qed.
Print Assumptions version_of_file.

(* SafeMath call sites are reported by safe_math_pre_080 iff v < 0.8.0 and by
   safe_math_post_080 iff v >= 0.8.0 (in a file that attaches a library called SafeMath) *)
Theorem safe_math_pre_gate : forall su v,
  file_version su = Some v -> safe_math_pre_080_optimization su = Ok (spec_safemath_pre v su).
Proof. exact safe_math_pre_spec. Qed.
Print Assumptions safe_math_pre_gate.

Theorem safe_math_post_gate : forall su v,
  file_version su = Some v -> safe_math_post_080_optimization su = Ok (spec_safemath_post v su).
Proof. exact safe_math_post_spec. Qed.
Print Assumptions safe_math_post_gate.

Theorem safe_math_never_both : forall su v,
  spec_safemath_pre v su = [] \/ spec_safemath_post v su = [].
Proof.
  intros su v. unfold spec_safemath_pre, spec_safemath_post.
  destruct (sp_ver_lt v (0, 8, 0)%Z); cbn; [right|left]; reflexivity.
Qed.
Print Assumptions safe_math_never_both.

(* string_errors reports every require whose last argument is a string literal iff v >= 0.8.4;
   short_revert_string those of at least 32 bytes iff v < 0.8.4 *)
Theorem string_errors_gate : forall su v,
  file_version su = Some v -> wf_require_strings su = true ->
  string_error_optimization su = Ok (spec_string_errors v su).
Proof. exact string_errors_spec. Qed.
Print Assumptions string_errors_gate.

Theorem short_revert_gate : forall su v,
  file_version su = Some v -> short_revert_string_optimization su = Ok (spec_short_revert v su).
Proof. exact short_revert_spec. Qed.
Print Assumptions short_revert_gate.

(* versions are compared as triples, lexicographically; the verdict is monotone in v *)
Theorem version_order_lexicographic : forall a b c a' b' c',
  sp_ver_lt (a, b, c) (a', b', c') = true <->
  (a < a' \/ (a = a' /\ (b < b' \/ (b = b' /\ c < c'))))%Z.
Proof.
  intros. unfold sp_ver_lt.
  rewrite !orb_true_iff, !andb_true_iff, !orb_true_iff, !andb_true_iff, !Z.ltb_lt, !Z.eqb_eq. tauto.
Qed.
Print Assumptions version_order_lexicographic.

Theorem lt_gate_monotone : forall u v w, sp_ver_lt u v = true -> sp_ver_lt v w = true -> sp_ver_lt u w = true.
Proof. exact gate_lt_monotone. Qed.
Print Assumptions lt_gate_monotone.
Theorem ge_gate_monotone : forall u v w, sp_ver_lt u v = true -> sp_ver_lt u w = false -> sp_ver_lt v w = false.
Proof. exact gate_ge_monotone. Qed.
Print Assumptions ge_gate_monotone.

(* without a usable version nothing is reported (and nothing panics) *)
Theorem no_version_no_findings : forall su pre_080,
  model_version su = None ->
  safe_math_optimization su pre_080 = Ok [] /\ short_revert_string_optimization su = Ok [].
Proof.
  intros su p H. rewrite safe_math_closed, short_revert_closed, H. split; reflexivity.
Qed.
Print Assumptions no_version_no_findings.

(* ---- non-vacuity: the example file has `pragma solidity ^0.8.4;` followed by `pragma abicoder v2;` *)
Example c09_example_version : file_version example_su = Some (0, 8, 4)%Z.
Proof. vm_compute. reflexivity. Qed.
Print Assumptions c09_example_version.
Example c09_example_gates :
  wf_require_strings example_su = true /\ uses_safemath example_su = true /\
  List.length (spec_safemath_post (0, 8, 4)%Z example_su) = 1 /\ spec_safemath_pre (0, 8, 4)%Z example_su = [] /\
  List.length (spec_string_errors (0, 8, 4)%Z example_su) = 2 /\
  List.length (spec_short_revert (0, 8, 3)%Z example_su) = 1 /\ spec_short_revert (0, 8, 4)%Z example_su = [].
Proof. vm_compute. repeat split; reflexivity. Qed.
Print Assumptions c09_example_gates.
Example c09_boundaries :
  sp_parse_version ">=0.8.10" = Some (0, 8, 10)%Z /\ sp_parse_version "^ 1.0.0" = Some (1, 0, 0)%Z /\
  sp_ver_lt (0, 9, 0)%Z (0, 8, 4)%Z = false /\ sp_ver_lt (1, 0, 0)%Z (0, 8, 0)%Z = false /\
  sp_ver_lt (0, 8, 3)%Z (0, 8, 4)%Z = true /\ sp_parse_version ">=0.7.0 <0.9.0" = None.
Proof. vm_compute. repeat split; reflexivity. Qed.
Print Assumptions c09_boundaries.
