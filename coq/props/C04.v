(* C04 - analysis never aborts on a file the parser accepts.
   The model makes every unwrap / expect / index / fixed-width overflow of the Rust code an
   explicit `Panic`; the theorems show none is reachable.
   Statements only; proofs in proofs/NoPanic.v (and the closed forms of DetC05..DetC09, PackProof). *)
From Coq Require Import List String Ascii NArith ZArith Bool Sorted.
Import ListNotations.
From Solstat Require Import Lift Pt Walk Res Nodes Utils Detectors Opt_pack Cases DetCases Patterns2 LineSpec
     DetC09 NoPanic ExampleProg.

(* every one of the 30 detectors returns a set of locations on every tree satisfying wf_parser
   (what the lexer and grammar guarantee; in particular files without pragma, with free
   functions, with literals of any size/exponent, with calls without arguments and with any
   number of definitions are covered: wf_parser says nothing about them) *)
Theorem no_panic : forall su,
  wf_parser su -> Forall (fun d => exists locs, d su = Ok locs) all_detectors.
Proof. exact no_panic_lemma. Qed.
Print Assumptions no_panic.

(* the per-file analysis (detector, then the line of every location) returns a strictly
   increasing line list whenever the text has fewer than 2^31 line feeds *)
Theorem no_panic_lines : forall su src,
  wf_parser su -> lines_lt_i32 src ->
  Forall (fun d => exists ls, analyze_lines d src su = Ok ls /\ StronglySorted Z.lt ls) all_detectors.
Proof. exact no_panic_lines_lemma. Qed.
Print Assumptions no_panic_lines.

(* wf_parser is decidable and is evaluated on every tree the real parser returns *)
Theorem wf_parser_decidable : forall su, wf_parser_b su = true -> wf_parser su.
Proof. exact wf_parser_b_sound. Qed.
Print Assumptions wf_parser_decidable.

Example c04_all_thirty : List.length all_detectors = 30.
Proof. reflexivity. Qed.
Print Assumptions c04_all_thirty.

(* non-vacuity: a real parse tree satisfies the hypothesis and no detector panics on it;
   a tree the parser cannot produce (a require whose last argument is a string literal with
   zero parts) violates it, and the model of string_errors does panic there *)
Example c04_example_wf : wf_parser_b example_su = true /\ model_panics example_su = [].
Proof. vm_compute. split; reflexivity. Qed.
Print Assumptions c04_example_wf.
Example c04_hypothesis_needed : wf_parser_b bad_tree = false /\ model_panics bad_tree = [22%N].
Proof. vm_compute. split; reflexivity. Qed.
Print Assumptions c04_hypothesis_needed.
