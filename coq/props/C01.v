(* C01 - a pattern is found wherever it is nested in the source.
   Statements only; proofs are in proofs/WalkProof.v. *)
From Coq Require Import List String NArith Bool.
Import ListNotations.
From Solstat Require Import Lift Pt Walk WalkProof.

(* `pre n` (gen/Pt.v) is the complete pre-order of the nodes below n, derived from the
   types of solang_parser::pt alone; `kind_of` maps a node to the Target of the same
   name.  The model of walk_node_for_targets returns exactly the nodes of the selected
   kinds: each once, in pre-order (= source order), and nothing else -- for every root
   and every target set. *)
Theorem walk_exact : forall (T : Target -> bool) (n : node),
  walk T n = filter (fun m => T (kind_of m)) (pre n).
Proof. exact walk_exact_lemma. Qed.
Print Assumptions walk_exact.

Theorem walk_only_kinds : forall T n m, In m (walk T n) -> T (kind_of m) = true.
Proof. exact walk_only_kinds_lemma. Qed.
Print Assumptions walk_only_kinds.

Theorem walk_all_kinds : forall T n m, In m (pre n) -> T (kind_of m) = true -> In m (walk T n).
Proof. exact walk_all_kinds_lemma. Qed.
Print Assumptions walk_all_kinds.

(* the four *_as_target tables and Node::as_target send every constructor to the
   Target of the same name (Target_None for Assembly/Continue/Break only) *)
Theorem kind_tables_exact : forall n, as_target n = kind_of n.
Proof. exact as_target_kind_of. Qed.
Print Assumptions kind_tables_exact.

Theorem extract_single : forall t n,
  extract_target_from_node t n = filter (fun m => Target_eqb (kind_of m) t) (pre n).
Proof. exact extract_single_lemma. Qed.
Print Assumptions extract_single.

Theorem extract_multi : forall ts n,
  extract_targets_from_node ts n = filter (fun m => existsb (Target_eqb (kind_of m)) ts) (pre n).
Proof. exact extract_multi_lemma. Qed.
Print Assumptions extract_multi.

Theorem target_eqb_spec : forall a b, Target_eqb a b = true <-> a = b.
Proof. exact Target_eqb_eq. Qed.
Print Assumptions target_eqb_spec.
