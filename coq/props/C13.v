(* C13 - the report is a deterministic function of the set of findings.
   Statements only; proofs are in proofs/ReportSet.v (sorting facts in proofs/ReportSort.v).

   A findings map is an association list in HashMap ITERATION ORDER (model/Report.v); the keys of
   a HashMap are pairwise distinct (NoDup (keys F)).  `finding_items F` is the list of the
   (pattern, (file, line set)) findings the map holds; `same_finding_set F F'` says the two maps
   hold the same findings (as multisets: the same file name may occur twice under a pattern). *)
From Coq Require Import List String NArith ZArith Bool Permutation.
Import ListNotations.
From Solstat Require Import Bytes Tables Sections Report ReportSort ReportSet.
From Solstat Require Effects EffectsProof.
Local Open Scope string_scope.
Local Open Scope list_scope.

(* every iteration order of the same map renders to the same bytes (per-process hash seeds,
   insertion order of the patterns) *)
Theorem render_order_independent_optimizations : forall F F' : findings Optimization,
  NoDup (keys F) -> Permutation F F' -> generate_optimization_report F = generate_optimization_report F'.
Proof. intros F F' H1 H2; apply opt_set_function; [exact H1 | eapply perm_keys_nodup; eassumption | apply perm_same_finding_set; exact H2]. Qed.
Print Assumptions render_order_independent_optimizations.

Theorem render_order_independent_vulnerabilities : forall F F' : findings Vulnerability,
  NoDup (keys F) -> Permutation F F' -> generate_vulnerability_report F = generate_vulnerability_report F'.
Proof. intros F F' H1 H2; apply vul_set_function; [exact H1 | eapply perm_keys_nodup; eassumption | apply perm_same_finding_set; exact H2]. Qed.
Print Assumptions render_order_independent_vulnerabilities.

Theorem render_order_independent_qa : forall F F' : findings QualityAssurance,
  NoDup (keys F) -> Permutation F F' -> generate_qa_report F = generate_qa_report F'.
Proof. intros F F' H1 H2; apply qa_set_function; [exact H1 | eapply perm_keys_nodup; eassumption | apply perm_same_finding_set; exact H2]. Qed.
Print Assumptions render_order_independent_qa.

(* the whole report file *)
Theorem render_order_independent : forall V V' O O' Q Q',
  NoDup (keys V) -> NoDup (keys O) -> NoDup (keys Q) ->
  Permutation V V' -> Permutation O O' -> Permutation Q Q' ->
  generate_report V O Q = generate_report V' O' Q'.
Proof. exact report_order_independent. Qed.
Print Assumptions render_order_independent.

(* the bytes depend only on the set of findings: also the order of the (file, lines) pairs inside
   each pattern's vector (= discovery order of the files) is irrelevant *)
Theorem render_set_function_optimizations : forall F F' : findings Optimization,
  NoDup (keys F) -> NoDup (keys F') -> same_finding_set F F' ->
  generate_optimization_report F = generate_optimization_report F'.
Proof. exact opt_set_function. Qed.
Print Assumptions render_set_function_optimizations.

Theorem render_set_function_vulnerabilities : forall F F' : findings Vulnerability,
  NoDup (keys F) -> NoDup (keys F') -> same_finding_set F F' ->
  generate_vulnerability_report F = generate_vulnerability_report F'.
Proof. exact vul_set_function. Qed.
Print Assumptions render_set_function_vulnerabilities.

Theorem render_set_function_qa : forall F F' : findings QualityAssurance,
  NoDup (keys F) -> NoDup (keys F') -> same_finding_set F F' ->
  generate_qa_report F = generate_qa_report F'.
Proof. exact qa_set_function. Qed.
Print Assumptions render_set_function_qa.

(* generate_report tests `map.len() > 0`; a map whose vectors are all non-empty (what analyze_dir
   builds) is empty iff it holds no finding *)
Theorem render_set_function : forall V V' O O' Q Q',
  NoDup (keys V) -> NoDup (keys V') -> NoDup (keys O) -> NoDup (keys O') -> NoDup (keys Q) -> NoDup (keys Q') ->
  no_empty_vectors V -> no_empty_vectors V' -> no_empty_vectors O -> no_empty_vectors O' ->
  no_empty_vectors Q -> no_empty_vectors Q' ->
  same_finding_set V V' -> same_finding_set O O' -> same_finding_set Q Q' ->
  generate_report V O Q = generate_report V' O' Q'.
Proof. exact report_set_function. Qed.
Print Assumptions render_set_function.

(* the rendering order itself: patterns by discriminant, each vector sorted *)
Theorem rendering_order_canonical : forall F F' : findings Optimization,
  NoDup (keys F) -> NoDup (keys F') -> same_finding_set F F' ->
  rendered_items Optimization_idx F = rendered_items Optimization_idx F'.
Proof. exact (rendered_items_set_function Optimization_idx Optimization_idx_inj). Qed.
Print Assumptions rendering_order_canonical.

(* the hypotheses are satisfiable by a non-trivial value: two maps that differ in the order of the
   patterns and in the order of the files hold the same set and render identically *)
Definition ex_F1 : findings Vulnerability :=
  [(Vul_FloatingPragma, [("b.sol", [3; 7]%Z); ("a.sol", [1]%Z)]); (Vul_UnprotectedSelfdestruct, [("a.sol", [12]%Z)])].
Definition ex_F2 : findings Vulnerability :=
  [(Vul_UnprotectedSelfdestruct, [("a.sol", [12]%Z)]); (Vul_FloatingPragma, [("a.sol", [1]%Z); ("b.sol", [3; 7]%Z)])].

Example ex_hypotheses : NoDup (keys ex_F1) /\ NoDup (keys ex_F2) /\ same_finding_set ex_F1 ex_F2 /\ ex_F1 <> ex_F2
                        /\ no_empty_vectors ex_F1.
Proof.
  split; [|split; [|split; [|split]]].
  - repeat constructor; cbn; intuition discriminate.
  - repeat constructor; cbn; intuition discriminate.
  - unfold same_finding_set, ex_F1, ex_F2; cbn.
    eapply perm_trans; [apply perm_swap|].
    eapply perm_trans; [apply perm_skip, perm_swap|].
    apply perm_swap.
  - discriminate.
  - intros p v H; cbn in H; destruct H as [H|[H|[]]]; injection H as _ H; subst v; discriminate.
Qed.
Print Assumptions ex_hypotheses.

Example ex_same_bytes : generate_vulnerability_report ex_F1 = generate_vulnerability_report ex_F2.
Proof. vm_compute; reflexivity. Qed.
Print Assumptions ex_same_bytes.

(* ---- tie to the source.  "Two runs over the same directory content produce byte-identical reports": the report is
   render(findings) and the findings are a function of what the run reads.  The inventory regenerated from /repo/src on
   every run (gen/Effects.v) shows that a run reads the directory tree and the configuration file only, consults neither
   the environment nor the clock (no env::, time or random API: they would appear in effects_process), and keeps no state
   outside its own stack; the per-process randomness that remains is the HashMap iteration order, which the theorems
   above quantify over. *)
Theorem a_run_reads_the_tree_and_the_configuration_only :
  Effects.effects_read = EffectsProof.expected_read /\ Effects.effects_process = EffectsProof.expected_process /\
  Effects.shared_state = [].
Proof.
  exact (conj (proj1 (proj2 EffectsProof.effects_match_model_lemma))
              (conj (proj2 (proj2 EffectsProof.effects_match_model_lemma)) EffectsProof.no_shared_state_lemma)).
Qed.
Print Assumptions a_run_reads_the_tree_and_the_configuration_only.
