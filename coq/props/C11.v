(* C11 - the report lists exactly the findings, each under its own pattern's section; reading the
   entries back reproduces the findings.
   Statements only; proofs are in proofs/ReportProof.v (generic reader facts in ReportReaderProof.v,
   ReportCategory.v; the finite side conditions on the current section texts are decided by
   vm_compute in proofs/ReportFinite.v over the regenerated gen/Sections.v).

   generate_*_report : model of the Rust generators (model/Report.v), argument = the findings map
                       as an association list in HashMap iteration order.
   read_*_report     : the independent reader of spec/ReportReader.v (key line of each pattern,
                       `### Lines`, entry shape `- <file>:<decimal>` split at the last ':').
   triples F         : one (pattern, file, line) per finding of the map F.
   rendered_items    : the (pattern, vector) pairs in rendering order: patterns by discriminant,
                       empty vectors skipped, each vector sorted by (file, lines). *)
From Coq Require Import List String NArith ZArith Bool Permutation.
Import ListNotations.
From Solstat Require Import Bytes Tables Sections Report ReportReader ReportCategory ReportProof ReportFullFinite ReportFull.
Local Open Scope string_scope.
Local Open Scope list_scope.

(* ---- round trip: reading the report gives the findings back, each under the pattern that
        produced it, in the order of the report *)
Theorem report_roundtrip_optimizations : forall F : findings Optimization, names_without_lf F ->
  map drop_heading (read_optimization_report (generate_optimization_report F)) =
  triples (rendered_items Optimization_idx F).
Proof. exact opt_roundtrip_spec. Qed.
Print Assumptions report_roundtrip_optimizations.

Theorem report_roundtrip_qa : forall F : findings QualityAssurance, names_without_lf F ->
  map drop_heading (read_qa_report (generate_qa_report F)) = triples (rendered_items QualityAssurance_idx F).
Proof. exact qa_roundtrip_spec. Qed.
Print Assumptions report_roundtrip_qa.

(* vulnerabilities are grouped by severity (High, Medium, Low), inside a group by discriminant:
   by_severity items = items of severity High ++ of severity Medium ++ of severity Low *)
Theorem report_roundtrip_vulnerabilities : forall F : findings Vulnerability, names_without_lf F ->
  map drop_heading (read_vulnerability_report (generate_vulnerability_report F)) =
  triples (by_severity (rendered_items Vulnerability_idx F)).
Proof. exact vul_roundtrip_spec. Qed.
Print Assumptions report_roundtrip_vulnerabilities.

(* ---- the entries of the report are exactly the findings (as multisets: one entry per finding,
        no other entry), each attributed to the pattern that produced it *)
Theorem report_entries_exact_optimizations : forall F : findings Optimization, names_without_lf F ->
  Permutation (map drop_heading (read_optimization_report (generate_optimization_report F))) (triples F).
Proof. exact opt_entries_exact. Qed.
Print Assumptions report_entries_exact_optimizations.

Theorem report_entries_exact_vulnerabilities : forall F : findings Vulnerability, names_without_lf F ->
  Permutation (map drop_heading (read_vulnerability_report (generate_vulnerability_report F))) (triples F).
Proof. exact vul_entries_exact. Qed.
Print Assumptions report_entries_exact_vulnerabilities.

Theorem report_entries_exact_qa : forall F : findings QualityAssurance, names_without_lf F ->
  Permutation (map drop_heading (read_qa_report (generate_qa_report F))) (triples F).
Proof. exact qa_entries_exact. Qed.
Print Assumptions report_entries_exact_qa.

(* ---- a pattern's section (its key line) appears iff the pattern has a finding *)
Theorem section_iff_findings_optimizations : forall (F : findings Optimization) p, wf_findings F ->
  (has_line (key_line (optimization_section p)) (generate_optimization_report F) <-> has_finding p F).
Proof. exact opt_section_iff_spec. Qed.
Print Assumptions section_iff_findings_optimizations.

Theorem section_iff_findings_vulnerabilities : forall (F : findings Vulnerability) p, wf_findings F ->
  (has_line (key_line (vulnerability_section p)) (generate_vulnerability_report F) <-> has_finding p F).
Proof. exact vul_section_iff_spec. Qed.
Print Assumptions section_iff_findings_vulnerabilities.

Theorem section_iff_findings_qa : forall (F : findings QualityAssurance) p, wf_findings F ->
  (has_line (key_line (qa_section p)) (generate_qa_report F) <-> has_finding p F).
Proof. exact qa_section_iff_spec. Qed.
Print Assumptions section_iff_findings_qa.

(* ---- the whole report file (generate_report = what is written to solstat_report.md), read by
        a reader that knows the key lines of all 30 patterns.
        items_full V O Q = the rendered (pattern, vector) pairs of the file, in order:
          vulnerabilities by severity then discriminant, optimizations, QA (tagged AnyVul/AnyOpt/AnyQa);
        any_section = the section text of a pattern of any category *)
Theorem report_roundtrip : forall V O Q, names_without_lf V -> names_without_lf O -> names_without_lf Q ->
  map drop_heading (read_full_report (generate_report V O Q)) = triples (items_full V O Q).
Proof. exact full_roundtrip_spec. Qed.
Print Assumptions report_roundtrip.

Theorem report_entries_exact : forall V O Q, names_without_lf V -> names_without_lf O -> names_without_lf Q ->
  Permutation (map drop_heading (read_full_report (generate_report V O Q)))
              (triples (tag_findings AnyVul V ++ tag_findings AnyOpt O ++ tag_findings AnyQa Q)).
Proof. exact full_entries_exact_spec. Qed.
Print Assumptions report_entries_exact.

Theorem section_iff_findings : forall V O Q p, wf_findings V -> wf_findings O -> wf_findings Q ->
  (has_line (key_line (any_section p)) (generate_report V O Q) <->
   match p with
   | AnyVul x => has_finding x V
   | AnyOpt x => has_finding x O
   | AnyQa x => has_finding x Q
   end).
Proof. exact full_section_iff_spec. Qed.
Print Assumptions section_iff_findings.

(* the finite side conditions on the current texts that the theorems above rest on, recomputed
   whenever gen/Sections.v changes: for all 30 patterns at once - the marker `### Lines` and the
   blank line are no key lines or headings; scanning a section text meets no `### Lines` line, no
   heading, and ends on its own key line; every key line is no marker, not blank, not entry-shaped,
   occurs in its own text and in no other; no heading occurs in any text *)
Theorem side_conditions_hold :
  cat_okb AnyPattern any_idx any_all all_keys vul_headings any_section = true.
Proof. exact full_cat_ok. Qed.
Print Assumptions side_conditions_hold.

(* ---- the hypotheses are satisfiable by a non-trivial map: awkward file names, several files *)
Definition ex_c11 : findings QualityAssurance :=
  [(Qa_PrivateFuncLeadingUnderscore, [("b: x.sol", [4; 9]%Z); ("- a.sol:7", [1]%Z)]);
   (Qa_ConstructorOrder, [("### Lines", [12]%Z)])].

Example ex_c11_wf : wf_findings ex_c11 /\ names_without_lf ex_c11.
Proof.
  assert (W : wf_findings ex_c11).
  { intros p v H; cbn in H; destruct H as [H|[H|[]]]; injection H as _ H; subst v; (split; [discriminate|]);
      intros f ls Hin; cbn in Hin; repeat (destruct Hin as [Hin|Hin]; [injection Hin as <- <-; split; [discriminate | reflexivity]|]);
      destruct Hin. }
  split; [exact W | exact (wf_names _ _ W)].
Qed.
Print Assumptions ex_c11_wf.

Example ex_c11_read : map drop_heading (read_qa_report (generate_qa_report ex_c11)) =
  [(Qa_ConstructorOrder, "### Lines", 12%Z); (Qa_PrivateFuncLeadingUnderscore, "- a.sol:7", 1%Z);
   (Qa_PrivateFuncLeadingUnderscore, "b: x.sol", 4%Z); (Qa_PrivateFuncLeadingUnderscore, "b: x.sol", 9%Z)].
Proof. vm_compute; reflexivity. Qed.
Print Assumptions ex_c11_read.
