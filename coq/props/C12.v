(* C12 - report totals and headings agree with the findings shown.
   Statements only; proofs are in proofs/ReportProof.v. *)
From Coq Require Import List String NArith ZArith Bool Permutation.
Import ListNotations.
From Solstat Require Import Bytes Tables Sections Report ReportReader ReportProof ReportFullFinite ReportFull.
Local Open Scope string_scope.
Local Open Scope list_scope.

(* ---- the number printed after "(Total Optimizations " / "(Total Vulnerabilities " is the number
        of entry lines the reader finds in that report ... *)
Theorem total_matches_entries_optimizations : forall F : findings Optimization, names_without_lf F ->
  printed_total opt_overview_prefix (generate_optimization_report F) =
  Some (N.of_nat (List.length (read_optimization_report (generate_optimization_report F)))).
Proof. exact opt_total_spec. Qed.
Print Assumptions total_matches_entries_optimizations.

Theorem total_matches_entries_vulnerabilities : forall F : findings Vulnerability, names_without_lf F ->
  printed_total vul_overview_prefix (generate_vulnerability_report F) =
  Some (N.of_nat (List.length (read_vulnerability_report (generate_vulnerability_report F)))).
Proof. exact vul_total_spec. Qed.
Print Assumptions total_matches_entries_vulnerabilities.

(* ... which is the number of (file, line) findings of the map *)
Theorem total_is_number_of_findings_optimizations : forall F : findings Optimization, names_without_lf F ->
  printed_total opt_overview_prefix (generate_optimization_report F) = Some (N.of_nat (List.length (triples F))).
Proof. exact opt_total_findings. Qed.
Print Assumptions total_is_number_of_findings_optimizations.

Theorem total_is_number_of_findings_vulnerabilities : forall F : findings Vulnerability, names_without_lf F ->
  printed_total vul_overview_prefix (generate_vulnerability_report F) = Some (N.of_nat (List.length (triples F))).
Proof. exact vul_total_findings. Qed.
Print Assumptions total_is_number_of_findings_vulnerabilities.

(* ---- a category part of the report file is present iff that category has findings.
        The vulnerability and optimization parts start with their overview heading line
        ("# Gas Optimizations - (Total Vulnerabilities n)" / "(Total Optimizations n)"); the QA
        overview is a blank line, so the QA part is observed through its sections. *)
Theorem category_iff_vulnerabilities : forall V O Q, wf_findings V -> wf_findings O -> wf_findings Q ->
  (has_line_starting vul_overview_prefix (generate_report V O Q) <-> exists p, has_finding p V).
Proof. exact category_iff_vul. Qed.
Print Assumptions category_iff_vulnerabilities.

Theorem category_iff_optimizations : forall V O Q, wf_findings V -> wf_findings O -> wf_findings Q ->
  (has_line_starting opt_overview_prefix (generate_report V O Q) <-> exists p, has_finding p O).
Proof. exact category_iff_opt. Qed.
Print Assumptions category_iff_optimizations.

Theorem category_iff_qa_sections : forall V O Q, wf_findings V -> wf_findings O -> wf_findings Q ->
  ((exists q, has_line (key_line (qa_section q)) (generate_report V O Q)) <-> exists q, has_finding q Q).
Proof. exact category_iff_qa. Qed.
Print Assumptions category_iff_qa_sections.

(* the file is the three parts in the order vulnerabilities, optimizations, QA, each present iff
   its map is non-empty and followed by a blank line pair *)
Theorem category_blocks : forall V O Q,
  generate_report V O Q =
  ((if nonempty_map V then generate_vulnerability_report V ++ nl ++ nl else "") ++
   (if nonempty_map O then generate_optimization_report O ++ nl ++ nl else "") ++
   (if nonempty_map Q then generate_qa_report Q ++ nl ++ nl else ""))%string.
Proof. exact report_blocks. Qed.
Print Assumptions category_blocks.

(* ---- severities: the regenerated table (second component of the arms of
        get_vulnerability_report_section) is the one the property demands:
        selfdestruct high, divide-before-multiply medium, ERC20 and pragma low *)
Theorem severity_of : forall v, vul_severity v = required_severity v.
Proof. exact vul_severity_required. Qed.
Print Assumptions severity_of.

Theorem severity_of_table :
  required_severity Vul_UnprotectedSelfdestruct = Sev_High /\ required_severity Vul_DivideBeforeMultiply = Sev_Medium /\
  required_severity Vul_UnsafeERC20Operation = Sev_Low /\ required_severity Vul_FloatingPragma = Sev_Low.
Proof. vm_compute; repeat split; reflexivity. Qed.
Print Assumptions severity_of_table.

(* ---- a severity heading is printed iff a pattern of that severity has a finding *)
Theorem heading_iff : forall (F : findings Vulnerability) s, wf_findings F ->
  (has_line (heading_of s) (generate_vulnerability_report F) <-> exists p, required_severity p = s /\ has_finding p F).
Proof. exact vul_heading_iff_spec. Qed.
Print Assumptions heading_iff.

(* ---- each section follows its own heading: every entry the reader finds lies under the heading
        (the heading line seen last) of the severity required for its pattern *)
Theorem sections_under_own_heading : forall F : findings Vulnerability, names_without_lf F ->
  Forall (fun e => let '(h, p, _, _) := e in h = Some (heading_of (required_severity p)))
         (read_vulnerability_report (generate_vulnerability_report F)).
Proof. exact vul_own_heading_spec. Qed.
Print Assumptions sections_under_own_heading.

(* ---- non-trivial instance: a high and a low finding; no "## Medium Risk" *)
Definition ex_c12 : findings Vulnerability :=
  [(Vul_FloatingPragma, [("a.sol", [1]%Z)]); (Vul_UnprotectedSelfdestruct, [("b.sol", [10; 20]%Z)])].

Example ex_c12_wf : wf_findings ex_c12.
Proof.
  intros p v H; cbn in H; destruct H as [H|[H|[]]]; injection H as _ H; subst v; (split; [discriminate|]);
    intros f ls Hin; cbn in Hin; repeat (destruct Hin as [Hin|Hin]; [injection Hin as <- <-; split; [discriminate | reflexivity]|]);
    destruct Hin.
Qed.
Print Assumptions ex_c12_wf.

Example ex_c12_headings :
  map (fun s => has_lineb (heading_of s) (generate_vulnerability_report ex_c12)) VulnerabilitySeverity_all = [true; false; true]
  /\ printed_total vul_overview_prefix (generate_vulnerability_report ex_c12) = Some 3%N.
Proof. vm_compute; split; reflexivity. Qed.
Print Assumptions ex_c12_headings.
