(* C18 - a run only reads its inputs and writes one report file.
   Statements only; proofs are in proofs/RunProof.v, proofs/RunTreeProof.v and proofs/EffectsProof.v.

   model/Run.v: the file system is a partial map `fs := path -> option fnode`; `run` is main:
   option resolution (model/Opts.v), then the analysis and the rendering of the report (the
   oracle `analyse_all`: it reads the file system and returns the text, or panics), then the
   single write of cwd/solstat_report.md.  `parse_toml` and `analyse_all` are universally
   quantified: the theorems hold whatever the parser, the detectors and the renderer compute.

   What is proved here is the logic of the run on the model.  That the real process has no other
   effect is tied by (a) `effects_match_model` / `no_shared_state` over the inventory regenerated
   from the source on every run and (b) before/after snapshots of real runs (tools/checks/c18.py):
   the operating system's behaviour is sampled, not proved. *)
From Coq Require Import List String Ascii NArith Bool.
Import ListNotations.
From Solstat Require Import Res Names Opts Run RunProof DirSpec RunTree RunTreeProof Effects EffectsProof.
From Solstat Require Dir.
Local Open Scope string_scope.
Local Open Scope N_scope.

(* Every path other than cwd/solstat_report.md is mapped exactly as before: the analysed tree is
   unchanged, nothing else is created, removed or modified. *)
Theorem run_frame : forall parse_toml analyse_all f cwd a f' e,
  run parse_toml analyse_all f cwd a = (f', e) ->
  forall q, q <> report_path cwd -> f' q = f q.
Proof. exact run_frame_lemma. Qed.
Print Assumptions run_frame.

(* On success the report file holds exactly the rendered text, whatever was there before
   (absent, or a file of any content): replaced, not appended to. *)
Theorem run_overwrites : forall parse_toml analyse_all f cwd a f',
  run parse_toml analyse_all f cwd a = (f', 0) ->
  exists text, report_of parse_toml analyse_all f cwd a = Some text /\
               f' (report_path cwd) = Some (FileN text).
Proof. exact run_overwrites_lemma. Qed.
Print Assumptions run_overwrites.

(* A run that fails (unknown name, unreadable configuration, missing directory, a panic during
   the analysis, exit(1)) leaves the whole file system as it was. *)
Theorem failed_run_writes_nothing : forall parse_toml analyse_all f cwd a f' e,
  run parse_toml analyse_all f cwd a = (f', e) -> e <> 0 -> f' = f.
Proof. exact failed_run_writes_nothing_lemma. Qed.
Print Assumptions failed_run_writes_nothing.

(* The report file changes only as the last step: after option resolution and the whole
   analysis succeeded. *)
Theorem write_is_last : forall parse_toml analyse_all f cwd a f' e,
  run parse_toml analyse_all f cwd a = (f', e) -> f' (report_path cwd) <> f (report_path cwd) ->
  e = 0 /\ exists p o v q text,
    resolve a (toml_of parse_toml f cwd a) (is_dir f (join cwd default_dir)) = Run p o v q /\
    analyse_all f cwd p o v q = Ok text.
Proof. exact write_is_last_lemma. Qed.
Print Assumptions write_is_last.

Theorem exit_codes : forall parse_toml analyse_all f cwd a,
  In (snd (run parse_toml analyse_all f cwd a)) [0; 1; 101].
Proof. exact exit_codes_lemma. Qed.
Print Assumptions exit_codes.

(* The name filter of analyze_dir (model/Dir.v; property C16) rejects the report's own name, so a
   report lying inside the analysed tree is never opened. *)
Theorem report_name_not_eligible : Dir.eligible report_name = false.
Proof. exact report_not_eligible. Qed.
Print Assumptions report_name_not_eligible.

(* A report left by an earlier run does not influence the new result, wherever the working
   directory lies relative to the analysed tree.  Hypothesis on the analysis: it never opens a
   file whose name is not eligible (`ignores_ineligible`; this is what C16's inert_files proves of
   the model of analyze_dir) - instantiated with the report's name by the theorem above.  f1 and
   f2 are any two file systems that differ only at cwd/solstat_report.md (absent, or a file of any
   content in either).  The --toml file must not be the report file itself. *)
Theorem old_report_inert : forall parse_toml analyse_all, ignores_ineligible analyse_all ->
  forall f1 f2 cwd a, agree_except (report_path cwd) f1 f2 ->
  (forall file, arg_toml a = Some file -> join cwd file <> report_path cwd) ->
  snd (run parse_toml analyse_all f1 cwd a) = snd (run parse_toml analyse_all f2 cwd a) /\
  report_of parse_toml analyse_all f1 cwd a = report_of parse_toml analyse_all f2 cwd a /\
  (snd (run parse_toml analyse_all f1 cwd a) = 0 ->
   forall q, fst (run parse_toml analyse_all f1 cwd a) q = fst (run parse_toml analyse_all f2 cwd a) q).
Proof. exact old_report_inert_lemma. Qed.
Print Assumptions old_report_inert.

(* The hypothesis of old_report_inert, discharged for the analysis built from the model of the
   directory walkers (model/RunTree.v: enumerate the tree, the three analyze_dir of model/Dir.v in
   the order of main, render): by C16's inert_files it ignores every non-eligible file.  What
   remains assumed is only that the enumeration is a view of the file system
   (`tree_view_faithful`: changing one file changes only that file's entry); the per-file
   analyses and the renderer are arbitrary. *)
Theorem analysis_ignores_ineligible : forall tree_at an_opt an_vul an_qa render,
  tree_view_faithful tree_at ->
  ignores_ineligible (analyse_concrete tree_at an_opt an_vul an_qa render).
Proof. exact analyse_concrete_ignores_ineligible_lemma. Qed.
Print Assumptions analysis_ignores_ineligible.

Theorem old_report_inert_concrete : forall parse_toml tree_at an_opt an_vul an_qa render,
  tree_view_faithful tree_at ->
  forall f1 f2 cwd a, agree_except (report_path cwd) f1 f2 ->
  (forall file, arg_toml a = Some file -> join cwd file <> report_path cwd) ->
  let r := run parse_toml (analyse_concrete tree_at an_opt an_vul an_qa render) in
  snd (r f1 cwd a) = snd (r f2 cwd a) /\
  (snd (r f1 cwd a) = 0 -> forall q, fst (r f1 cwd a) q = fst (r f2 cwd a) q).
Proof. exact old_report_inert_concrete_lemma. Qed.
Print Assumptions old_report_inert_concrete.

(* Repeated runs: after a successful run, running again succeeds and changes nothing. *)
Theorem run_idempotent : forall parse_toml analyse_all, ignores_ineligible analyse_all ->
  forall f cwd a f', run parse_toml analyse_all f cwd a = (f', 0) ->
  (forall file, arg_toml a = Some file -> join cwd file <> report_path cwd) ->
  snd (run parse_toml analyse_all f' cwd a) = 0 /\
  forall q, fst (run parse_toml analyse_all f' cwd a) q = f' q.
Proof. exact run_idempotent_lemma. Qed.
Print Assumptions run_idempotent.

(* The source contains exactly the effects the model accounts for: one write-capable call
   (fs::write in generate_report), read_dir x4 / is_dir x3 / read_to_string x4 (three analyze_dir
   and Opts::new), process::exit x2 (Opts::new exit(1); main exit(101) after a panic of the analysis thread), one thread spawned and joined by main ... *)
Theorem effects_match_model :
  effects_write = expected_write /\ effects_read = expected_read /\ effects_process = expected_process.
Proof. exact effects_match_model_lemma. Qed.
Print Assumptions effects_match_model.

Theorem effect_counts :
  count "fs::read_dir" effects = 4%nat /\ count "fs::read_to_string" effects = 4%nat /\
  count ".is_dir()" effects = 3%nat /\ count "fs::write" effects = 1%nat /\
  count "process::exit" effects = 2%nat /\ count "thread spawn" effects = 1%nat /\ List.length effects = 16%nat.
Proof. exact effect_counts_lemma. Qed.
Print Assumptions effect_counts.

(* ... and no static, unsafe, thread-local, lazily initialised or interior-mutable state. *)
Theorem no_shared_state : shared_state = [].
Proof. exact no_shared_state_lemma. Qed.
Print Assumptions no_shared_state.

(* ---- the hypotheses are satisfiable by non-trivial values (definitions in proofs/RunProof.v):
   ex_analyse  a toy analysis that reads the eligible file /w/a.sol only;
   ex_fs old   a file system whose analysed directory /w is also the working directory, with a
               report `old` (None = absent) left by an earlier run;  ex_args = --path .  ---- *)
Example ex_analyse_ignores_ineligible : ignores_ineligible ex_analyse.
Proof. exact ex_analyse_ignores_ineligible_lemma. Qed.
Print Assumptions ex_analyse_ignores_ineligible.

Example ex_stale_report_replaced :
  agree_except (report_path "/w") (ex_fs None) (ex_fs (Some "OLD REPORT, much longer than the new one ................")) /\
  snd (run (fun _ => None) ex_analyse (ex_fs (Some "OLD REPORT, much longer than the new one ................")) "/w" ex_args) = 0 /\
  fst (run (fun _ => None) ex_analyse (ex_fs (Some "OLD REPORT, much longer than the new one ................")) "/w" ex_args)
      "/w/solstat_report.md" = Some (FileN "findings in a.sol: contract A {}") /\
  fst (run (fun _ => None) ex_analyse (ex_fs None) "/w" ex_args)
      "/w/solstat_report.md" = Some (FileN "findings in a.sol: contract A {}").
Proof. exact ex_stale_report_replaced_lemma. Qed.
Print Assumptions ex_stale_report_replaced.

Example ex_failed_run : run (fun _ => None) ex_analyse (ex_fs (Some "old")) "/w"
                            {| arg_path := None; arg_toml := None |} = (ex_fs (Some "old"), 1).
Proof. exact ex_failed_run_lemma. Qed.
Print Assumptions ex_failed_run.

(* an enumeration that is a faithful view (proofs/RunTreeProof.v: the listing of /w made of a.sol
   and the report, when they exist) - the tree it returns does contain the old report *)
Example ex_tree_at_faithful : tree_view_faithful ex_tree_at.
Proof. exact ex_tree_at_faithful_lemma. Qed.
Print Assumptions ex_tree_at_faithful.

Example ex_tree_sees_old_report :
  ex_tree_at (ex_fs (Some "old report")) "/w" =
  Some [Dir.EFile "a.sol" (Some "contract A {}"); Dir.EFile "solstat_report.md" (Some "old report")].
Proof. exact ex_tree_sees_old_report_lemma. Qed.
Print Assumptions ex_tree_sees_old_report.
