(* C07 - vulnerability detectors report every canonical instance and no non-instance.
   Statements only; proofs in proofs/DetC07.v. *)
From Coq Require Import List String Ascii NArith ZArith Bool.
Import ListNotations.
From Solstat Require Import Lift Pt Walk Res Nodes Utils Detectors Patterns DetBase DetC07 ExampleProg.
Local Open Scope string_scope.

(* every member access named transfer / transferFrom / approve, anywhere in the file *)
Theorem unsafe_erc20_exact : forall su, unsafe_erc20_operation_vulnerability su = Ok (spec_unsafe_erc20 su).
Proof. exact unsafe_erc20_closed. Qed.
Print Assumptions unsafe_erc20_exact.

(* every `*` whose left operand chain (through * and parentheses) contains a `/`,
   every `/=` whose right-hand chain (through / + - % & | ^ << >> and parentheses) contains a `*` *)
Theorem divide_before_multiply_exact : forall su,
  divide_before_multiply_vulnerability su = Ok (spec_divide_before_multiply su).
Proof. exact divide_before_multiply_closed. Qed.
Print Assumptions divide_before_multiply_exact.

Theorem mul_chain_decider : forall e, sp_mul_chain_div e = true <-> MulChainDiv e.
Proof. exact MulChainDiv_iff. Qed.
Print Assumptions mul_chain_decider.
Theorem arith_chain_decider : forall e, sp_arith_chain_mul e = true <-> ArithChainMul e.
Proof. exact ArithChainMul_iff. Qed.
Print Assumptions arith_chain_decider.

(* floating_pragma: a pragma is reported iff its value contains the caret *)
Theorem floating_pragma_exact : forall su, floating_pragma_vulnerability su = Ok (spec_floating_pragma su).
Proof. exact floating_pragma_closed. Qed.
Print Assumptions floating_pragma_exact.

Theorem caret_value_reported : forall parts l id lit rest,
  In (SourceUnitPart_PragmaDirective l id lit) parts -> StringLiteral_string lit = String "^"%char rest ->
  In l (spec_floating_pragma (Mk_SourceUnit parts)).
Proof. exact caret_value_reported_lemma. Qed.
Print Assumptions caret_value_reported.

(* an exactly pinned version (digits and dots only) is never reported *)
Theorem pinned_value_not_reported : forall parts l,
  (forall id lit, In (SourceUnitPart_PragmaDirective l id lit) parts ->
                  all_chars digit_or_dot (StringLiteral_string lit) = true) ->
  ~ In l (spec_floating_pragma (Mk_SourceUnit parts)).
Proof. exact pinned_value_not_reported_lemma. Qed.
Print Assumptions pinned_value_not_reported.

(* unprotected_selfdestruct: exact characterisation ... *)
Theorem unprotected_selfdestruct_exact : forall su,
  unprotected_selfdestruct_vulnerability su = Ok (spec_unprotected_selfdestruct su).
Proof. exact unprotected_selfdestruct_closed. Qed.
Print Assumptions unprotected_selfdestruct_exact.

(* ... which says: a selfdestruct/suicide call is reported iff it lies (at any depth) in the body of a
   contract member function that is not a constructor, carries public/external, has no modifier whose
   name contains "only", and whose body contains no call - other than selfdestruct/suicide and
   elementary type conversions - that receives msg.sender or an ==/!= comparison with msg.sender *)
Theorem unprotected_selfdestruct_reported_iff : forall su l,
  In l (spec_unprotected_selfdestruct su) <->
  exists f body, In f (member_functions su) /\ FunctionDefinition_body f = Some body /\
                 sp_is_ctor f = false /\ sp_pub_ext f = true /\ sp_only_modifier f = false /\
                 existsb sp_sender_check (exprs_in (pre_Statement body)) = false /\
                 In l (sp_selfdestruct_calls body).
Proof. exact spec_selfdestruct_in. Qed.
Print Assumptions unprotected_selfdestruct_reported_iff.

(* non-vacuity on a real parse tree: kill() is reported (selfdestruct(payable(msg.sender)) in an
   unprotected public function), safeKill() under onlyOwner is not; erc20 / division / caret present *)
Example c07_nonvacuous :
  List.length (spec_unprotected_selfdestruct example_su) = 1 /\
  List.length (flat_map (fun f => match FunctionDefinition_body f with Some b => sp_selfdestruct_calls b | None => [] end)
                        (member_functions example_su)) = 2 /\
  List.length (spec_unsafe_erc20 example_su) = 1 /\
  List.length (spec_divide_before_multiply example_su) = 2 /\
  List.length (spec_floating_pragma example_su) = 1 /\ List.length (pragmas example_su) = 2.
Proof. vm_compute. repeat split; reflexivity. Qed.
Print Assumptions c07_nonvacuous.
