(* C14 - configuration selects exactly the named patterns and the named directory.
   Statements only; proofs are in proofs/OptsProof.v (and proofs/RunProof.v for the last one).

   gen/Names.v   the tables regenerated from the source on every run: for each category
                 (cat_opt, cat_vul, cat_qa) the enum variants, the arms of str_to_*, get_all_*, the
                 arms of analyze_for_* and get_*_report_section, the documented names
                 (docs/identified-*.md) and the names of the sample Solstat.toml.
                 A pattern is the index of its variant in the enum declaration.
   model/Opts.v  str_to (= str_to_optimization / _vulnerability / _qa; None = the panic) and
                 resolve (= Opts::new) over Args and the parsed configuration record.
   spec/ConfigSpec.v  casing_of: the same text up to the case of ASCII letters.

   `documented c` = doc_names c ++ toml_names c. *)
From Coq Require Import List String Ascii NArith Bool.
Import ListNotations.
From Solstat Require Import Res Names Opts ConfigSpec OptsProof Run RunProof.
Local Open Scope string_scope.
Local Open Scope N_scope.
Local Open Scope list_scope.

(* Every name of the documentation and of the sample Solstat.toml is accepted (and yields a
   declared variant) ... *)
Theorem doc_names_accepted : forall c, In c categories -> forall n, In n (documented c) ->
  exists p, str_to c n = Some p /\ p < n_variants c.
Proof. exact doc_names_accepted_lemma. Qed.
Print Assumptions doc_names_accepted.

(* ... regardless of letter case. *)
Theorem doc_names_accepted_any_case : forall c, In c categories -> forall n s, In n (documented c) ->
  casing_of n s -> exists p, str_to c s = Some p /\ p < n_variants c.
Proof. exact doc_names_any_case_lemma. Qed.
Print Assumptions doc_names_accepted_any_case.

(* Letter case never matters, for any spelling and any table. *)
Theorem case_insensitive : forall c s s', ascii_lower s = ascii_lower s' -> str_to c s = str_to c s'.
Proof. exact case_insensitive_lemma. Qed.
Print Assumptions case_insensitive.

Theorem casing_irrelevant : forall c s s', casing_of s s' -> str_to c s = str_to c s'.
Proof. exact casing_irrelevant_lemma. Qed.
Print Assumptions casing_irrelevant.

(* ascii_lower is itself only a re-casing (so the two theorems above say the same thing) *)
Theorem ascii_lower_is_a_casing : forall s, casing_of s (ascii_lower s).
Proof. exact casing_of_ascii_lower. Qed.
Print Assumptions ascii_lower_is_a_casing.

(* Distinct documented names select distinct patterns: two documented names that select the
   same pattern are the same name (up to letter case). *)
Theorem doc_names_injective : forall c, In c categories -> forall n1 n2 p,
  In n1 (documented c) -> In n2 (documented c) -> str_to c n1 = Some p -> str_to c n2 = Some p ->
  ascii_lower n1 = ascii_lower n2.
Proof. exact doc_names_injective_lemma. Qed.
Print Assumptions doc_names_injective.

(* Every pattern that runs by default can be selected by a documented name. *)
Theorem defaults_selectable : forall c, In c categories -> forall p, In p (get_all c) ->
  exists n, In n (documented c) /\ str_to c n = Some p.
Proof. exact defaults_selectable_lemma. Qed.
Print Assumptions defaults_selectable.

(* "without a configuration file all patterns are analysed": the default lists contain every
   variant of the enum *)
Theorem defaults_all : forall c, In c categories -> forall i, i < n_variants c -> In i (get_all c).
Proof. exact defaults_all_lemma. Qed.
Print Assumptions defaults_all.

(* whatever a name selects is a declared pattern, and every declared pattern has its own arm in
   analyze_for_* and in get_*_report_section (the `_ => panic!` arm of analyze_for_qa is unreachable) *)
Theorem str_to_declared : forall c, In c categories -> forall s p, str_to c s = Some p -> p < n_variants c.
Proof. exact str_to_declared_lemma. Qed.
Print Assumptions str_to_declared.

Theorem dispatch_total : forall c, In c categories -> forall i, i < n_variants c ->
  In i (analyze_arms c) /\ In i (section_arms c).
Proof. exact dispatch_total_lemma. Qed.
Print Assumptions dispatch_total.

(* An unknown name (in any of the three lists) makes option resolution fail ... *)
Theorem unknown_fails_early : forall a f t ce, arg_toml a = Some f -> has_unknown t ->
  exists s, resolve a (Some t) ce = PanicExit s.
Proof. exact unknown_fails_early_lemma. Qed.
Print Assumptions unknown_fails_early.

(* ... as does a configuration file that cannot be read or parsed; *)
Theorem bad_toml_fails_early : forall a f ce, arg_toml a = Some f -> exists s, resolve a None ce = PanicExit s.
Proof. exact bad_toml_fails_early_lemma. Qed.
Print Assumptions bad_toml_fails_early.

(* these are the only causes of a panic, and exit(1) has exactly one cause *)
Theorem panic_only : forall a t ce s, resolve a t ce = PanicExit s ->
  exists f, arg_toml a = Some f /\ match t with None => True | Some cfg => has_unknown cfg end.
Proof. exact panic_only_lemma. Qed.
Print Assumptions panic_only.

Theorem exit1_only : forall a t ce, resolve a t ce = Exit1 -> arg_path a = None /\ arg_toml a = None /\ ce = false.
Proof. exact exit1_only_lemma. Qed.
Print Assumptions exit1_only.

(* With a configuration file exactly the listed patterns are analysed (in the listed order) ... *)
Theorem selection_exact : forall a f t ce p o v q, arg_toml a = Some f ->
  resolve a (Some t) ce = Run p o v q ->
  map (str_to cat_opt) (t_optimizations t) = map Some o /\
  map (str_to cat_vul) (t_vulnerabilities t) = map Some v /\
  map (str_to cat_qa) (t_qa t) = map Some q.
Proof. exact selection_exact_toml_lemma. Qed.
Print Assumptions selection_exact.

(* ... a configuration whose names are all known always resolves ... *)
Theorem selection_total : forall a f t ce, arg_toml a = Some f ->
  known cat_opt (t_optimizations t) -> known cat_vul (t_vulnerabilities t) -> known cat_qa (t_qa t) ->
  exists o v q, resolve a (Some t) ce = Run (match arg_path a with Some p => p | None => t_path t end) o v q.
Proof. exact selection_total_toml_lemma. Qed.
Print Assumptions selection_total.

(* ... and without one, all patterns are (get_all_*, which by defaults_all is every pattern). *)
Theorem selection_default : forall a t ce p o v q, arg_toml a = None ->
  resolve a t ce = Run p o v q -> o = get_all cat_opt /\ v = get_all cat_vul /\ q = get_all cat_qa.
Proof. exact selection_exact_default_lemma. Qed.
Print Assumptions selection_default.

(* The directory analysed is the --path argument if given, *)
Theorem path_precedence_flag : forall a t ce p p' o v q, arg_path a = Some p ->
  resolve a t ce = Run p' o v q -> p' = p.
Proof. exact path_flag_lemma. Qed.
Print Assumptions path_precedence_flag.

(* otherwise the path set in the configuration file, *)
Theorem path_precedence_toml : forall a f t ce p' o v q, arg_path a = None -> arg_toml a = Some f ->
  resolve a (Some t) ce = Run p' o v q -> p' = t_path t.
Proof. exact path_toml_lemma. Qed.
Print Assumptions path_precedence_toml.

(* otherwise ./contracts (exit status 1 when that directory does not exist). *)
Theorem path_precedence_default : forall a t, arg_path a = None -> arg_toml a = None ->
  resolve a t true = Run "./contracts" (get_all cat_opt) (get_all cat_vul) (get_all cat_qa) /\
  resolve a t false = Exit1.
Proof. exact path_default_lemma. Qed.
Print Assumptions path_precedence_default.

(* A run whose option resolution fails ends with a non-zero exit status and leaves the whole file
   system as it was: in particular no report is written (model/Run.v; the oracles of the run are
   arbitrary). *)
Theorem unknown_name_no_report : forall parse_toml analyse_all fs cwd a f t,
  arg_toml a = Some f -> toml_of parse_toml fs cwd a = Some t -> has_unknown t ->
  exists code, run parse_toml analyse_all fs cwd a = (fs, code) /\ code <> 0.
Proof. exact unknown_name_no_report_lemma. Qed.
Print Assumptions unknown_name_no_report.

(* ---- the hypotheses are satisfiable by non-trivial values (the examples are phrased over the
        regenerated tables, not over particular variant numbers) ---- *)
Example sample_toml_resolves : exists o v q,
  resolve {| arg_path := None; arg_toml := Some "Solstat.toml" |}
          (Some {| t_path := toml_sample_path; t_optimizations := toml_names cat_opt;
                   t_vulnerabilities := toml_names cat_vul; t_qa := toml_names cat_qa |}) false
  = Run toml_sample_path o v q /\
  List.length o = List.length (toml_names cat_opt) /\ List.length v = List.length (toml_names cat_vul) /\
  List.length q = List.length (toml_names cat_qa).
Proof. exact sample_toml_resolves_lemma. Qed.
Print Assumptions sample_toml_resolves.

Example flag_beats_toml_path : exists o v q,
  resolve {| arg_path := Some "src"; arg_toml := Some "cfg.toml" |}
          (Some {| t_path := "./lib"; t_optimizations := rev (doc_names cat_opt);
                   t_vulnerabilities := doc_names cat_vul ++ doc_names cat_vul; t_qa := doc_names cat_qa |}) true
  = Run "src" o v q /\ List.length v = (2 * List.length (doc_names cat_vul))%nat.
Proof. exact flag_beats_toml_path_lemma. Qed.
Print Assumptions flag_beats_toml_path.

Example unknown_name_example :
  has_unknown {| t_path := "."; t_optimizations := []; t_vulnerabilities := [" "]; t_qa := [] |} /\
  resolve {| arg_path := Some "src"; arg_toml := Some "cfg.toml" |}
          (Some {| t_path := "."; t_optimizations := []; t_vulnerabilities := [" "]; t_qa := [] |}) true
  = PanicExit "Unrecgonized vulnerability".
Proof. exact unknown_name_example_lemma. Qed.
Print Assumptions unknown_name_example.

Example casing_example : casing_of "sstore" "SsToRe" /\ forall c, str_to c "SsToRe" = str_to c "sstore".
Proof. exact casing_example_lemma. Qed.
Print Assumptions casing_example.

