(* C10 - packing suggestions are sound with respect to the storage-slot model.
   Statements only; proofs are in proofs/SlotProof.v and proofs/PackProof.v.

   spec/SlotSpec.v:  layout l gs  =  gs cuts the member sizes l into consecutive non-empty
   groups, each group fits into 256 bits, and the first member of every later group does not
   fit into the group before it ("consecutive items share a slot while they fit").
   size_ok s = 0 < s <= 256.  can_be_packed (model/Utils.v) is the comparison made by both
   detectors: storage_slots_used(declared order) > storage_slots_used(ascending sort). *)
From Coq Require Import String List NArith Bool Permutation.
Import ListNotations.
From Solstat Require Import Res Lift Pt Walk Utils SlotSpec SlotProof Opt_pack PackProof.
Local Open Scope N_scope.
Local Open Scope list_scope.

(* ---- sizes *)
Theorem type_size_table :
  (forall l, get_type_size (Expression_Type l Ty_Bool) = 8) /\
  (forall l, get_type_size (Expression_Type l Ty_Address) = 160) /\
  (forall l, get_type_size (Expression_Type l Ty_AddressPayable) = 160) /\
  (forall l n, get_type_size (Expression_Type l (Ty_Uint n)) = n) /\
  (forall l n, get_type_size (Expression_Type l (Ty_Int n)) = n) /\
  (forall l n, get_type_size (Expression_Type l (Ty_Bytes n)) = 8 * n) /\
  (forall e, ~ is_sized e -> get_type_size e = 256).
Proof. exact type_size_table_lemma. Qed.
Print Assumptions type_size_table.

(* uintN / intN with 0 < N <= 256 and bytesN with 0 < N <= 32 (all the lexer produces) *)
Theorem type_size_in_range : forall e, lexer_type e -> size_ok (get_type_size e).
Proof. exact type_size_in_range_lemma. Qed.
Print Assumptions type_size_in_range.

(* ---- slot count = number of groups of the layout rule, for sequences of any length *)
Theorem slots_greedy_partition : forall l,
  Forall size_ok l -> N.of_nat (length l) < 2 ^ 32 ->
  forall gs, layout l gs -> storage_slots_used l = Ok (N.of_nat (length gs)).
Proof. exact slots_greedy_partition_lemma. Qed.
Print Assumptions slots_greedy_partition.

(* the rule always has a solution (so the theorem above is not vacuous) ... *)
Theorem layout_exists : forall l, Forall size_ok l -> layout l (layout_of l).
Proof. exact layout_exists_lemma. Qed.
Print Assumptions layout_exists.

(* ... and it determines the number of slots *)
Theorem layout_count_unique : forall l gs gs',
  Forall size_ok l -> N.of_nat (length l) < 2 ^ 32 -> layout l gs -> layout l gs' ->
  length gs = length gs'.
Proof. exact layout_count_unique_lemma. Qed.
Print Assumptions layout_count_unique.

(* no panic on such sizes; the verdict in terms of the rule *)
Theorem can_be_packed_total : forall l,
  Forall size_ok l -> N.of_nat (length l) < 2 ^ 32 ->
  can_be_packed l = Ok (slots_spec (sort_u16 l) <? slots_spec l).
Proof. exact can_be_packed_total_lemma. Qed.
Print Assumptions can_be_packed_total.

(* ---- the verdict.  reported l  :=  can_be_packed l = Ok true *)
Theorem pack_only_if : forall l,
  can_be_packed l = Ok true ->
  exists l' n n', Permutation l l' /\ storage_slots_used l = Ok n /\ storage_slots_used l' = Ok n' /\ n' < n.
Proof. exact pack_only_if_lemma. Qed.
Print Assumptions pack_only_if.

(* the same read through the layout rule: some reordering occupies strictly fewer slots *)
Theorem pack_only_if_layout : forall l,
  Forall size_ok l -> N.of_nat (length l) < 2 ^ 32 -> can_be_packed l = Ok true ->
  exists l' gs gs', Permutation l l' /\ layout l gs /\ layout l' gs' /\ (length gs' < length gs)%nat.
Proof. exact pack_only_if_layout_lemma. Qed.
Print Assumptions pack_only_if_layout.

Theorem pack_not_if_optimal : forall l n,
  storage_slots_used l = Ok n ->
  (forall l' n', Permutation l l' -> storage_slots_used l' = Ok n' -> n <= n') ->
  can_be_packed l <> Ok true.
Proof. exact pack_not_if_optimal_lemma. Qed.
Print Assumptions pack_not_if_optimal.

Theorem pack_not_if_optimal_layout : forall l,
  Forall size_ok l -> N.of_nat (length l) < 2 ^ 32 ->
  (forall l' gs gs', Permutation l l' -> layout l gs -> layout l' gs' -> (length gs <= length gs')%nat) ->
  can_be_packed l = Ok false.
Proof. exact pack_not_if_optimal_layout_lemma. Qed.
Print Assumptions pack_not_if_optimal_layout.

(* sort_asc = sort_u16, sort_desc = its reversal *)
Theorem pack_if_both_sorts : forall l u a d,
  storage_slots_used l = Ok u ->
  storage_slots_used (sort_u16 l) = Ok a -> storage_slots_used (rev (sort_u16 l)) = Ok d ->
  a < u -> d < u -> can_be_packed l = Ok true.
Proof. exact pack_if_both_sorts_lemma. Qed.
Print Assumptions pack_if_both_sorts.

(* the modelled sort is a sorting function *)
Theorem sort_is_sorted_permutation : forall l,
  Permutation l (sort_u16 l) /\ Sorted.Sorted (fun a b => a <= b) (sort_u16 l).
Proof. exact sort_is_sorted_permutation_lemma. Qed.
Print Assumptions sort_is_sorted_permutation.

(* reported <-> the declared order takes more slots than the ascending sort *)
Theorem reported_iff : forall l,
  can_be_packed l = Ok true <->
  exists u s, storage_slots_used l = Ok u /\ storage_slots_used (sort_u16 l) = Ok s /\ s < u.
Proof. exact can_be_packed_true. Qed.
Print Assumptions reported_iff.

(* ---- the detectors.  A result is a list standing for the HashSet<Loc>: membership only.
   pack_storage_variables reports exactly the top-level contract definitions (contracts,
   abstract contracts, interfaces, libraries) whose state-variable sizes, in declaration
   order, can be packed - at the location of the contract definition. *)
Theorem pack_storage_exact : forall parts locs,
  pack_storage_variables_optimization (Mk_SourceUnit parts) = Ok locs ->
  forall l, In l locs <->
    exists c, In (SourceUnitPart_ContractDefinition c) parts /\ l = ContractDefinition_loc c /\
              can_be_packed (contract_variable_sizes c) = Ok true.
Proof. exact pack_storage_exact_lemma. Qed.
Print Assumptions pack_storage_exact.

(* the detector's own `.unwrap()` cannot fail: a result exists whenever the comparison does
   not overflow for any contract ... *)
Theorem pack_storage_total : forall parts,
  (forall c, In (SourceUnitPart_ContractDefinition c) parts ->
             exists b, can_be_packed (contract_variable_sizes c) = Ok b) ->
  exists locs, pack_storage_variables_optimization (Mk_SourceUnit parts) = Ok locs.
Proof. exact pack_storage_total_lemma. Qed.
Print Assumptions pack_storage_total.

(* ... which holds for members of the types the lexer can produce (with can_be_packed_total) *)
Theorem contract_sizes_in_range : forall c,
  (forall v, In (ContractPart_VariableDefinition v) (ContractDefinition_parts c) ->
             lexer_type (VariableDefinition_ty v)) ->
  Forall size_ok (contract_variable_sizes c).
Proof. exact contract_sizes_ok. Qed.
Print Assumptions contract_sizes_in_range.

(* pack_struct_variables reports exactly the struct definitions at file level and directly
   inside a top-level contract whose field sizes can be packed - at the struct's location *)
Theorem pack_struct_exact : forall parts locs,
  pack_struct_variables_optimization (Mk_SourceUnit parts) = Ok locs ->
  forall l, In l locs <->
    exists s, struct_of_file parts s /\ l = StructDefinition_loc s /\
              can_be_packed (struct_variable_sizes s) = Ok true.
Proof. exact pack_struct_exact_lemma. Qed.
Print Assumptions pack_struct_exact.

Theorem pack_struct_total : forall parts,
  (forall s, struct_of_file parts s -> exists b, can_be_packed (struct_variable_sizes s) = Ok b) ->
  exists locs, pack_struct_variables_optimization (Mk_SourceUnit parts) = Ok locs.
Proof. exact pack_struct_total_lemma. Qed.
Print Assumptions pack_struct_total.

Theorem struct_sizes_in_range : forall s,
  Forall (fun d => lexer_type (VariableDeclaration_ty d)) (StructDefinition_fields s) ->
  Forall size_ok (struct_variable_sizes s).
Proof. exact struct_sizes_ok. Qed.
Print Assumptions struct_sizes_in_range.

(* contracts and structs occur nowhere else in a parse tree: below an expression, statement,
   type, parameter, ... there are only expression and statement nodes *)
Theorem only_expressions_and_statements_below :
  (forall x, Forall low (pre_Expression x)) /\ (forall x, Forall low (pre_Statement x)).
Proof. exact only_low_below_lemma. Qed.
Print Assumptions only_expressions_and_statements_below.

(* ---- concrete instances *)
Example ex_layout : layout [8; 256; 8] [[8]; [256]; [8]] /\ layout [8; 8; 256] [[8; 8]; [256]] /\
                    storage_slots_used [8; 256; 8] = Ok 3 /\ storage_slots_used [8; 8; 256] = Ok 2.
Proof.
  unfold layout. cbn [concat app adjacent hd]. unfold total. cbn [fold_right].
  repeat split; try reflexivity; try (repeat constructor; try discriminate); try (vm_compute; intros H; discriminate H).
Qed.
Print Assumptions ex_layout.

Example ex_reported : can_be_packed [8; 256; 8] = Ok true /\ can_be_packed [8; 8; 256] = Ok false /\
                      can_be_packed [192; 256; 192] = Ok false (* bytes24, uint256, bytes24: no better order *).
Proof. vm_compute. repeat split. Qed.
Print Assumptions ex_reported.

Example ex_size_ok : Forall size_ok [8; 256; 8] /\ N.of_nat (length [8; 256; 8]) < 2 ^ 32.
Proof. split; [repeat constructor; vm_compute; try reflexivity; intros H; discriminate H | vm_compute; reflexivity]. Qed.
Print Assumptions ex_size_ok.

(* a file:  struct F { bool a; bytes32 s; bytes16 i; }  contract C { uint8 a; uint256 b; uint8 c; struct G { uint128 x; uint128 y; } } *)
Definition L0 := Loc_File 0 0 0.
Definition ex_ty (t : Ty) := Expression_Type L0 t.
Definition ex_field (t : Ty) := Mk_VariableDeclaration L0 (ex_ty t) None (Mk_Identifier L0 "f"%string).
Definition ex_var (t : Ty) := ContractPart_VariableDefinition (Mk_VariableDefinition L0 (ex_ty t) [] (Mk_Identifier L0 "v"%string) None).
Definition ex_F := Mk_StructDefinition (Loc_File 0 0 50) (Mk_Identifier L0 "F"%string) [ex_field Ty_Bool; ex_field (Ty_Bytes 32); ex_field (Ty_Bytes 16)].
Definition ex_G := Mk_StructDefinition (Loc_File 0 110 150) (Mk_Identifier L0 "G"%string) [ex_field (Ty_Uint 128); ex_field (Ty_Uint 128)].
Definition ex_C := Mk_ContractDefinition (Loc_File 0 60 160) (ContractTy_Contract L0) (Mk_Identifier L0 "C"%string) []
                     [ex_var (Ty_Uint 8); ex_var (Ty_Uint 256); ex_var (Ty_Uint 8); ContractPart_StructDefinition ex_G].
Definition ex_file := Mk_SourceUnit [SourceUnitPart_StructDefinition ex_F; SourceUnitPart_ContractDefinition ex_C].
Example ex_detectors :
  pack_storage_variables_optimization ex_file = Ok [Loc_File 0 60 160] /\
  pack_struct_variables_optimization ex_file = Ok [Loc_File 0 0 50] /\
  contract_variable_sizes ex_C = [8; 256; 8] /\ struct_variable_sizes ex_F = [8; 256; 128] /\
  struct_variable_sizes ex_G = [128; 128].
Proof. vm_compute. repeat split. Qed.
Print Assumptions ex_detectors.
